//go:build verif

package client

// C11cl: replay of the TLC graph of spec/C11cl_Client.tla on the real circuit-v2 client.
//
// One synctest bubble per walk.  The client (client.New) runs on the fake host of
// zz_verif_c11cl_fake_test.go: every Dial / Accept call runs in its own goroutine, host.NewStream and
// upgrader.Upgrade are gates, the relay's answers and STOP messages are scripted from the walk (the relay is
// the adversary), time is virtual.  After every step the harness
//   - compares what the call returned / where it blocks with the `op` of the model (L1 where the statement
//     speaks: who gets a connection, which status a STOP stream is answered with; L2 for error wording),
//   - projects the real state (goroutines returned or blocked at which gate, resource-manager system scope,
//     conn-manager tags, in-package activeDials / hopCount) and compares it with the model state,
//   - evaluates the statement's clauses as monitors on its OWN ledger (not on the model): K1 one hop stream
//     per destination, K4 Limited iff limit, K5 rollback of scopes / streams / buffers, K6 tag iff a circuit is
//     open, K7 exactly one answer per STOP stream, K8 Close unblocks Accept.

import (
	"context"
	"encoding/binary"
	"encoding/json"
	"errors"
	"fmt"
	"hash/fnv"
	"os"
	"path/filepath"
	"runtime"
	"sort"
	"strings"
	"sync"
	"testing"
	"testing/synctest"
	"time"

	"github.com/libp2p/go-libp2p/core/crypto"
	"github.com/libp2p/go-libp2p/core/network"
	"github.com/libp2p/go-libp2p/core/peer"
	"github.com/libp2p/go-libp2p/core/protocol"
	"github.com/libp2p/go-libp2p/core/transport"
	"github.com/libp2p/go-libp2p/internal/vfh"
	bconnmgr "github.com/libp2p/go-libp2p/p2p/net/connmgr"
	rcmgr "github.com/libp2p/go-libp2p/p2p/host/resource-manager"
	pbv2 "github.com/libp2p/go-libp2p/p2p/protocol/circuitv2/pb"
	circuitproto "github.com/libp2p/go-libp2p/p2p/protocol/circuitv2/proto"
	"github.com/libp2p/go-libp2p/x/rate"
	ma "github.com/multiformats/go-multiaddr"
	manet "github.com/multiformats/go-multiaddr/net"
	"google.golang.org/protobuf/proto"
)

const (
	vfC11clUnit = 5 * time.Second
	vfC11clEps  = time.Millisecond // every timeout is n units minus eps: no timer fires on a harness instant
	vfC11clTag  = "relay-hop-stream"
)

// ---------------------------------------------------------------------------------------------
// key material and concretisation families

var vfC11clKeyTypes = []int{crypto.Ed25519, crypto.Secp256k1, crypto.ECDSA, crypto.RSA}
var vfC11clKeyNames = []string{"ed25519", "secp256k1", "ecdsa", "rsa"}

type vfC11clIdent struct {
	key crypto.PrivKey
	id  peer.ID
}

type vfC11clGlobals struct {
	once sync.Once
	err  error
	// ids[keytype index][name]
	ids []map[string]vfC11clIdent
}

var vfC11clG vfC11clGlobals

var vfC11clNames = []string{"self", "r1", "r2", "r3", "d1", "d2", "d3", "s1", "s2", "h", "a", "x"}

func vfC11clInit() error {
	g := &vfC11clG
	g.once.Do(func() {
		for _, kt := range vfC11clKeyTypes {
			m := map[string]vfC11clIdent{}
			for _, n := range vfC11clNames {
				bits := 0
				if kt == crypto.RSA {
					bits = 2048
				}
				k, _, err := crypto.GenerateKeyPair(kt, bits)
				if err != nil {
					g.err = err
					return
				}
				id, err := peer.IDFromPrivateKey(k)
				if err != nil {
					g.err = err
					return
				}
				m[n] = vfC11clIdent{k, id}
			}
			g.ids = append(g.ids, m)
		}
	})
	return g.err
}

// a walk's concretisation: which key type every role uses, address forms, limit values, status codes, garbage
type vfC11clVariant struct {
	n int
}

func (v vfC11clVariant) id(name string) peer.ID {
	// roles use different key types within one walk: role index + variant
	k := 0
	for i, x := range vfC11clNames {
		if x == name {
			k = i
		}
	}
	return vfC11clG.ids[(v.n+k)%len(vfC11clKeyTypes)][name].id
}

var vfC11clRelayAddrForms = []string{
	"/ip4/203.0.113.%d/tcp/4001",
	"",
	"/dns4/relay%d.example.org/tcp/443/tls/ws",
	"/ip6/2001:db8::%d/udp/4001/quic-v1",
}

// transport part of the relay's address in the dialled multiaddr ("" = none: /p2p/R/p2p-circuit)
func (v vfC11clVariant) relayTpt(r string) string {
	f := vfC11clRelayAddrForms[(v.n/2)%len(vfC11clRelayAddrForms)]
	if f == "" {
		return ""
	}
	return fmt.Sprintf(f, 10+int(r[len(r)-1]-'0'))
}

// address of the connection to the relay the hop / stop streams run on
func (v vfC11clVariant) relayConnAddr(r string) ma.Multiaddr {
	t := v.relayTpt(r)
	if t == "" {
		t = "/ip4/192.0.2.9/tcp/9"
	}
	return ma.StringCast(t)
}

type vfC11clLim struct {
	dur  uint32
	data uint64
}

var vfC11clLimits = []vfC11clLim{{120, 1 << 17}, {0, 5}, {7, 0}, {1<<32 - 1, 1<<64 - 1}, {1, 1}}

func (v vfC11clVariant) limit() vfC11clLim { return vfC11clLimits[v.n%len(vfC11clLimits)] }

var vfC11clBadStatus = []pbv2.Status{pbv2.Status_RESERVATION_REFUSED, pbv2.Status_RESOURCE_LIMIT_EXCEEDED,
	pbv2.Status_PERMISSION_DENIED, pbv2.Status_CONNECTION_FAILED, pbv2.Status_NO_RESERVATION,
	pbv2.Status_MALFORMED_MESSAGE, pbv2.Status_UNEXPECTED_MESSAGE, pbv2.Status_UNUSED, pbv2.Status(999), pbv2.Status(101)}

func vfC11clDelim(b []byte) []byte {
	return append(binary.AppendUvarint(nil, uint64(len(b))), b...)
}

func vfC11clMsg(m proto.Message) []byte {
	b, err := proto.Marshal(m)
	if err != nil {
		panic(err)
	}
	return vfC11clDelim(b)
}

// bodies that are not a protobuf message of the expected type
var vfC11clGarbage = [][]byte{
	{0x08},                         // field 1 varint, value missing
	{0x0a, 0x05, 0x01},             // field 1 length-delimited, truncated
	{0xff, 0xff, 0xff, 0xff, 0x0f}, // bad tag
	{0x12, 0x02, 0x08},             // nested Peer message: truncated varint inside
	{0x0f},                         // wire type 7
}

// what is written on the stream for a kind that is a read error; closeWrite: the relay half-closes afterwards
func vfC11clBadBytes(kind string, n int) (b []byte, closeWrite bool) {
	switch kind {
	case "garbage":
		return vfC11clDelim(vfC11clGarbage[n%len(vfC11clGarbage)]), false
	case "toolarge":
		sizes := []uint64{4097, 4098, 1 << 20, 1<<63 + 5}
		return binary.AppendUvarint(nil, sizes[n%len(sizes)]), false
	case "trunc":
		switch n % 3 {
		case 0:
			return []byte{10, 0x08, 0x02, 0x28}, true
		case 1:
			return []byte{0x80}, true // unfinished length
		default:
			return []byte{4096 & 0x7f | 0x80, 4096 >> 7, 1, 2, 3}, true
		}
	case "eof":
		return nil, true
	}
	return nil, false
}

func (v vfC11clVariant) hopAnswer(kind string) (b []byte, closeWrite, reset bool) {
	st := pbv2.HopMessage_STATUS.Enum()
	l := v.limit()
	switch kind {
	case "ok":
		return vfC11clMsg(&pbv2.HopMessage{Type: st, Status: pbv2.Status_OK.Enum()}), false, false
	case "oklim":
		return vfC11clMsg(&pbv2.HopMessage{Type: st, Status: pbv2.Status_OK.Enum(), Limit: &pbv2.Limit{Duration: &l.dur, Data: &l.data}}), false, false
	case "oklim0":
		return vfC11clMsg(&pbv2.HopMessage{Type: st, Status: pbv2.Status_OK.Enum(), Limit: &pbv2.Limit{}}), false, false
	case "status":
		m := &pbv2.HopMessage{Type: st, Status: vfC11clBadStatus[v.n%len(vfC11clBadStatus)].Enum()}
		if v.n%3 == 1 { // a refusal with a limit and a reservation attached is still a refusal
			m.Limit = &pbv2.Limit{Duration: &l.dur, Data: &l.data}
			e := uint64(1 << 40)
			m.Reservation = &pbv2.Reservation{Expire: &e}
		}
		return vfC11clMsg(m), false, false
	case "status0":
		return vfC11clMsg(&pbv2.HopMessage{Type: st}), false, false
	case "wrongtype":
		switch v.n % 4 {
		case 0:
			return vfC11clMsg(&pbv2.HopMessage{Type: pbv2.HopMessage_CONNECT.Enum(), Status: pbv2.Status_OK.Enum()}), false, false
		case 1:
			return vfC11clMsg(&pbv2.HopMessage{Type: pbv2.HopMessage_RESERVE.Enum(), Status: pbv2.Status_OK.Enum()}), false, false
		case 2:
			return vfC11clMsg(&pbv2.HopMessage{Status: pbv2.Status_OK.Enum()}), false, false // no type at all
		default:
			return vfC11clMsg(&pbv2.HopMessage{Type: pbv2.HopMessage_Type(7).Enum(), Status: pbv2.Status_OK.Enum()}), false, false
		}
	case "reset":
		return nil, false, true
	}
	b, cw := vfC11clBadBytes(kind, v.n)
	return b, cw, false
}

// STOP message of a kind from source peer src
func (v vfC11clVariant) stopMsg(kind string, src peer.ID) (b []byte, closeWrite, reset bool) {
	ct := pbv2.StopMessage_CONNECT.Enum()
	l := v.limit()
	pi := &pbv2.Peer{Id: []byte(src)}
	if v.n%2 == 1 {
		pi.Addrs = [][]byte{ma.StringCast("/ip4/192.0.2.33/tcp/1").Bytes(), {0xff, 0x00}}
	}
	switch kind {
	case "ok":
		m := &pbv2.StopMessage{Type: ct, Peer: pi}
		if v.n%4 == 3 {
			m.Type = nil // the type field missing means CONNECT (proto3 default)
		}
		return vfC11clMsg(m), false, false
	case "oklim":
		return vfC11clMsg(&pbv2.StopMessage{Type: ct, Peer: pi, Limit: &pbv2.Limit{Duration: &l.dur, Data: &l.data}}), false, false
	case "oklim0":
		return vfC11clMsg(&pbv2.StopMessage{Type: ct, Peer: pi, Limit: &pbv2.Limit{}}), false, false
	case "badtype":
		if v.n%2 == 0 {
			return vfC11clMsg(&pbv2.StopMessage{Type: pbv2.StopMessage_STATUS.Enum(), Peer: pi, Status: pbv2.Status_OK.Enum()}), false, false
		}
		return vfC11clMsg(&pbv2.StopMessage{Type: pbv2.StopMessage_Type(5).Enum(), Peer: pi}), false, false
	case "nopeer":
		return vfC11clMsg(&pbv2.StopMessage{Type: ct}), false, false
	case "badpeer":
		bad := [][]byte{{}, {0x01, 0x02, 0x03}, []byte("not a multihash at all............")}
		return vfC11clMsg(&pbv2.StopMessage{Type: ct, Peer: &pbv2.Peer{Id: bad[v.n%len(bad)]}}), false, false
	case "reset":
		return nil, false, true
	}
	b, cw := vfC11clBadBytes(kind, v.n)
	return b, cw, false
}

// ---------------------------------------------------------------------------------------------
// configuration of an instance (header of a behaviour file)

type vfC11clCfg struct {
	Name      string   `json:"name"`
	Relays    []string `json:"relays"`
	Dests     []string `json:"dests"`
	MaxDial   int      `json:"maxDial"`
	MaxIn     int      `json:"maxIn"`
	MaxAcc    int      `json:"maxAcc"`
	AcceptTO  int      `json:"acceptTO"`
	StreamTO  int      `json:"streamTO"`
	DialTO    int      `json:"dialTO"`
	RelayTO   int      `json:"relayTO"`
	CloseOnce bool     `json:"closeOnce"`
}

func vfC11clCfgOf(hdr map[string]any) (*vfC11clCfg, error) {
	b, _ := json.Marshal(hdr)
	c := &vfC11clCfg{}
	if err := json.Unmarshal(b, c); err != nil {
		return nil, err
	}
	if c.Name == "" || len(c.Relays) == 0 {
		return nil, fmt.Errorf("bad header %s", b)
	}
	sort.Strings(c.Relays)
	sort.Strings(c.Dests)
	return c, nil
}

// model state, as printed by C11cl_MC!StOf
type vfC11clDialSt struct {
	St, R, D string
	T        int
	Lim      string
}
type vfC11clIncSt struct {
	St, R, Lim string
	T          int
	Wf         bool
}
type vfC11clState struct {
	Dial   []vfC11clDialSt
	Act    map[string]int
	Inc    []vfC11clIncSt
	Inq    []int
	Accq   []int
	Closed bool
	Hop    map[string]int
	Tag    map[string]bool
	Res    [4]int // co, so, si, mem
}

func vfC11clParseState(raw json.RawMessage) (*vfC11clState, error) {
	var parts []json.RawMessage
	if err := json.Unmarshal(raw, &parts); err != nil || len(parts) != 9 {
		return nil, fmt.Errorf("state %s: %v", raw, err)
	}
	s := &vfC11clState{}
	var dl [][]any
	if err := json.Unmarshal(parts[0], &dl); err != nil {
		return nil, err
	}
	for _, d := range dl {
		s.Dial = append(s.Dial, vfC11clDialSt{d[0].(string), d[1].(string), d[2].(string), int(d[3].(float64)), d[4].(string)})
	}
	var il [][]any
	if err := json.Unmarshal(parts[2], &il); err != nil {
		return nil, err
	}
	for _, d := range il {
		s.Inc = append(s.Inc, vfC11clIncSt{d[0].(string), d[1].(string), d[2].(string), int(d[3].(float64)), d[4].(bool)})
	}
	for i, dst := range []any{&s.Act, nil, &s.Inq, &s.Accq, &s.Closed, &s.Hop, &s.Tag} {
		if dst == nil {
			continue
		}
		if err := json.Unmarshal(parts[1+i], dst); err != nil {
			return nil, fmt.Errorf("state part %d %s: %v", 1+i, parts[1+i], err)
		}
	}
	var rs []int
	if err := json.Unmarshal(parts[8], &rs); err != nil || len(rs) != 4 {
		return nil, fmt.Errorf("state res %s: %v", parts[8], err)
	}
	copy(s.Res[:], rs)
	return s, nil
}

// ---------------------------------------------------------------------------------------------
// the system under test and the harness's ledger

type vfC11clDialRes struct {
	cc  transport.CapableConn
	err error
}

type vfC11clDial struct {
	slot   int
	r, d   string
	cancel context.CancelFunc
	done   chan vfC11clDialRes
	res    *vfC11clDialRes // set once the call has returned
	pipe   *vfC11clPipe    // the hop stream handed to this dial
	conn   *Conn           // the relayed connection seen at the upgrader
	cc     transport.CapableConn
	lim    string // announced by the relay's answer ("none" | "lim" | "lim0")
	st     string // observed: "wait" | "ns" | "resp" | "upg" | "open" | "shut" | "free"
	closes int
}

type vfC11clInc struct {
	slot    int
	r       string
	src     peer.ID
	pipe    *vfC11clPipe
	hdone   chan struct{} // the handler returned
	sent    bool          // the STOP message was written
	lim     string
	conn    *Conn
	st      string   // observed: "read" | "queued" | "open" | "shut" | "free"
	answers []string // statuses read at the relay's end, in order
	reset   bool
	closes  int
	wf      bool
}

type vfC11clAccRes struct {
	c   manet.Conn
	err error
}

type vfC11clAcc struct {
	k    int
	done chan vfC11clAccRes
}

type vfC11clSys struct {
	cfg *vfC11clCfg
	v   vfC11clVariant
	w   *vfC11clWorld
	h   *vfC11clHost
	up  *vfC11clUpgrader
	cm  *bconnmgr.BasicConnMgr
	cl  *Client

	dials  map[int]*vfC11clDial // by slot: the current occupant
	incs   map[int]*vfC11clInc
	accs   map[int]*vfC11clAcc // blocked Accept calls by caller id
	allD   []*vfC11clDial
	allI   []*vfC11clInc
	closed bool
	second map[string]bool // relays on which some connection was closed a second time in this walk
	seq    int

	out      *vfh.Result
	walk     int
	step     int
	diverged bool
	prefix   []vfh.Op
}

func vfC11clNewSys(cfg *vfC11clCfg, v vfC11clVariant, out *vfh.Result) (*vfC11clSys, error) {
	w := &vfC11clWorld{self: v.id("self"), handlers: map[protocol.ID]network.StreamHandler{}, removed: map[protocol.ID]int{}}
	w.sys, w.peerLim = vfC11clNewLimit(), vfC11clNewLimit()
	rm, err := rcmgr.NewResourceManager(&vfC11clLimiter{Limiter: rcmgr.NewFixedLimiter(rcmgr.InfiniteLimits), sys: w.sys, peer: w.peerLim},
		rcmgr.WithMetricsDisabled(), rcmgr.WithConnRateLimiters(&rate.Limiter{}), rcmgr.WithLimitPerSubnet(nil, nil),
		rcmgr.WithNetworkPrefixLimit(nil, nil))
	if err != nil {
		return nil, err
	}
	w.rm = rm
	cm, err := bconnmgr.NewConnManager(1000, 2000)
	if err != nil {
		return nil, err
	}
	w.cm = cm
	s := &vfC11clSys{cfg: cfg, v: v, w: w, cm: cm, up: &vfC11clUpgrader{}, out: out,
		dials: map[int]*vfC11clDial{}, incs: map[int]*vfC11clInc{}, accs: map[int]*vfC11clAcc{}, second: map[string]bool{}}
	s.h = &vfC11clHost{w: w}
	s.h.net = &vfC11clNet{w: w}
	s.h.ps = &vfC11clPS{w: w}
	cl, err := New(s.h, s.up)
	if err != nil {
		return nil, err
	}
	cl.Start()
	s.cl = cl
	return s, nil
}

func (s *vfC11clSys) mismatch(class, what string, exp, got any) {
	s.out.AddMismatch(vfh.Mismatch{Class: class, What: fmt.Sprintf("[%s v%d] %s", s.cfg.Name, s.v.n, what), Walk: s.walk, Step: s.step,
		Expected: exp, Got: got, Prefix: append([]vfh.Op(nil), s.prefix...), Cfg: s.cfg})
}

// l2 notes a disagreement with the model that no clause of the statement covers; only the first of a walk is
// reported in detail (later ones usually follow from it), L1 monitors go on
func (s *vfC11clSys) l2(class, what string, exp, got any) {
	if s.diverged {
		return
	}
	s.diverged = true
	s.mismatch("L2:"+class, what, exp, got)
}

func (s *vfC11clSys) stopHandler() network.StreamHandler {
	s.w.mu.Lock()
	defer s.w.mu.Unlock()
	return s.w.handlers[circuitproto.ProtoIDv2Stop]
}

// dialAddr: the multiaddr handed to Dial for relay r and destination d
func (s *vfC11clSys) dialAddr(r, d, how string) ma.Multiaddr {
	rid, did := s.v.id(r), s.v.id(d)
	t := s.v.relayTpt(r)
	switch how {
	case "nocircuit":
		if t == "" {
			t = "/ip4/203.0.113.77/tcp/4001"
		}
		return ma.StringCast(t + "/p2p/" + rid.String())
	case "norelay":
		return ma.StringCast("/p2p-circuit/p2p/" + did.String())
	case "badrelay":
		// a relay part that does not name a peer
		if t == "" {
			t = "/ip4/203.0.113.77/tcp/4001"
		}
		return ma.StringCast(t + "/p2p-circuit/p2p/" + did.String())
	}
	a := t + "/p2p/" + rid.String() + "/p2p-circuit"
	switch s.v.n % 3 {
	case 1:
		a += "/p2p/" + did.String()
	}
	return ma.StringCast(a)
}

// ---------------------------------------------------------------------------------------------
// observation

func errKind(err error) string {
	switch {
	case err == nil:
		return "nil"
	case strings.Contains(err.Error(), "concurrent active dial succeeded"):
		return "dedup-ok"
	case strings.Contains(err.Error(), "concurrent active dial through the same relay failed"):
		return "dedup-proto"
	case errors.Is(err, context.Canceled):
		return "ctx"
	case errors.Is(err, context.DeadlineExceeded):
		return "nstimeout"
	case errors.Is(err, errVfC11clNS):
		return "nsfail"
	case errors.Is(err, errVfC11clUpgrade):
		return "upgrade"
	case errors.Is(err, errVfC11clWrite):
		return "wfail"
	case isRelayError(err):
		return "relay"
	}
	var me *rcmgr.ErrMemoryLimitExceeded
	if errors.As(err, &me) {
		return "mem"
	}
	return "read"
}

var errVfC11clNS = errors.New("vf: scripted NewStream failure")

// observe brings the ledger up to date with what the real code has done since the last step: calls that
// returned, gates reached, answers written on STOP streams.  It returns the dials and STOP streams that ended.
func (s *vfC11clSys) observe() (endedD []*vfC11clDial, endedI []*vfC11clInc, acc map[int]vfC11clAccRes) {
	synctest.Wait()
	ns := s.w.pendingSlots()
	ups := s.up.pendingSlots()
	for _, d := range s.dials {
		if d.st == "free" || d.st == "shut" || d.st == "open" {
			continue
		}
		select {
		case r := <-d.done:
			d.res = &r
			if r.err == nil && r.cc != nil {
				d.cc = r.cc
				d.st = "open"
			} else {
				d.st = "free"
				endedD = append(endedD, d)
			}
			continue
		default:
		}
		switch {
		case ns[d.slot] != nil:
			d.st = "ns"
		case ups[d.slot] != nil:
			d.st = "upg"
			if c, ok := ups[d.slot].maconn.(*Conn); ok {
				d.conn = c
			}
		case d.pipe != nil && !d.pipe.ends[0].over():
			d.st = "resp"
		default:
			d.st = "wait"
		}
	}
	for _, in := range s.incs {
		s.readAnswers(in)
		if in.st == "free" || in.st == "shut" || in.st == "open" {
			continue
		}
		select {
		case <-in.hdone:
			// the handler is gone: either the connection went to an Accept call (found below) or the stream is over
			in.st = "gone"
		default:
			if in.sent {
				in.st = "queued"
			} else {
				in.st = "read"
			}
		}
	}
	acc = map[int]vfC11clAccRes{}
	for k, a := range s.accs {
		select {
		case r := <-a.done:
			acc[k] = r
			delete(s.accs, k)
			if c, ok := r.c.(*Conn); ok && c != nil {
				for _, in := range s.incs {
					if in.pipe != nil && c.stream == network.Stream(in.pipe.ends[0]) {
						in.conn = c
						in.st = "open"
					}
				}
			}
		default:
		}
	}
	for _, in := range s.incs {
		if in.st == "gone" {
			in.st = "free"
			endedI = append(endedI, in)
		}
	}
	sort.Slice(endedD, func(i, j int) bool { return endedD[i].slot < endedD[j].slot })
	sort.Slice(endedI, func(i, j int) bool { return endedI[i].slot < endedI[j].slot })
	return
}

// readAnswers parses what the client has written on a STOP stream so far
func (s *vfC11clSys) readAnswers(in *vfC11clInc) {
	if in.pipe == nil {
		return
	}
	re := in.pipe.ends[1]
	data, _, rst := re.drain()
	in.reset = in.reset || rst
	for len(data) > 0 {
		n, k := binary.Uvarint(data)
		if k <= 0 || uint64(len(data)-k) < n {
			in.answers = append(in.answers, "unparsable")
			return
		}
		var m pbv2.StopMessage
		if err := proto.Unmarshal(data[k:k+int(n)], &m); err != nil || m.GetType() != pbv2.StopMessage_STATUS {
			in.answers = append(in.answers, "unparsable")
		} else {
			in.answers = append(in.answers, m.GetStatus().String())
		}
		data = data[k+int(n):]
	}
}

func (s *vfC11clSys) tagged(r string) bool {
	ti := s.cm.GetTagInfo(s.v.id(r))
	if ti == nil {
		return false
	}
	_, ok := ti.Tags[vfC11clTag]
	return ok
}

func (s *vfC11clSys) sysStat() network.ScopeStat {
	var st network.ScopeStat
	s.w.rm.ViewSystem(func(sc network.ResourceScope) error { st = sc.Stat(); return nil })
	return st
}

// circuits: relayed connections through r that are open according to the ledger
func (s *vfC11clSys) circuits(r string) int {
	n := 0
	for _, d := range s.dials {
		if d.r == r && (d.st == "upg" || d.st == "open") {
			n++
		}
	}
	for _, in := range s.incs {
		if in.r == r && in.st == "open" {
			n++
		}
	}
	return n
}

// monitors evaluates the statement's clauses on the ledger and the real observables (never on the model)
func (s *vfC11clSys) monitors(when string) {
	// K1: at most one dial per destination talks to a relay
	per := map[string][]int{}
	for _, d := range s.dials {
		if d.st == "ns" || d.st == "resp" {
			per[d.d] = append(per[d.d], d.slot)
		}
	}
	for dst, l := range per {
		if len(l) > 1 {
			sort.Ints(l)
			s.mismatch("two-active-dials-of-one-destination", fmt.Sprintf("%s: dials %v of %s are talking to a relay at the same time", when, l, dst), 1, len(l))
		}
	}
	// K5: scopes, streams and buffers are held exactly by the calls in flight and the open connections
	var co, so, si, mem int
	for _, d := range s.dials {
		switch d.st {
		case "wait", "ns":
			co++
		case "resp":
			co, so, mem = co+1, so+1, mem+1
		case "upg", "open":
			co, so = co+1, so+1
		}
	}
	for _, in := range s.incs {
		switch in.st {
		case "read", "queued", "open":
			si++
		}
	}
	st := s.sysStat()
	if st.NumConnsOutbound != co || st.NumConnsInbound != 0 {
		s.mismatch("rollback-connection-scope", fmt.Sprintf("%s: the resource manager holds %d outbound connection scopes, the calls in flight and open connections account for %d", when, st.NumConnsOutbound, co), co, st.NumConnsOutbound)
	}
	if st.NumStreamsOutbound != so {
		s.mismatch("rollback-hop-stream", fmt.Sprintf("%s: %d hop streams are open, the dials waiting for an answer and the open connections account for %d", when, st.NumStreamsOutbound, so), so, st.NumStreamsOutbound)
	}
	if st.NumStreamsInbound != si {
		s.mismatch("rollback-stop-stream", fmt.Sprintf("%s: %d stop streams are open, the handlers in flight and the accepted connections account for %d", when, st.NumStreamsInbound, si), si, st.NumStreamsInbound)
	}
	if st.Memory != int64(mem)*maxMessageSize {
		s.mismatch("rollback-message-buffer", fmt.Sprintf("%s: %d bytes are reserved, %d dials are waiting for an answer", when, st.Memory, mem), mem*maxMessageSize, st.Memory)
	}
	// every dial that ended without a connection has released its hop stream, by Reset
	for _, d := range s.allD {
		if d.st == "free" && d.pipe != nil {
			nc, nr := d.pipe.ends[0].counts()
			if !d.pipe.ends[0].over() {
				s.mismatch("hop-stream-left-open", fmt.Sprintf("%s: dial %d (%s via %s) ended without a connection and left its hop stream open", when, d.slot, d.d, d.r), "released", "open")
			} else if nr == 0 {
				s.mismatch("L2:hop-stream-closed-not-reset", fmt.Sprintf("%s: dial %d ended without a connection; its hop stream was closed (%d) but never reset", when, d.slot, nc), "reset", "closed")
			}
		}
	}
	// K5: no activeDials entry without a dial talking to a relay
	s.cl.mx.Lock()
	for p := range s.cl.activeDials {
		name := "?"
		for _, dn := range s.cfg.Dests {
			if s.v.id(dn) == p {
				name = dn
			}
		}
		if len(per[name]) == 0 {
			s.mismatch("active-dial-entry-left", fmt.Sprintf("%s: activeDials still has an entry for %s although no dial of it is talking to a relay", when, name), "no entry", "entry")
		}
	}
	s.cl.mx.Unlock()
	// K6: tag iff a circuit through the relay is open
	for _, r := range s.cfg.Relays {
		n := s.circuits(r)
		if got := s.tagged(r); got != (n >= 1) {
			class := "hop-tag-not-exact"
			if s.second[r] {
				class = "L2:hop-tag-refcount-broken-by-second-close" // as coded (Conn.Close untags on every call); an observation: the client's own connection-manager tag is not a clause of C11
			}
			s.mismatch(class, fmt.Sprintf("%s: relay %s carries the tag %q: %v, with %d circuits open through it", when, r, vfC11clTag, got, n), n >= 1, got)
		}
	}
	// K7: at most one answer per STOP stream; an accepted one was answered OK, a refused one with an error status
	for _, in := range s.allI {
		if len(in.answers) > 1 {
			s.mismatch("stop-stream-answered-twice", fmt.Sprintf("%s: STOP stream %d got the answers %v", when, in.slot, in.answers), 1, in.answers)
		}
		if in.conn != nil && (len(in.answers) == 0 || in.answers[0] != "OK") {
			s.mismatch("accepted-without-ok", fmt.Sprintf("%s: STOP stream %d was handed to Accept but answered %v", when, in.slot, in.answers), "OK", in.answers)
		}
		if in.conn == nil && in.st == "free" && len(in.answers) > 0 && in.answers[0] == "OK" {
			s.mismatch("ok-without-accept", fmt.Sprintf("%s: STOP stream %d was answered OK but no Accept call returned it", when, in.slot), "a connection", "none")
		}
		if in.st == "free" && in.conn == nil && !in.pipe.ends[0].over() {
			s.mismatch("stop-stream-left-open", fmt.Sprintf("%s: the handler of STOP stream %d is gone, the stream is neither accepted nor closed", when, in.slot), "released", "open")
		}
	}
	// K8
	if s.closed && len(s.accs) > 0 {
		s.mismatch("accept-blocked-after-close", fmt.Sprintf("%s: %d Accept calls are still blocked after Listener.Close", when, len(s.accs)), 0, len(s.accs))
	}
}

// compare projects the real state and compares it with the model's
func (s *vfC11clSys) compare(raw json.RawMessage) {
	exp, err := vfC11clParseState(raw)
	if err != nil {
		panic(err)
	}
	when := fmt.Sprintf("after step %d", s.step)
	s.monitors(when)
	for i, e := range exp.Dial {
		slot := i + 1
		got := "free"
		var d *vfC11clDial
		if d = s.dials[slot]; d != nil {
			got = d.st
		}
		if got != e.St {
			// who holds a connection / who is still trying is what the statement is about (K1-K3)
			s.mismatch("dial-progress", fmt.Sprintf("%s: dial slot %d is %q, the model says %q", when, slot, got, e.St), e.St, got)
			continue
		}
		if d != nil && (e.St == "upg" || e.St == "open") {
			if d.lim != e.Lim {
				s.l2("lim-ledger", fmt.Sprintf("%s: slot %d announced limit %q vs %q", when, slot, d.lim, e.Lim), e.Lim, d.lim)
			}
		}
	}
	for i, e := range exp.Inc {
		slot := i + 1
		got := "free"
		if in := s.incs[slot]; in != nil {
			got = in.st
		}
		if got != e.St {
			s.mismatch("stop-progress", fmt.Sprintf("%s: STOP slot %d is %q, the model says %q", when, slot, got, e.St), e.St, got)
		}
	}
	var blocked []int
	for k := range s.accs {
		blocked = append(blocked, k)
	}
	sort.Ints(blocked)
	eb := append([]int(nil), exp.Accq...)
	sort.Ints(eb)
	if fmt.Sprint(blocked) != fmt.Sprint(eb) {
		s.mismatch("accept-progress", fmt.Sprintf("%s: blocked Accept callers %v, the model says %v", when, blocked, eb), eb, blocked)
	}
	// resource manager vs the model (the monitors compare it with the ledger)
	st := s.sysStat()
	got := [4]int{st.NumConnsOutbound, st.NumStreamsOutbound, st.NumStreamsInbound, int(st.Memory / maxMessageSize)}
	if got != exp.Res {
		s.l2("resources", fmt.Sprintf("%s: resource manager <<conns, hop streams, stop streams, buffers>> = %v, model %v", when, got, exp.Res), exp.Res, got)
	}
	for _, r := range s.cfg.Relays {
		if g := s.tagged(r); g != exp.Tag[r] {
			s.l2("tag", fmt.Sprintf("%s: tag of %s is %v, model %v", when, r, g, exp.Tag[r]), exp.Tag[r], g)
		}
	}
	// in-package
	s.cl.mx.Lock()
	for _, r := range s.cfg.Relays {
		if g := s.cl.hopCount[s.v.id(r)]; g != exp.Hop[r] {
			s.l2("hopCount", fmt.Sprintf("%s: hopCount[%s] = %d, model %d", when, r, g, exp.Hop[r]), exp.Hop[r], g)
		}
	}
	for _, dn := range s.cfg.Dests {
		_, has := s.cl.activeDials[s.v.id(dn)]
		if has != (exp.Act[dn] != 0) {
			s.l2("activeDials", fmt.Sprintf("%s: activeDials has %s: %v, model %v", when, dn, has, exp.Act[dn]), exp.Act[dn], has)
		}
	}
	s.cl.mx.Unlock()
	if g := s.cl.ctx.Err() != nil; g != exp.Closed {
		s.l2("closed", fmt.Sprintf("%s: client context cancelled: %v, model %v", when, g, exp.Closed), exp.Closed, g)
	}
}

// ---------------------------------------------------------------------------------------------
// steps

func vfC11clEndedOf(op vfh.Op) map[int]string {
	out := map[int]string{}
	for _, e := range op.L("ended") {
		m := e.(map[string]any)
		out[int(m["i"].(float64))] = m["err"].(string)
	}
	return out
}

func vfC11clInts(l []any) []int {
	out := []int{}
	for _, x := range l {
		out = append(out, int(x.(float64)))
	}
	sort.Ints(out)
	return out
}

// checkEnded compares the dials that returned without a connection in this step with the model's `ended`
func (s *vfC11clSys) checkEnded(op vfh.Op, ended []*vfC11clDial) {
	exp := vfC11clEndedOf(op)
	got := map[int]string{}
	for _, d := range ended {
		got[d.slot] = errKind(d.res.err)
		if d.res.cc != nil {
			s.mismatch("dial-error-with-connection", fmt.Sprintf("dial %d returned both a connection and the error %v", d.slot, d.res.err), nil, "conn+err")
		}
	}
	var es, gs []int
	for k := range exp {
		es = append(es, k)
	}
	for k := range got {
		gs = append(gs, k)
	}
	sort.Ints(es)
	sort.Ints(gs)
	if fmt.Sprint(es) != fmt.Sprint(gs) {
		s.mismatch("dial-end", fmt.Sprintf("step %s: the dials that ended without a connection are %v, the model says %v", op.Name(), gs, es), exp, got)
		return
	}
	for k, e := range exp {
		g := got[k]
		// the wording of an error is not part of the statement, except for what a waiter learns (K2)
		if g != e {
			if e == "dedup-ok" || e == "dedup-proto" || g == "dedup-ok" || g == "dedup-proto" {
				s.mismatch("dedup-verdict", fmt.Sprintf("step %s: waiting dial %d ended with %q, the model says %q", op.Name(), k, g, e), e, g)
			} else {
				s.l2("dial-error-kind", fmt.Sprintf("step %s: dial %d ended with %q (%v), the model says %q", op.Name(), k, g, s.dialErr(k, ended), e), e, g)
			}
		}
	}
}

func (s *vfC11clSys) dialErr(slot int, ended []*vfC11clDial) error {
	for _, d := range ended {
		if d.slot == slot {
			return d.res.err
		}
	}
	return nil
}

// checkNext: the waiters that took over (are now inside host.NewStream)
func (s *vfC11clSys) checkNext(op vfh.Op, before map[int]string) {
	exp := vfC11clInts(op.L("next"))
	var got []int
	for _, d := range s.dials {
		if before[d.slot] == "wait" && d.st == "ns" {
			got = append(got, d.slot)
		}
	}
	sort.Ints(got)
	if fmt.Sprint(got) != fmt.Sprint(exp) && !(len(got) == 0 && len(exp) == 0) {
		s.mismatch("dedup-retry", fmt.Sprintf("step %s: waiting dials that took over: %v, the model says %v", op.Name(), got, exp), exp, got)
	}
}

func (s *vfC11clSys) states() map[int]string {
	out := map[int]string{}
	for _, d := range s.dials {
		out[d.slot] = d.st
	}
	return out
}

func (s *vfC11clSys) apply(op vfh.Op) {
	switch op.Name() {
	case "dial":
		s.opDial(op)
	case "ns":
		s.opNS(op)
	case "respond":
		s.opRespond(op)
	case "upgrade":
		s.opUpgrade(op)
	case "cclose":
		s.opCloseDialled(op)
	case "cancel":
		s.opCancel(op)
	case "stop", "stopmsg":
		s.opStop(op)
	case "accept":
		s.opAccept(op)
	case "closel":
		s.opCloseL(op)
	case "iclose":
		s.opCloseAccepted(op)
	case "tick":
		s.opTick(op)
	default:
		panic("unknown op " + op.Name())
	}
}

func (s *vfC11clSys) opDial(op vfh.Op) {
	i, r, dn, how := op.I("i"), op.S("r"), op.S("d"), op.S("how")
	ctx, cancel := context.WithCancel(context.WithValue(context.Background(), vfC11clCtxKey{}, i))
	d := &vfC11clDial{slot: i, r: r, d: dn, cancel: cancel, done: make(chan vfC11clDialRes, 1), st: "wait"}
	s.dials[i] = d
	s.allD = append(s.allD, d)
	switch how {
	case "connlim":
		cur := s.sysStat().NumConnsOutbound
		s.w.sys.set(func(l *vfC11clLimit) { l.connOut = cur })
	case "peerlim":
		s.w.peerLim.set(func(l *vfC11clLimit) { l.connOut = 0 })
	}
	addr := s.dialAddr(r, dn, how)
	did := s.v.id(dn)
	go func() {
		cc, err := s.cl.Dial(ctx, addr, did)
		d.done <- vfC11clDialRes{cc, err}
	}()
	ended, _, _ := s.observe()
	s.w.sys.open()
	s.w.peerLim.open()
	got := d.st
	if d.st == "free" {
		got = "err"
	}
	if got != op.S("out") {
		s.mismatch("dial-call", fmt.Sprintf("Dial(%s via %s, %s) in slot %d: %q, the model says %q (err %v)", dn, r, how, i, got, op.S("out"), s.dialErr(i, ended)), op.S("out"), got)
	}
	if got == "err" {
		k := errKind(d.res.err)
		if how == "ok" {
			s.mismatch("dial-refused", fmt.Sprintf("Dial(%s via %s) failed at once: %v", dn, r, d.res.err), "ns|wait", k)
		}
		delete(s.dials, i)
	}
}

func (s *vfC11clSys) opNS(op vfh.Op) {
	i, how := op.I("i"), op.S("how")
	d := s.dials[i]
	c := s.w.takePending(i)
	if d == nil || c == nil {
		s.mismatch("dial-progress", fmt.Sprintf("step ns(%d): no NewStream call of that dial is pending", i), "pending", "none")
		return
	}
	before := s.states()
	rid := s.v.id(d.r)
	if c.peer != rid || c.proto != circuitproto.ProtoIDv2Hop {
		s.mismatch("hop-stream-target", fmt.Sprintf("dial %d opens a stream to %s %s, the relay is %s", i, c.peer, c.proto, rid), rid.String(), c.peer.String())
	}
	if how == "nsfail" {
		c.reply <- vfC11clNSReply{nil, errVfC11clNS}
	} else {
		s.seq++
		pipe, err := s.w.openStream(fmt.Sprintf("hop%d", s.seq), rid, s.v.relayConnAddr(d.r), network.DirOutbound, circuitproto.ProtoIDv2Hop)
		if err != nil {
			panic(err)
		}
		d.pipe = pipe
		switch how {
		case "mem":
			cur := s.sysStat().Memory
			s.w.sys.set(func(l *vfC11clLimit) { l.mem = cur })
		case "wfail":
			pipe.ends[0].failWrite = true
		}
		c.reply <- vfC11clNSReply{pipe.ends[0], nil}
	}
	ended, _, _ := s.observe()
	s.w.sys.open()
	s.checkEnded(op, ended)
	s.checkNext(op, before)
	if how == "ok" && d.st == "resp" {
		// the relay reads the CONNECT request
		data, _, _ := d.pipe.ends[1].drain()
		n, k := binary.Uvarint(data)
		var m pbv2.HopMessage
		if k <= 0 || uint64(len(data)-k) != n || proto.Unmarshal(data[k:], &m) != nil {
			s.mismatch("connect-request", fmt.Sprintf("dial %d: the request on the hop stream is not one delimited HopMessage (%x)", i, data), "CONNECT", "garbage")
		} else if m.GetType() != pbv2.HopMessage_CONNECT || string(m.GetPeer().GetId()) != string(s.v.id(d.d)) {
			s.mismatch("connect-request", fmt.Sprintf("dial %d: request type %v for peer %x, expected CONNECT to %s", i, m.GetType(), m.GetPeer().GetId(), s.v.id(d.d)), "CONNECT "+d.d, m.String())
		}
	}
	for _, e := range ended {
		delete(s.dials, e.slot)
	}
}

func (s *vfC11clSys) opRespond(op vfh.Op) {
	i, a := op.I("i"), op.S("a")
	d := s.dials[i]
	if d == nil || d.pipe == nil {
		s.mismatch("dial-progress", fmt.Sprintf("step respond(%d): that dial has no hop stream", i), "resp", "none")
		return
	}
	before := s.states()
	b, cw, rst := s.v.hopAnswer(a)
	re := d.pipe.ends[1]
	if len(b) > 0 {
		re.Write(b)
	}
	if cw {
		re.CloseWrite()
	}
	if rst {
		re.Reset()
	}
	d.lim = op.S("lim")
	ended, _, _ := s.observe()
	s.checkEnded(op, ended)
	s.checkNext(op, before)
	ok := d.st == "upg"
	if ok != op.B("ok") {
		// K3
		s.mismatch("connection-iff-status-ok", fmt.Sprintf("dial %d, relay answered %q: connection made: %v", i, a, ok), op.B("ok"), ok)
	}
	if ok {
		s.checkConn(fmt.Sprintf("dialled connection %d (answer %q)", i, a), d.conn, d.lim, d.r, s.v.id(d.d), d.pipe)
		u := s.up.pendingSlots()[i]
		if u.dir != network.DirOutbound || u.p != s.v.id(d.d) || u.t != transport.Transport(s.cl) {
			s.mismatch("upgrade-arguments", fmt.Sprintf("dial %d: Upgrade called with dir %v peer %s", i, u.dir, u.p), "outbound "+d.d, fmt.Sprint(u.dir, u.p))
		}
	}
	for _, e := range ended {
		delete(s.dials, e.slot)
	}
}

// checkConn: K4 and the shape of a relayed connection (conn.go)
func (s *vfC11clSys) checkConn(what string, c *Conn, lim, r string, remote peer.ID, pipe *vfC11clPipe) {
	if c == nil {
		s.mismatch("conn-type", what+": not a *client.Conn", "*Conn", "nil")
		return
	}
	// the handshake's deadlines are gone ("reset stream deadline as message has been read"), bytes pass both ways
	if rd, wd := pipe.ends[0].deadlines(); !rd.IsZero() || !wd.IsZero() {
		s.mismatch("handshake-deadline-left-on-connection", fmt.Sprintf("%s: the stream of the relayed connection still has the deadlines read %v / write %v of the handshake", what, rd, wd), "none", fmt.Sprint(rd, wd))
	}
	s.seq++
	ping, pong := []byte(fmt.Sprintf("ping-%d", s.seq)), []byte(fmt.Sprintf("pong-%d", s.seq))
	pipe.ends[1].drain()
	pipe.ends[1].Write(ping)
	buf := make([]byte, 64)
	n, err := c.Read(buf)
	c.Write(pong)
	back, _, _ := pipe.ends[1].drain()
	if err != nil || string(buf[:n]) != string(ping) || string(back) != string(pong) {
		s.mismatch("connection-does-not-carry-data", fmt.Sprintf("%s: read %q (%v) of %q, the far end got %q of %q", what, buf[:n], err, ping, back, pong), string(ping), string(buf[:n]))
	}
	st := c.Stat()
	if st.Limited != (lim != "none") {
		s.mismatch("limited-flag-wrong", fmt.Sprintf("%s: Stat().Limited = %v, the relay's message carried limit %q", what, st.Limited, lim), lim != "none", st.Limited)
	}
	if lim == "none" {
		if len(st.Extra) != 0 {
			s.mismatch("limit-values", what+": limit values reported for a connection without limit", nil, fmt.Sprint(st.Extra))
		}
	} else {
		l := vfC11clLim{}
		if lim == "lim" {
			l = s.v.limit()
		}
		gd, _ := st.Extra[StatLimitDuration].(time.Duration)
		gb, _ := st.Extra[StatLimitData].(uint64)
		if gd != time.Duration(l.dur)*time.Second || gb != l.data {
			s.mismatch("limit-values", fmt.Sprintf("%s: limit reported as %v / %d bytes, the relay announced %d s / %d bytes", what, gd, gb, l.dur, l.data), fmt.Sprint(l), fmt.Sprint(gd, gb))
		}
	}
	want := s.v.relayConnAddr(r).Encapsulate(ma.StringCast("/p2p/" + s.v.id(r).String() + "/p2p-circuit"))
	if got := c.RemoteMultiaddr(); !got.Equal(want) {
		s.mismatch("remote-multiaddr", fmt.Sprintf("%s: RemoteMultiaddr %s", what, got), want.String(), got.String())
	}
	if na, ok := c.RemoteAddr().(*NetAddr); !ok || na.Relay != s.v.id(r).String() || na.Remote != remote.String() || na.Network() != "libp2p-circuit-relay" {
		s.mismatch("remote-addr", fmt.Sprintf("%s: RemoteAddr %v", what, c.RemoteAddr()), remote.String(), fmt.Sprint(c.RemoteAddr()))
	}
	if !c.LocalMultiaddr().Equal(ma.StringCast("/ip4/198.51.100.7/tcp/4001")) {
		s.mismatch("local-multiaddr", what+": LocalMultiaddr "+c.LocalMultiaddr().String(), "/ip4/198.51.100.7/tcp/4001", c.LocalMultiaddr().String())
	}
}

func (s *vfC11clSys) opUpgrade(op vfh.Op) {
	i, how := op.I("i"), op.S("how")
	d := s.dials[i]
	u := s.up.take(i)
	if d == nil || u == nil {
		s.mismatch("dial-progress", fmt.Sprintf("step upgrade(%d): that dial is not inside the upgrader", i), "upg", "none")
		return
	}
	if how == "upfail2" {
		s.second[d.r] = true
	}
	u.reply <- how
	ended, _, _ := s.observe()
	if how == "ok" {
		if d.st != "open" {
			s.mismatch("dial-result", fmt.Sprintf("dial %d: the upgrade succeeded, Dial returned %v", i, s.dialErr(i, ended)), "connection", d.st)
		} else {
			cs, ok := d.cc.(network.ConnStat)
			if !ok || cs.Stat().Limited != (d.lim != "none") {
				s.mismatch("limited-flag-wrong", fmt.Sprintf("dial %d: the transport connection reports Limited wrongly (limit %q)", i, d.lim), d.lim != "none", !(d.lim != "none"))
			}
			if cc, ok := d.cc.(capableConn); !ok || cc.ConnState().Transport != "p2p-circuit" {
				s.mismatch("conn-state", fmt.Sprintf("dial %d: returned connection %T", i, d.cc), "capableConn/p2p-circuit", fmt.Sprintf("%T", d.cc))
			}
		}
	} else {
		if d.st != "free" || d.res == nil || d.res.err == nil {
			s.mismatch("dial-result", fmt.Sprintf("dial %d: the upgrade failed, Dial is %q", i, d.st), "error", d.st)
		}
		delete(s.dials, i)
	}
}

func (s *vfC11clSys) opCloseDialled(op vfh.Op) {
	i := op.I("i")
	d := s.dials[i]
	if d == nil || d.cc == nil {
		s.mismatch("dial-progress", fmt.Sprintf("step cclose(%d): no connection in that slot", i), "open", "none")
		return
	}
	d.closes++
	if d.closes > 1 {
		s.second[d.r] = true
	}
	d.cc.Close()
	s.observe()
	if d.closes == 1 {
		d.st = "shut"
	} else {
		d.st = "free"
		delete(s.dials, i)
	}
	if !d.pipe.ends[0].over() {
		s.mismatch("hop-stream-left-open", fmt.Sprintf("connection %d was closed, its hop stream is still open", i), "released", "open")
	}
}

func (s *vfC11clSys) opCancel(op vfh.Op) {
	i := op.I("i")
	d := s.dials[i]
	if d == nil {
		s.mismatch("dial-progress", fmt.Sprintf("step cancel(%d): no dial in that slot", i), "wait|ns", "none")
		return
	}
	before := s.states()
	d.cancel()
	ended, _, _ := s.observe()
	s.checkEnded(op, ended)
	s.checkNext(op, before)
	for _, e := range ended {
		delete(s.dials, e.slot)
	}
}

func (s *vfC11clSys) opStop(op vfh.Op) {
	j, r, m := op.I("j"), op.S("r"), op.S("m")
	var in *vfC11clInc
	if op.Name() == "stop" {
		s.seq++
		rid := s.v.id(r)
		pipe, err := s.w.openStream(fmt.Sprintf("stop%d", s.seq), rid, s.v.relayConnAddr(r), network.DirInbound, circuitproto.ProtoIDv2Stop)
		if err != nil {
			panic(err)
		}
		in = &vfC11clInc{slot: j, r: r, src: s.v.id([]string{"s1", "s2"}[s.seq%2]), pipe: pipe, hdone: make(chan struct{}), st: "read", wf: op.B("wf")}
		pipe.ends[0].failWrite = in.wf
		s.incs[j] = in
		s.allI = append(s.allI, in)
	} else {
		in = s.incs[j]
		if in == nil || in.sent {
			s.mismatch("stop-progress", fmt.Sprintf("step stopmsg(%d): no handler is waiting for a message in that slot", j), "read", "none")
			return
		}
	}
	if m != "late" {
		b, cw, rst := s.v.stopMsg(m, in.src)
		re := in.pipe.ends[1]
		if len(b) > 0 {
			re.Write(b)
		}
		if cw {
			re.CloseWrite()
		}
		if rst {
			re.Reset()
		}
		in.sent = true
		in.lim = vfC11clLimOf(m)
	}
	if op.Name() == "stop" {
		h := s.stopHandler()
		if h == nil {
			panic("no stop handler registered")
		}
		ce := in.pipe.ends[0]
		go func() {
			h(ce)
			close(in.hdone)
		}()
	}
	_, _, acc := s.observe()
	s.checkStopOutcome(op, in, op.S("out"), acc, op.I("k"))
}

func vfC11clLimOf(m string) string {
	switch m {
	case "ok":
		return "none"
	case "oklim":
		return "lim"
	case "oklim0":
		return "lim0"
	}
	return "-"
}

// checkStopOutcome: K7 for one STOP stream after a step that may have decided it
func (s *vfC11clSys) checkStopOutcome(op vfh.Op, in *vfC11clInc, out string, acc map[int]vfC11clAccRes, k int) {
	what := fmt.Sprintf("step %s: STOP stream %d (%s)", op.Name(), in.slot, op.S("m"))
	switch out {
	case "read", "queued":
		if in.st != out || len(in.answers) > 0 || in.reset {
			s.mismatch("stop-answer", fmt.Sprintf("%s should be %s; it is %s, answers %v, reset %v", what, out, in.st, in.answers, in.reset), out, in.st)
		}
		if len(acc) > 0 {
			s.mismatch("accept-result", fmt.Sprintf("%s: Accept calls %v returned", what, acc), "none", fmt.Sprint(acc))
		}
	case "delivered":
		r, ok := acc[k]
		if in.st != "open" || !ok || r.err != nil {
			var other []int
			for x := range acc {
				other = append(other, x)
			}
			if in.st == "open" && len(other) == 1 {
				s.l2("accept-order", fmt.Sprintf("%s went to Accept caller %d, the model says %d", what, other[0], k), k, other[0])
			} else {
				s.mismatch("stop-not-delivered", fmt.Sprintf("%s should have been returned by Accept caller %d; stream is %s, answers %v, Accept returned %v", what, k, in.st, in.answers, acc), "delivered", in.st)
			}
		}
		if in.st == "open" {
			s.checkConn(what+" accepted", in.conn, in.lim, in.r, in.src, in.pipe)
			if len(in.answers) != 1 || in.answers[0] != "OK" {
				s.mismatch("accepted-without-ok", fmt.Sprintf("%s: accepted, the relay read the answers %v", what, in.answers), "OK", in.answers)
			}
		}
	case "reset":
		if in.st != "free" || len(in.answers) > 0 || !in.pipe.ends[0].over() {
			s.mismatch("stop-answer", fmt.Sprintf("%s: the answer cannot be written, the stream should be reset; it is %s, answers %v", what, in.st, in.answers), "reset", in.st)
		} else if _, nr := in.pipe.ends[0].counts(); nr == 0 {
			s.mismatch("L2:stop-stream-closed-not-reset", fmt.Sprintf("%s: the answer could not be written; the stream was closed, not reset", what), "reset", "closed")
		}
		if len(acc) > 0 {
			s.mismatch("accept-result", fmt.Sprintf("%s: Accept calls %v returned", what, acc), "none", fmt.Sprint(acc))
		}
	default: // a refusal status
		if in.st != "free" || len(in.answers) != 1 || in.answers[0] != out {
			s.mismatch("stop-answer", fmt.Sprintf("%s should be answered %s and closed; it is %s, answers %v, reset %v", what, out, in.st, in.answers, in.reset), out, fmt.Sprint(in.st, in.answers))
		} else if !in.pipe.ends[0].over() {
			s.mismatch("stop-stream-left-open", fmt.Sprintf("%s was answered %s but not closed", what, out), "closed", "open")
		}
		if len(acc) > 0 {
			s.mismatch("accept-result", fmt.Sprintf("%s: Accept calls %v returned", what, acc), "none", fmt.Sprint(acc))
		}
	}
}

func (s *vfC11clSys) opAccept(op vfh.Op) {
	k := op.I("k")
	a := &vfC11clAcc{k: k, done: make(chan vfC11clAccRes, 1)}
	s.accs[k] = a
	l := s.cl.Listener()
	go func() {
		c, err := l.Accept()
		a.done <- vfC11clAccRes{c, err}
	}()
	_, endedI, acc := s.observe()
	out := op.S("out")
	r, returned := acc[k]
	switch out {
	case "blocked":
		if returned {
			s.mismatch("accept-result", fmt.Sprintf("Accept caller %d returned (%v, %v), the model says it blocks", k, r.c, r.err), "blocked", fmt.Sprint(r.err))
		}
	case "closed":
		if !returned || r.c != nil || !errors.Is(r.err, transport.ErrListenerClosed) {
			s.mismatch("accept-after-close", fmt.Sprintf("Accept caller %d on a closed listener: returned %v (%v, %v)", k, returned, r.c, r.err), "ErrListenerClosed", fmt.Sprint(returned, r.err))
		}
	case "delivered":
		in := s.incs[op.I("j")]
		if !returned || r.err != nil || in == nil || in.st != "open" || in.conn == nil || manet.Conn(in.conn) != r.c {
			s.mismatch("stop-not-delivered", fmt.Sprintf("Accept caller %d should return the connection of STOP stream %d; returned %v (%v)", k, op.I("j"), returned, r.err), "delivered", fmt.Sprint(returned, r.err))
		} else {
			s.checkConn(fmt.Sprintf("STOP stream %d accepted by caller %d", in.slot, k), in.conn, in.lim, in.r, in.src, in.pipe)
		}
	}
	exp := vfC11clInts(op.L("resets"))
	var got []int
	for _, in := range endedI {
		got = append(got, in.slot)
		if len(in.answers) > 0 || !in.pipe.ends[0].over() {
			s.mismatch("stop-answer", fmt.Sprintf("STOP stream %d whose answer cannot be written: answers %v, released %v", in.slot, in.answers, in.pipe.ends[0].over()), "reset", fmt.Sprint(in.answers))
		}
	}
	sort.Ints(got)
	if fmt.Sprint(got) != fmt.Sprint(exp) && !(len(got) == 0 && len(exp) == 0) {
		s.mismatch("stop-progress", fmt.Sprintf("Accept caller %d: STOP streams that ended %v, the model says %v", k, got, exp), exp, got)
	}
}

func (s *vfC11clSys) opCloseL(op vfh.Op) {
	var before []int
	for k := range s.accs {
		before = append(before, k)
	}
	sort.Ints(before)
	if err := s.cl.Listener().Close(); err != nil {
		s.mismatch("listener-close", fmt.Sprintf("Listener.Close: %v", err), nil, err.Error())
	}
	s.closed = true
	_, _, acc := s.observe()
	exp := vfC11clInts(op.L("unblocked"))
	var got []int
	for k, r := range acc {
		got = append(got, k)
		if r.c != nil || !errors.Is(r.err, transport.ErrListenerClosed) {
			s.mismatch("accept-after-close", fmt.Sprintf("Accept caller %d unblocked by Close returned (%v, %v)", k, r.c, r.err), "ErrListenerClosed", fmt.Sprint(r.err))
		}
	}
	sort.Ints(got)
	if fmt.Sprint(got) != fmt.Sprint(exp) && !(len(got) == 0 && len(exp) == 0) {
		s.mismatch("accept-blocked-after-close", fmt.Sprintf("Listener.Close unblocked the Accept callers %v of %v", got, before), exp, got)
	}
}

func (s *vfC11clSys) opCloseAccepted(op vfh.Op) {
	j := op.I("j")
	in := s.incs[j]
	if in == nil || in.conn == nil {
		s.mismatch("stop-progress", fmt.Sprintf("step iclose(%d): no accepted connection in that slot", j), "open", "none")
		return
	}
	in.closes++
	if in.closes > 1 {
		s.second[in.r] = true
	}
	in.conn.Close()
	s.observe()
	if in.closes == 1 {
		in.st = "shut"
	} else {
		in.st = "free"
		delete(s.incs, j)
	}
	if !in.pipe.ends[0].over() {
		s.mismatch("stop-stream-left-open", fmt.Sprintf("accepted connection %d was closed, its stream is still open", j), "released", "open")
	}
}

func (s *vfC11clSys) opTick(op vfh.Op) {
	before := s.states()
	time.Sleep(vfC11clUnit)
	endedD, endedI, acc := s.observe()
	s.checkEnded(op, endedD)
	s.checkNext(op, before)
	for _, e := range endedD {
		delete(s.dials, e.slot)
	}
	exp := map[int]string{}
	for _, e := range op.L("refused") {
		m := e.(map[string]any)
		exp[int(m["j"].(float64))] = m["out"].(string)
	}
	got := map[int]bool{}
	for _, in := range endedI {
		got[in.slot] = true
		out, ok := exp[in.slot]
		if !ok {
			s.mismatch("stop-refused-early", fmt.Sprintf("tick: STOP stream %d ended (answers %v) before its time-out", in.slot, in.answers), "waiting", fmt.Sprint(in.answers))
			continue
		}
		s.checkStopOutcome(op, in, out, nil, 0)
	}
	for j, out := range exp {
		if !got[j] {
			in := s.incs[j]
			st := "none"
			if in != nil {
				st = in.st
			}
			s.mismatch("stop-not-refused-in-time", fmt.Sprintf("tick: STOP stream %d should be answered %s now (time-out); it is %s", j, out, st), out, st)
		}
	}
	if len(acc) > 0 {
		s.mismatch("accept-result", fmt.Sprintf("tick: Accept calls %v returned", acc), "none", fmt.Sprint(acc))
	}
	for _, in := range endedI {
		if s.incs[in.slot] == in {
			delete(s.incs, in.slot)
		}
	}
}

// finish ends everything that is still in flight and audits the rollback at quiescence
func (s *vfC11clSys) finish() {
	for _, d := range s.allD {
		d.cancel()
	}
	// whatever is still (or again) at a gate fails, every hop stream is reset, until nothing moves any more
	for round := 0; round < 6; round++ {
		moved := false
		for slot, c := range s.w.pendingSlots() {
			s.w.takePending(slot)
			c.reply <- vfC11clNSReply{nil, errVfC11clNS}
			moved = true
		}
		synctest.Wait()
		for _, d := range s.allD {
			if d.pipe != nil {
				d.pipe.ends[1].Reset()
			}
		}
		synctest.Wait()
		for slot := range s.up.pendingSlots() {
			s.up.take(slot).reply <- "upfail"
			moved = true
		}
		synctest.Wait()
		if !moved {
			break
		}
	}
	for _, in := range s.allI {
		in.pipe.ends[1].Reset()
	}
	s.cl.Listener().Close()
	s.closed = true
	// handlers offering a connection give up at the accept time-out
	for i := 0; i < s.cfg.AcceptTO+s.cfg.StreamTO+1; i++ {
		time.Sleep(vfC11clUnit)
	}
	s.observe()
	for _, d := range s.dials {
		if d.cc != nil && d.closes == 0 {
			d.cc.Close()
			d.st = "free"
		} else if d.st == "shut" {
			d.st = "free"
		}
	}
	for _, in := range s.incs {
		if in.conn != nil && in.closes == 0 {
			in.conn.Close()
			in.st = "free"
		} else if in.st == "shut" {
			in.st = "free"
		}
	}
	s.observe()
	for _, d := range s.dials {
		if d.st != "free" {
			s.mismatch("dial-never-ends", fmt.Sprintf("at the end of the walk (contexts cancelled, streams reset, upgrades failed): dial %d is still %q", d.slot, d.st), "ended", d.st)
		}
	}
	for _, in := range s.incs {
		if in.st != "free" {
			s.mismatch("stop-handler-never-ends", fmt.Sprintf("at the end of the walk: the handler of STOP stream %d is still %q", in.slot, in.st), "ended", in.st)
		}
	}
	s.step++
	s.monitors("at the end of the walk (everything cancelled, reset and closed)")
}

func (s *vfC11clSys) shutdown() {
	s.cl.Close()
	s.cm.Close()
	s.w.rm.Close()
	synctest.Wait()
}

// ---------------------------------------------------------------------------------------------
// replay

func vfC11clSetTimeouts(cfg *vfC11clCfg) func() {
	a, st, d, r := AcceptTimeout, StreamTimeout, DialTimeout, DialRelayTimeout
	AcceptTimeout = time.Duration(cfg.AcceptTO)*vfC11clUnit - vfC11clEps
	StreamTimeout = time.Duration(cfg.StreamTO)*vfC11clUnit - vfC11clEps
	DialTimeout = time.Duration(cfg.DialTO)*vfC11clUnit - vfC11clEps
	DialRelayTimeout = time.Duration(cfg.RelayTO)*vfC11clUnit - vfC11clEps
	return func() { AcceptTimeout, StreamTimeout, DialTimeout, DialRelayTimeout = a, st, d, r }
}

// vfC11clBubble runs f in a synctest bubble.  A panic of the harness inside the bubble is counted (the driver turns it
// into a machinery failure unless a violation was recorded before it); goroutines of the code under test that are
// still blocked when the bubble ends (synctest's deadlock panic, raised in the calling goroutine) are a mismatch.
func vfC11clBubble(t *testing.T, out *vfh.Result, what string, f func(t *testing.T)) {
	panicked := false
	defer func() {
		if r := recover(); r != nil {
			msg := fmt.Sprint(r)
			if !strings.Contains(msg, "deadlock") {
				panic(r)
			}
			if panicked {
				return // follows from the harness panic
			}
			out.AddMismatch(vfh.Mismatch{Class: "goroutines-left-blocked", What: fmt.Sprintf("[%s] after everything was cancelled, reset and closed, goroutines started by the client are still blocked: %s", what, msg), Walk: -1, Step: -1})
		}
	}()
	synctest.Test(t, func(t *testing.T) {
		defer func() {
			if r := recover(); r != nil {
				panicked = true
				out.Inc("harness_panics", 1)
				buf := make([]byte, 6000)
				buf = buf[:runtime.Stack(buf, false)]
				out.Set("harness_panic_sample", fmt.Sprintf("[%s] %v\n%s", what, r, buf))
			}
		}()
		f(t)
	})
}

func vfC11clRunWalk(t *testing.T, cfg *vfC11clCfg, w vfh.Walk, out *vfh.Result) {
	vfC11clBubble(t, out, fmt.Sprintf("%s walk %d", cfg.Name, w.Walk), func(t *testing.T) {
		v := vfC11clVariant{n: w.Walk + int(vfh.Seed())}
		s, err := vfC11clNewSys(cfg, v, out)
		if err != nil {
			t.Fatalf("setup: %v", err)
		}
		defer s.shutdown()
		s.walk = w.Walk
		prev := []byte(w.Init)
		for i, st := range w.Steps {
			s.step = i
			s.prefix = append(s.prefix, st.Op)
			s.apply(st.Op)
			s.compare(st.State)
			h := fnv.New64a()
			h.Write([]byte(cfg.Name))
			h.Write(prev)
			ob, _ := json.Marshal(st.Op)
			h.Write(ob)
			h.Write(st.State)
			out.Case(string(h.Sum(nil)))
			prev = st.State
		}
		s.step = len(w.Steps)
		s.finish()
		out.Count(1, len(w.Steps))
	})
}

func TestVerifC11clReplay(t *testing.T) {
	if err := vfC11clInit(); err != nil {
		t.Fatalf("init: %v", err)
	}
	out := vfh.NewResult()
	out.Rule = "distinct = distinct (instance, pre-state, op, post-state) transitions executed"
	files, _ := filepath.Glob(filepath.Join(vfh.In(), "cl_*.jsonl"))
	sort.Strings(files)
	if len(files) == 0 {
		t.Fatalf("no behaviour files in %q", vfh.In())
	}
	only := os.Getenv("VERIF_C11CL_ONLY")
	var jobs []func(t *testing.T)
	var restore func()
	for _, f := range files {
		hdr, walks, err := vfh.LoadWalks(f)
		if err != nil {
			t.Fatalf("%s: %v", f, err)
		}
		cfg, err := vfC11clCfgOf(hdr)
		if err != nil {
			t.Fatalf("%s: %v", f, err)
		}
		if only != "" && cfg.Name != only {
			continue
		}
		if restore == nil {
			restore = vfC11clSetTimeouts(cfg) // the time-outs are package variables: the same in every instance
		} else if AcceptTimeout != time.Duration(cfg.AcceptTO)*vfC11clUnit-vfC11clEps || StreamTimeout != time.Duration(cfg.StreamTO)*vfC11clUnit-vfC11clEps ||
			DialTimeout != time.Duration(cfg.DialTO)*vfC11clUnit-vfC11clEps || DialRelayTimeout != time.Duration(cfg.RelayTO)*vfC11clUnit-vfC11clEps {
			t.Fatalf("%s: instances with different time-outs in one run", f)
		}
		lanes := vfh.EnvInt("VERIF_C11CL_LANES", 6)
		for k := 0; k < lanes; k++ {
			k := k
			jobs = append(jobs, func(t *testing.T) {
				for i := k; i < len(walks); i += lanes {
					vfC11clRunWalk(t, cfg, walks[i], out)
				}
			})
		}
		if len(walks) > 0 {
			ops := []string{}
			for i, st := range walks[0].Steps {
				if i >= 8 {
					break
				}
				ops = append(ops, vfh.Canon(st.Op))
			}
			out.Sample(map[string]any{"instance": cfg.Name, "walk": 0, "first_ops": ops})
		}
	}
	t.Run("lanes", func(t *testing.T) {
		for i, j := range jobs {
			j := j
			t.Run(fmt.Sprint(i), func(t *testing.T) { t.Parallel(); j(t) })
		}
	})
	if restore != nil {
		restore()
	}
	if err := out.Write(); err != nil {
		t.Fatal(err)
	}
}
