//go:build verif

package client

// Fake environment of the C11cl harness (client side of circuit relay v2; the relay is scripted by the
// harness, i.e. by the TLC graph): an in-memory host whose NewStream and whose upgrader are GATES (the
// calling goroutine blocks until the harness decides the outcome), in-memory streams that carry REAL
// resource-manager stream scopes, a real resource manager whose system / peer limits the harness can
// tighten for exactly one call, and a real BasicConnMgr (tags).  Same approach as the relay-side harness
// (harness/p2p/protocol/circuitv2/relay/zz_verif_c11_fake_test.go).

import (
	"context"
	"encoding/binary"
	"errors"
	"fmt"
	"io"
	"math"
	"os"
	"sync"
	"time"

	"github.com/libp2p/go-libp2p/core/connmgr"
	"github.com/libp2p/go-libp2p/core/host"
	"github.com/libp2p/go-libp2p/core/network"
	"github.com/libp2p/go-libp2p/core/peer"
	"github.com/libp2p/go-libp2p/core/peerstore"
	"github.com/libp2p/go-libp2p/core/protocol"
	"github.com/libp2p/go-libp2p/core/transport"
	rcmgr "github.com/libp2p/go-libp2p/p2p/host/resource-manager"
	ma "github.com/multiformats/go-multiaddr"
	manet "github.com/multiformats/go-multiaddr/net"
)

// ---------------------------------------------------------------------------------------------
// in-memory stream: two ends, unbounded buffers (writes never block), half-close, reset, read
// deadlines in (virtual) time.  End 0 is the CLIENT's end (the code under test), end 1 the relay's.

type vfC11clPipe struct {
	mu   sync.Mutex
	cond *sync.Cond
	buf  [2][]byte // buf[i]: bytes end i can read
	wcl  [2]bool   // end i closed its write side
	rcl  [2]bool   // end i closed its read side
	rst  bool
	ends [2]*vfC11clEnd
}

type vfC11clEnd struct {
	p   *vfC11clPipe
	i   int
	rdl time.Time
	wdl time.Time

	conn  *vfC11clConn
	scope network.StreamManagementScope
	proto protocol.ID
	id    string

	released  bool // Close or Reset was called on this end (the stream is over for its owner)
	nClose    int
	nReset    int
	failWrite bool
	lost      []byte // what this end tried to write while failWrite was set
}

var errVfC11clWrite = errors.New("vf: scripted write failure")

func vfC11clNewPipe(id string) *vfC11clPipe {
	p := &vfC11clPipe{}
	p.cond = sync.NewCond(&p.mu)
	p.ends[0] = &vfC11clEnd{p: p, i: 0, id: id + "/c"}
	p.ends[1] = &vfC11clEnd{p: p, i: 1, id: id + "/r"}
	return p
}

func (e *vfC11clEnd) Read(b []byte) (int, error) {
	p := e.p
	p.mu.Lock()
	defer p.mu.Unlock()
	for {
		if p.rst {
			return 0, network.ErrReset
		}
		if e.p.rcl[e.i] {
			return 0, errors.New("vf: read on a stream closed for reading")
		}
		if len(p.buf[e.i]) > 0 {
			n := copy(b, p.buf[e.i])
			p.buf[e.i] = p.buf[e.i][n:]
			return n, nil
		}
		if p.wcl[1-e.i] {
			return 0, io.EOF
		}
		if !e.rdl.IsZero() && !time.Now().Before(e.rdl) {
			return 0, os.ErrDeadlineExceeded
		}
		p.cond.Wait()
	}
}

func (e *vfC11clEnd) Write(b []byte) (int, error) {
	p := e.p
	p.mu.Lock()
	defer p.mu.Unlock()
	if p.rst {
		return 0, network.ErrReset
	}
	if p.wcl[e.i] {
		return 0, errors.New("vf: write on a stream closed for writing")
	}
	if e.failWrite {
		// the bytes are lost on the wire; the writer learns of it once a whole length-delimited message has
		// gone (the delimited writer may send the length first)
		e.lost = append(e.lost, b...)
		if n, k := binary.Uvarint(e.lost); k > 0 && uint64(len(e.lost)-k) >= n {
			return 0, errVfC11clWrite
		}
		return len(b), nil
	}
	if !p.rcl[1-e.i] {
		p.buf[1-e.i] = append(p.buf[1-e.i], b...)
	}
	p.cond.Broadcast()
	return len(b), nil
}

func (e *vfC11clEnd) release() {
	if !e.released {
		e.released = true
		if e.scope != nil {
			e.scope.Done()
		}
	}
}

func (e *vfC11clEnd) Close() error {
	e.p.mu.Lock()
	e.nClose++
	e.p.wcl[e.i] = true
	e.p.rcl[e.i] = true
	e.p.buf[e.i] = nil
	e.release()
	e.p.cond.Broadcast()
	e.p.mu.Unlock()
	return nil
}

func (e *vfC11clEnd) CloseWrite() error {
	e.p.mu.Lock()
	e.p.wcl[e.i] = true
	e.p.cond.Broadcast()
	e.p.mu.Unlock()
	return nil
}

func (e *vfC11clEnd) CloseRead() error {
	e.p.mu.Lock()
	e.p.rcl[e.i] = true
	e.p.buf[e.i] = nil
	e.p.cond.Broadcast()
	e.p.mu.Unlock()
	return nil
}

func (e *vfC11clEnd) Reset() error {
	e.p.mu.Lock()
	e.nReset++
	e.p.rst = true
	e.release()
	e.p.cond.Broadcast()
	e.p.mu.Unlock()
	return nil
}
func (e *vfC11clEnd) ResetWithError(network.StreamErrorCode) error { return e.Reset() }

func (e *vfC11clEnd) SetReadDeadline(t time.Time) error {
	e.p.mu.Lock()
	e.rdl = t
	e.p.mu.Unlock()
	if !t.IsZero() {
		p := e.p
		time.AfterFunc(time.Until(t), func() {
			p.mu.Lock()
			p.cond.Broadcast()
			p.mu.Unlock()
		})
	}
	return nil
}
func (e *vfC11clEnd) SetWriteDeadline(t time.Time) error { // writes never block; the deadline is only remembered
	e.p.mu.Lock()
	e.wdl = t
	e.p.mu.Unlock()
	return nil
}
func (e *vfC11clEnd) SetDeadline(t time.Time) error {
	e.SetWriteDeadline(t)
	return e.SetReadDeadline(t)
}

// deadlines: the read / write deadlines now set on this end
func (e *vfC11clEnd) deadlines() (time.Time, time.Time) {
	e.p.mu.Lock()
	defer e.p.mu.Unlock()
	return e.rdl, e.wdl
}
func (e *vfC11clEnd) ID() string                       { return e.id }
func (e *vfC11clEnd) Protocol() protocol.ID            { return e.proto }
func (e *vfC11clEnd) SetProtocol(p protocol.ID) error  { e.proto = p; return nil }
func (e *vfC11clEnd) Stat() network.Stats              { return network.Stats{} }
func (e *vfC11clEnd) Conn() network.Conn               { return e.conn }
func (e *vfC11clEnd) Scope() network.StreamScope       { return e.scope }
func (e *vfC11clEnd) As(any) bool                      { return false }

var _ network.Stream = (*vfC11clEnd)(nil)

// drain takes whatever this end can read right now, without blocking.
func (e *vfC11clEnd) drain() (data []byte, eof, rst bool) {
	p := e.p
	p.mu.Lock()
	defer p.mu.Unlock()
	data = p.buf[e.i]
	p.buf[e.i] = nil
	return data, p.wcl[1-e.i], p.rst
}

// over: the owner of this end has finished with the stream (Close or Reset).
func (e *vfC11clEnd) over() bool {
	e.p.mu.Lock()
	defer e.p.mu.Unlock()
	return e.released
}

func (e *vfC11clEnd) counts() (nClose, nReset int) {
	e.p.mu.Lock()
	defer e.p.mu.Unlock()
	return e.nClose, e.nReset
}

// ---------------------------------------------------------------------------------------------
// the connection to a relay the streams run on

type vfC11clConn struct {
	network.Conn // nil: whatever the client does not use panics
	pid          peer.ID
	addr         ma.Multiaddr
	local        peer.ID
}

func (c *vfC11clConn) RemotePeer() peer.ID           { return c.pid }
func (c *vfC11clConn) LocalPeer() peer.ID            { return c.local }
func (c *vfC11clConn) RemoteMultiaddr() ma.Multiaddr { return c.addr }
func (c *vfC11clConn) LocalMultiaddr() ma.Multiaddr  { return ma.StringCast("/ip4/198.51.100.7/tcp/4001") }
func (c *vfC11clConn) ID() string                    { return "vfc11cl-" + c.pid.String() }
func (c *vfC11clConn) IsClosed() bool                { return false }
func (c *vfC11clConn) Stat() network.ConnStats {
	return network.ConnStats{Stats: network.Stats{Direction: network.DirOutbound}}
}

// ---------------------------------------------------------------------------------------------
// resource limits the harness can tighten for one call

type vfC11clLimit struct {
	mu      sync.Mutex
	mem     int64
	connOut int
}

func vfC11clNewLimit() *vfC11clLimit { l := &vfC11clLimit{}; l.open(); return l }
func (l *vfC11clLimit) open() {
	l.mu.Lock()
	l.mem, l.connOut = math.MaxInt64, math.MaxInt
	l.mu.Unlock()
}
func (l *vfC11clLimit) set(f func(l *vfC11clLimit)) { l.mu.Lock(); f(l); l.mu.Unlock() }
func (l *vfC11clLimit) GetMemoryLimit() int64       { l.mu.Lock(); defer l.mu.Unlock(); return l.mem }
func (l *vfC11clLimit) GetStreamLimit(network.Direction) int {
	return math.MaxInt
}
func (l *vfC11clLimit) GetStreamTotalLimit() int { return math.MaxInt }
func (l *vfC11clLimit) GetConnLimit(d network.Direction) int {
	l.mu.Lock()
	defer l.mu.Unlock()
	if d == network.DirOutbound {
		return l.connOut
	}
	return math.MaxInt
}
func (l *vfC11clLimit) GetConnTotalLimit() int { return math.MaxInt }
func (l *vfC11clLimit) GetFDLimit() int        { return math.MaxInt }

type vfC11clLimiter struct {
	rcmgr.Limiter
	sys  *vfC11clLimit
	peer *vfC11clLimit
}

func (l *vfC11clLimiter) GetSystemLimits() rcmgr.Limit       { return l.sys }
func (l *vfC11clLimiter) GetPeerLimits(peer.ID) rcmgr.Limit { return l.peer }

// ---------------------------------------------------------------------------------------------
// host: NewStream is a gate

type vfC11clCtxKey struct{}

// vfC11clSlotOf: the harness tags every context it hands to the client with the model slot of the call.
func vfC11clSlotOf(ctx context.Context) int {
	if v, ok := ctx.Value(vfC11clCtxKey{}).(int); ok {
		return v
	}
	return -1
}

type vfC11clNSReply struct {
	s   network.Stream
	err error
}

type vfC11clNSCall struct {
	slot  int
	peer  peer.ID
	proto protocol.ID
	ctx   context.Context
	reply chan vfC11clNSReply
}

type vfC11clAddAddrs struct {
	p     peer.ID
	addrs []ma.Multiaddr
	ttl   time.Duration
}

type vfC11clWorld struct {
	mu       sync.Mutex
	self     peer.ID
	rm       network.ResourceManager
	sys      *vfC11clLimit
	peerLim  *vfC11clLimit
	cm       connmgr.ConnManager
	handlers map[protocol.ID]network.StreamHandler
	removed  map[protocol.ID]int
	pending  []*vfC11clNSCall // NewStream calls blocked at the gate
	nsTotal  int
	addAddrs []vfC11clAddAddrs
	// immediate: NewStream answers at once from this function instead of blocking (Reserve harness)
	immediate func(c *vfC11clNSCall) vfC11clNSReply
}

type vfC11clPS struct {
	peerstore.Peerstore
	w *vfC11clWorld
}

func (ps *vfC11clPS) AddAddrs(p peer.ID, addrs []ma.Multiaddr, ttl time.Duration) {
	ps.w.mu.Lock()
	ps.w.addAddrs = append(ps.w.addAddrs, vfC11clAddAddrs{p, append([]ma.Multiaddr(nil), addrs...), ttl})
	ps.w.mu.Unlock()
}

type vfC11clNet struct {
	network.Network
	w *vfC11clWorld
}

func (n *vfC11clNet) LocalPeer() peer.ID                       { return n.w.self }
func (n *vfC11clNet) ResourceManager() network.ResourceManager { return n.w.rm }

type vfC11clHost struct {
	host.Host
	w   *vfC11clWorld
	net *vfC11clNet
	ps  *vfC11clPS
}

func (h *vfC11clHost) ID() peer.ID                      { return h.w.self }
func (h *vfC11clHost) Peerstore() peerstore.Peerstore   { return h.ps }
func (h *vfC11clHost) Network() network.Network         { return h.net }
func (h *vfC11clHost) ConnManager() connmgr.ConnManager { return h.w.cm }
func (h *vfC11clHost) SetStreamHandler(pid protocol.ID, f network.StreamHandler) {
	h.w.mu.Lock()
	h.w.handlers[pid] = f
	h.w.mu.Unlock()
}
func (h *vfC11clHost) RemoveStreamHandler(pid protocol.ID) {
	// the handler stays callable: a stream accepted just before Close is still handled by it
	h.w.mu.Lock()
	h.w.removed[pid]++
	h.w.mu.Unlock()
}

func (h *vfC11clHost) NewStream(ctx context.Context, p peer.ID, pids ...protocol.ID) (network.Stream, error) {
	w := h.w
	if len(pids) != 1 {
		return nil, fmt.Errorf("vf: NewStream with %d protocols", len(pids))
	}
	c := &vfC11clNSCall{slot: vfC11clSlotOf(ctx), peer: p, proto: pids[0], ctx: ctx, reply: make(chan vfC11clNSReply, 1)}
	w.mu.Lock()
	w.nsTotal++
	im := w.immediate
	if im == nil {
		w.pending = append(w.pending, c)
	}
	w.mu.Unlock()
	if im != nil {
		r := im(c)
		return r.s, r.err
	}
	select {
	case r := <-c.reply:
		return r.s, r.err
	case <-ctx.Done():
		w.mu.Lock()
		for i, x := range w.pending {
			if x == c {
				w.pending = append(w.pending[:i:i], w.pending[i+1:]...)
				break
			}
		}
		w.mu.Unlock()
		return nil, ctx.Err()
	}
}

// takePending removes and returns the blocked NewStream call of a slot (nil: none).
func (w *vfC11clWorld) takePending(slot int) *vfC11clNSCall {
	w.mu.Lock()
	defer w.mu.Unlock()
	for i, x := range w.pending {
		if x.slot == slot {
			w.pending = append(w.pending[:i:i], w.pending[i+1:]...)
			return x
		}
	}
	return nil
}

func (w *vfC11clWorld) pendingSlots() map[int]*vfC11clNSCall {
	w.mu.Lock()
	defer w.mu.Unlock()
	out := map[int]*vfC11clNSCall{}
	for _, x := range w.pending {
		out[x.slot] = x
	}
	return out
}

// openStream makes a stream between the client (end 0) and relay p (end 1) with a real stream scope.
func (w *vfC11clWorld) openStream(id string, p peer.ID, addr ma.Multiaddr, dir network.Direction, pid protocol.ID) (*vfC11clPipe, error) {
	scope, err := w.rm.OpenStream(p, dir)
	if err != nil {
		return nil, err
	}
	if err := scope.SetProtocol(pid); err != nil {
		scope.Done()
		return nil, err
	}
	pipe := vfC11clNewPipe(id)
	ce := pipe.ends[0]
	ce.conn = &vfC11clConn{pid: p, addr: addr, local: w.self}
	ce.scope = scope
	ce.proto = pid
	return pipe, nil
}

// ---------------------------------------------------------------------------------------------
// upgrader: Upgrade is a gate; it behaves like p2p/net/upgrader on the points the client relies on
// (failure: the connection is closed and the scope released; success: the transport connection
// reports the Stat() of the connection it wraps and its Close closes that connection and the scope)

type vfC11clUpCall struct {
	slot   int
	maconn manet.Conn
	dir    network.Direction
	p      peer.ID
	scope  network.ConnManagementScope
	t      transport.Transport
	reply  chan string // "ok" | "upfail" | "upfail2"
}

type vfC11clUpgrader struct {
	transport.Upgrader // nil: the listener side is not used
	mu                 sync.Mutex
	pending            []*vfC11clUpCall
}

var errVfC11clUpgrade = errors.New("vf: scripted upgrade failure")

func (u *vfC11clUpgrader) Upgrade(ctx context.Context, t transport.Transport, maconn manet.Conn, dir network.Direction, p peer.ID, scope network.ConnManagementScope) (transport.CapableConn, error) {
	c := &vfC11clUpCall{slot: vfC11clSlotOf(ctx), maconn: maconn, dir: dir, p: p, scope: scope, t: t, reply: make(chan string, 1)}
	u.mu.Lock()
	u.pending = append(u.pending, c)
	u.mu.Unlock()
	how := <-c.reply
	switch how {
	case "ok":
		cc := &vfC11clCapable{maconn: maconn, scope: scope, t: t, remote: p}
		if cs, ok := maconn.(network.ConnStat); ok {
			cc.stat = cs.Stat()
		}
		return cc, nil
	case "upfail2":
		// what upgrader.upgrade does when the security handshake fails: the security transport closes the
		// connection it was given (noise: session.go, tls: transport.go), then upgrade() closes it again
		maconn.Close()
		maconn.Close()
	default:
		maconn.Close()
	}
	scope.Done()
	return nil, errVfC11clUpgrade
}

func (u *vfC11clUpgrader) take(slot int) *vfC11clUpCall {
	u.mu.Lock()
	defer u.mu.Unlock()
	for i, x := range u.pending {
		if x.slot == slot {
			u.pending = append(u.pending[:i:i], u.pending[i+1:]...)
			return x
		}
	}
	return nil
}

func (u *vfC11clUpgrader) pendingSlots() map[int]*vfC11clUpCall {
	u.mu.Lock()
	defer u.mu.Unlock()
	out := map[int]*vfC11clUpCall{}
	for _, x := range u.pending {
		out[x.slot] = x
	}
	return out
}

type vfC11clCapable struct {
	transport.CapableConn // nil: unused methods panic
	maconn                manet.Conn
	scope                 network.ConnManagementScope
	t                     transport.Transport
	stat                  network.ConnStats
	remote                peer.ID
	mu                    sync.Mutex
	nClose                int
}

func (c *vfC11clCapable) Stat() network.ConnStats       { return c.stat }
func (c *vfC11clCapable) Transport() transport.Transport { return c.t }
func (c *vfC11clCapable) RemotePeer() peer.ID           { return c.remote }
func (c *vfC11clCapable) RemoteMultiaddr() ma.Multiaddr { return c.maconn.RemoteMultiaddr() }
func (c *vfC11clCapable) LocalMultiaddr() ma.Multiaddr  { return c.maconn.LocalMultiaddr() }
func (c *vfC11clCapable) Scope() network.ConnScope      { return c.scope }
func (c *vfC11clCapable) IsClosed() bool {
	c.mu.Lock()
	defer c.mu.Unlock()
	return c.nClose > 0
}

// Close like transportConn.Close: the muxed connection closes the connection under it, then the scope is
// released.  (A yamux session closes its connection once; the harness calls Close again to model a second
// Close of the relayed net.Conn itself.)
func (c *vfC11clCapable) Close() error {
	c.mu.Lock()
	c.nClose++
	c.mu.Unlock()
	err := c.maconn.Close()
	c.scope.Done()
	return err
}

var _ network.ConnStat = (*vfC11clCapable)(nil)
