//go:build verif

package client

// C11cl, part 2: replay of the TLC graph of spec/C11cl_Reserve.tla on the real client.Reserve.
//
// The relay is a Dolev-Yao attacker: every abstract reply of the model (framing, message type, status,
// reservation fields, voucher term, limit) is turned into bytes with REAL keys - the voucher terms are
// envelopes built field by field (public key of the named principal, payload type, payload, a signature made
// with the private key the model says was used, over the domain the model says was used), the honest relay's
// envelopes are produced the way the relay produces them (record.Seal) - and written on the in-memory hop
// stream of the fake host.  Key types rotate over Ed25519 / Secp256k1 / ECDSA / RSA per role and walk.
// The verdict of Reserve is compared with the model's (L1: accepted or not; the relay's status passed through;
// fields of the Reservation) and with the harness's own oracle, computed from how the bytes were made.

import (
	"bytes"
	"context"
	"encoding/binary"
	"errors"
	"fmt"
	"hash/fnv"
	"math/rand"
	"path/filepath"
	"sort"
	"testing"
	"testing/synctest"
	"time"

	"github.com/libp2p/go-libp2p/core/crypto"
	"github.com/libp2p/go-libp2p/core/network"
	"github.com/libp2p/go-libp2p/core/peer"
	"github.com/libp2p/go-libp2p/core/peerstore"
	"github.com/libp2p/go-libp2p/core/protocol"
	"github.com/libp2p/go-libp2p/core/record"
	recpb "github.com/libp2p/go-libp2p/core/record/pb"
	"github.com/libp2p/go-libp2p/internal/vfh"
	rcmgr "github.com/libp2p/go-libp2p/p2p/host/resource-manager"
	pbv2 "github.com/libp2p/go-libp2p/p2p/protocol/circuitv2/pb"
	circuitproto "github.com/libp2p/go-libp2p/p2p/protocol/circuitv2/proto"
	ma "github.com/multiformats/go-multiaddr"
	"google.golang.org/protobuf/proto"
)

// model principal -> identity name in vfC11clG
var vfC11clPrincipal = map[string]string{"C": "self", "D": "d1", "H": "h", "R": "r1", "A": "a"}

// the key types of the principals vary independently over the walks (every pair of types for H and R within 16 walks)
func (v vfC11clVariant) ident(principal string) vfC11clIdent {
	name := vfC11clPrincipal[principal]
	var k int
	switch principal {
	case "H":
		k = v.n
	case "R":
		k = v.n / 4
	case "A":
		k = v.n/4 + 1 + v.n/16
	case "C":
		k = v.n/2 + 1
	default:
		k = v.n + 2
	}
	return vfC11clG.ids[k%len(vfC11clKeyTypes)][name]
}

// the bytes an envelope signature covers (RFC 0002): each of domain, payload type, payload prefixed with its
// length as an unsigned varint.  Written independently of core/record.
func vfC11clUnsigned(domain string, typ, payload []byte) []byte {
	var b []byte
	for _, f := range [][]byte{[]byte(domain), typ, payload} {
		b = binary.AppendUvarint(b, uint64(len(f)))
		b = append(b, f...)
	}
	return b
}

func vfC11clEnvelopeBytes(pub crypto.PubKey, typ, payload, sig []byte) []byte {
	pk, err := crypto.PublicKeyToProto(pub)
	if err != nil {
		panic(err)
	}
	b, err := proto.Marshal(&recpb.Envelope{PublicKey: pk, PayloadType: typ, Payload: payload, Signature: sig})
	if err != nil {
		panic(err)
	}
	return b
}

var vfC11clBadIDs = [][]byte{{}, {0x01, 0x02, 0x03}, []byte("neither a multihash nor a key....")}

type vfC11clRsvSys struct {
	cfgTO int
	v     vfC11clVariant
	w     *vfC11clWorld
	h     *vfC11clHost
	rnd   *rand.Rand
	out   *vfh.Result
	walk  int
	step  int
	div   bool
	prefix []vfh.Op
	vexp  time.Time // Expiration inside the vouchers of this walk

	// the call in flight
	done   chan vfC11clRsvRes
	pipe   *vfC11clPipe
	nsHow  string
	ai     peer.AddrInfo
	nsSeen int
}

type vfC11clRsvRes struct {
	r   *Reservation
	err error
}

func (s *vfC11clRsvSys) mismatch(class, what string, exp, got any) {
	s.out.AddMismatch(vfh.Mismatch{Class: class, What: fmt.Sprintf("[reserve v%d keys H=%s R=%s A=%s C=%s] %s", s.v.n, s.keyName("H"), s.keyName("R"), s.keyName("A"), s.keyName("C"), what),
		Walk: s.walk, Step: s.step, Expected: exp, Got: got, Prefix: append([]vfh.Op(nil), s.prefix...)})
}

func (s *vfC11clRsvSys) l2(class, what string, exp, got any) {
	if s.div {
		return
	}
	s.div = true
	s.mismatch("L2:"+class, what, exp, got)
}

func (s *vfC11clRsvSys) keyName(p string) string {
	return s.v.ident(p).key.Type().String()
}

// honest relay H's envelopes, produced as relay.go produces a voucher
func (s *vfC11clRsvSys) honestVoucher(peerP string) []byte {
	h := s.v.ident("H")
	env, err := record.Seal(&circuitproto.ReservationVoucher{Relay: h.id, Peer: s.v.ident(peerP).id, Expiration: s.vexp}, h.key)
	if err != nil {
		panic(err)
	}
	b, err := env.Marshal()
	if err != nil {
		panic(err)
	}
	return b
}

func (s *vfC11clRsvSys) honestPeerRecord() []byte {
	h := s.v.ident("H")
	rec := peer.NewPeerRecord()
	rec.PeerID = h.id
	rec.Addrs = []ma.Multiaddr{ma.StringCast("/ip4/203.0.113.50/tcp/4001")}
	env, err := record.Seal(rec, h.key)
	if err != nil {
		panic(err)
	}
	b, err := env.Marshal()
	if err != nil {
		panic(err)
	}
	return b
}

// decodeEnv: the envelope's four fields, by plain protobuf decoding
func vfC11clDecodeEnv(b []byte) (string, bool) {
	var e recpb.Envelope
	if err := proto.Unmarshal(b, &e); err != nil {
		return "", false
	}
	kb, _ := proto.Marshal(e.PublicKey)
	return fmt.Sprintf("%x|%x|%x|%x", kb, e.PayloadType, e.Payload, e.Signature), true
}

// voucherBytes turns the model's voucher term into bytes.  legit: the harness's own oracle (V2), from the way the
// bytes were made: intact, signed by the private key of the embedded public key over (rsvp domain, voucher codec,
// payload), payload.Relay = ID of that key, payload.Peer = the client.
func (s *vfC11clRsvSys) voucherBytes(e map[string]any) (b []byte, present, legit bool, signer peer.ID, why string) {
	k, dom, typ, rel, pr, sig, mut := e["k"].(string), e["dom"].(string), e["typ"].(string), e["rel"].(string), e["peer"].(string), e["sig"].(string), e["mut"].(string)
	switch k {
	case "absent":
		return nil, false, true, "", "absent"
	case "empty":
		return []byte{}, true, false, "", "empty"
	case "garbage":
		g := [][]byte{{0xff}, {0x0a, 0x02, 0x08}, bytes.Repeat([]byte{0x42}, 70), {0x2a, 0x01, 0x00}}
		return g[s.v.n%len(g)], true, false, "", "garbage"
	}
	who := s.v.ident(k)
	signer = who.id
	// replay of an envelope the honest relay made itself
	if k == "H" && sig == "good" {
		if typ == "peerrec" {
			b = s.honestPeerRecord()
		} else {
			b = s.honestVoucher(pr)
		}
		legit = typ == "voucher" && dom == "rsvp" && pr == "C"
		why = "replay"
	} else {
		var ptype, payload []byte
		switch typ {
		case "voucher":
			ptype = circuitproto.RecordCodec
			idOf := func(x string) []byte {
				if x == "bad" {
					return vfC11clBadIDs[s.v.n%len(vfC11clBadIDs)]
				}
				return []byte(s.v.ident(x).id)
			}
			exp := uint64(s.vexp.Unix())
			var err error
			payload, err = proto.Marshal(&pbv2.ReservationVoucher{Relay: idOf(rel), Peer: idOf(pr), Expiration: &exp})
			if err != nil {
				panic(err)
			}
		case "peerrec":
			ptype = peer.PeerRecordEnvelopePayloadType
			rec := peer.NewPeerRecord()
			rec.PeerID = who.id
			rec.Addrs = []ma.Multiaddr{ma.StringCast("/ip4/203.0.113.60/tcp/4001")}
			payload, _ = rec.MarshalRecord()
		default: // unreg
			ptype = [][]byte{{0x09, 0x09}, {0x03}, {0x03, 0x02, 0x00}}[s.v.n%3]
			exp := uint64(s.vexp.Unix())
			payload, _ = proto.Marshal(&pbv2.ReservationVoucher{Relay: []byte(who.id), Peer: []byte(s.v.ident("C").id), Expiration: &exp})
		}
		domain := circuitproto.RecordDomain
		switch dom {
		case "peer":
			domain = peer.PeerRecordEnvelopeDomain
		case "other":
			domain = []string{"libp2p-relay-rsvp ", "libp2p-relay-rsv", "", "LIBP2P-RELAY-RSVP"}[s.v.n%4]
		}
		unsigned := vfC11clUnsigned(domain, ptype, payload)
		var sg []byte
		if sig == "good" {
			var err error
			if sg, err = who.key.Sign(unsigned); err != nil {
				panic(err)
			}
		} else {
			// the attacker has no private key for k: another key's signature over the right bytes, the honest relay's
			// signature taken from another of its envelopes, random bytes of the right length, nothing
			switch s.v.n % 4 {
			case 0:
				sg, _ = s.v.ident("A").key.Sign(unsigned)
			case 1:
				var he recpb.Envelope
				proto.Unmarshal(s.honestVoucher("D"), &he)
				sg = he.Signature
			case 2:
				good, _ := who.key.Sign(unsigned) // only its length is used
				sg = make([]byte, len(good))
				s.rnd.Read(sg)
			default:
				sg = nil
			}
		}
		b = vfC11clEnvelopeBytes(who.key.GetPublic(), ptype, payload, sg)
		legit = sig == "good" && dom == "rsvp" && typ == "voucher" && rel == k && pr == "C"
		why = fmt.Sprintf("k=%s dom=%s typ=%s rel=%s peer=%s sig=%s", k, dom, typ, rel, pr, sig)
	}
	if mut != "none" {
		orig, _ := vfC11clDecodeEnv(b)
		for try := 0; ; try++ {
			c := append([]byte(nil), b...)
			if mut == "flip" {
				pos := s.rnd.Intn(len(c) * 8)
				c[pos/8] ^= 1 << (pos % 8)
			} else {
				c = c[:1+s.rnd.Intn(len(c)-1)]
			}
			if d, ok := vfC11clDecodeEnv(c); !ok || d != orig || try > 20 {
				b = c
				break
			}
		}
		legit = false
		why += " mut=" + mut
	}
	return b, true, legit, signer, why
}

var vfC11clGoodAddrs = []string{"/ip4/203.0.113.9/tcp/4001", "/ip6/2001:db8::9/udp/4001/quic-v1", "/dns4/relay.example.org/tcp/443/tls/ws"}
var vfC11clBadAddrs = [][]byte{{0xff, 0x00}, {}, {0x04, 0x01, 0x02}, {0x06, 0x1f}}

type vfC11clRsvWant struct {
	expire  uint64
	addrs   []ma.Multiaddr
	lim     vfC11clLim
	hasLim  bool
	voucher bool
	signer  peer.ID
	legit   bool // the harness's oracle: every condition of V1/V2 holds for the bytes sent
	why     string
	relaySt pbv2.Status
}

// replyBytes builds the reply of the model
func (s *vfC11clRsvSys) replyBytes(rp map[string]any) (b []byte, closeWrite, reset bool, want vfC11clRsvWant) {
	fr := rp["fr"].(string)
	want.legit = true
	m := &pbv2.HopMessage{}
	switch rp["typ"].(string) {
	case "status":
		m.Type = pbv2.HopMessage_STATUS.Enum()
	default:
		want.legit, want.why = false, "not a STATUS message"
		switch s.v.n % 3 {
		case 0:
			m.Type = pbv2.HopMessage_RESERVE.Enum()
		case 1:
			m.Type = pbv2.HopMessage_CONNECT.Enum()
		}
	}
	switch rp["status"].(string) {
	case "ok":
		m.Status = pbv2.Status_OK.Enum()
	case "refused":
		want.relaySt = vfC11clBadStatus[s.v.n%len(vfC11clBadStatus)]
		if want.relaySt == pbv2.Status_UNUSED {
			want.relaySt = pbv2.Status_RESERVATION_REFUSED
		}
		m.Status = want.relaySt.Enum()
		want.legit, want.why = false, "refused"
	default:
		want.legit, want.why = false, "no status"
	}
	if rp["rsvp"].(bool) {
		now := time.Now()
		aligned := now.Nanosecond() == 0
		var e uint64
		switch rp["exp"].(string) {
		case "past":
			e = uint64(now.Unix() - []int64{3600, 2, 86400 * 365}[s.v.n%3])
		case "floor":
			e = uint64(now.Unix())
			if aligned { // the clock shows a whole second: expire = now is not in the past, now - 1 is the latest past one
				e--
			}
		case "ceil":
			e = uint64(now.Unix()) + 1
			if aligned {
				e--
			}
		case "future":
			e = uint64(now.Unix() + []int64{3600, 60, 1 << 31, 1 << 40}[s.v.n%4])
		case "wrap":
			e = 1<<63 + uint64(now.Unix()) + []uint64{0, 3600, 1<<63 - uint64(now.Unix()) - 1}[s.v.n%3]
		}
		r := &pbv2.Reservation{}
		if rp["exp"].(string) != "zero" {
			r.Expire = &e
		}
		want.expire = e
		switch rp["exp"].(string) {
		case "ceil", "future":
		default:
			want.legit, want.why = false, "expire "+rp["exp"].(string)
		}
		ga := func(i int) ma.Multiaddr { return ma.StringCast(vfC11clGoodAddrs[(s.v.n+i)%len(vfC11clGoodAddrs)]) }
		ba := func(i int) []byte { return vfC11clBadAddrs[(s.v.n+i)%len(vfC11clBadAddrs)] }
		switch rp["addrs"].(string) {
		case "good":
			r.Addrs = [][]byte{ga(0).Bytes(), ga(1).Bytes()}
			want.addrs = []ma.Multiaddr{ga(0), ga(1)}
		case "mixed":
			r.Addrs = [][]byte{ga(0).Bytes(), ba(0), ga(1).Bytes(), ba(1)}
			want.addrs = []ma.Multiaddr{ga(0), ga(1)}
		case "allbad":
			r.Addrs = [][]byte{ba(0), ba(1)}
		}
		vb, present, legit, signer, why := s.voucherBytes(rp["v"].(map[string]any))
		if present {
			r.Voucher = vb
			want.voucher, want.signer = true, signer
			if !legit {
				want.legit, want.why = false, "voucher: "+why
			}
		}
		m.Reservation = r
	} else {
		want.legit, want.why = false, "no reservation"
	}
	switch rp["lim"].(string) {
	case "lim":
		l := s.v.limit()
		m.Limit = &pbv2.Limit{Duration: &l.dur, Data: &l.data}
		want.lim, want.hasLim = l, true
	case "lim0":
		m.Limit = &pbv2.Limit{}
		want.hasLim = true
	}
	if fr != "msg" {
		want.legit, want.why = false, "framing "+fr
		if fr == "reset" {
			return nil, false, true, want
		}
		b, cw := vfC11clBadBytes(fr, s.v.n)
		return b, cw, false, want
	}
	return vfC11clMsg(m), false, false, want
}

func (s *vfC11clRsvSys) start(op vfh.Op) {
	how := op.S("how")
	s.nsHow = how
	s.pipe = nil
	s.done = make(chan vfC11clRsvRes, 1)
	r := s.v.ident("R")
	s.ai = peer.AddrInfo{ID: r.id}
	if s.v.n%2 == 0 {
		s.ai.Addrs = []ma.Multiaddr{ma.StringCast("/ip4/203.0.113.11/tcp/4001")}
	}
	s.w.mu.Lock()
	s.w.addAddrs = nil
	before := s.w.nsTotal
	s.w.mu.Unlock()
	ai := s.ai
	go func() {
		rsvp, err := Reserve(context.Background(), s.h, ai)
		s.done <- vfC11clRsvRes{rsvp, err}
	}()
	synctest.Wait()
	s.w.mu.Lock()
	calls := s.w.nsTotal - before
	aa := append([]vfC11clAddAddrs(nil), s.w.addAddrs...)
	s.w.mu.Unlock()
	if calls != 1 {
		s.mismatch("reserve-streams", fmt.Sprintf("Reserve opened %d streams", calls), 1, calls)
	}
	if len(ai.Addrs) > 0 && (len(aa) != 1 || aa[0].p != ai.ID || len(aa[0].addrs) != 1 || aa[0].ttl != peerstore.TempAddrTTL) {
		s.l2("reserve-addrs", fmt.Sprintf("the relay's addresses were handed to the peerstore as %v", aa), "TempAddrTTL", fmt.Sprint(aa))
	}
	if how == "ok" {
		select {
		case r := <-s.done:
			s.mismatch("reserve-returned-early", fmt.Sprintf("Reserve returned (%v, %v) before any reply", r.r, r.err), "waiting", fmt.Sprint(r.err))
			s.done = nil
			return
		default:
		}
		data, _, _ := s.pipe.ends[1].drain()
		n, k := binary.Uvarint(data)
		var m pbv2.HopMessage
		if k <= 0 || uint64(len(data)-k) != n || proto.Unmarshal(data[k:], &m) != nil || m.GetType() != pbv2.HopMessage_RESERVE || m.Peer != nil {
			s.mismatch("reserve-request", fmt.Sprintf("the request on the hop stream is not one delimited RESERVE message (%x)", data), "RESERVE", fmt.Sprintf("%x", data))
		}
		return
	}
	s.expectFailure(op, "start("+how+")", how == "wfail")
}

// expectFailure: the call must have returned a ReservationError with CONNECTION_FAILED (V4), stream released (V5)
func (s *vfC11clRsvSys) expectFailure(op vfh.Op, what string, hadStream bool) {
	select {
	case r := <-s.done:
		s.done = nil
		var re ReservationError
		if r.r != nil || r.err == nil {
			s.mismatch("reservation-without-reply", fmt.Sprintf("%s: Reserve returned a reservation %+v", what, r.r), "error", "reservation")
		} else if !errors.As(r.err, &re) || re.Status != pbv2.Status_CONNECTION_FAILED {
			s.mismatch("reserve-status-io-failure", fmt.Sprintf("%s: error %v, the documented status of an I/O failure is CONNECTION_FAILED", what, r.err), "CONNECTION_FAILED", fmt.Sprint(r.err))
		}
	default:
		s.mismatch("reserve-never-ends", fmt.Sprintf("%s: Reserve has not returned", what), "returned", "blocked")
	}
	s.streamOver(what, hadStream, true)
}

func (s *vfC11clRsvSys) streamOver(what string, hadStream, reset bool) {
	if hadStream && s.pipe != nil {
		_, nr := s.pipe.ends[0].counts()
		if !s.pipe.ends[0].over() {
			s.mismatch("reserve-stream-left-open", what+": Reserve returned and left its stream open", "released", "open")
		} else if reset && nr == 0 {
			s.mismatch("L2:reserve-stream-closed-not-reset", what+": after an I/O error the stream was closed, not reset", "reset", "closed")
		}
	}
	var st network.ScopeStat
	s.w.rm.ViewSystem(func(sc network.ResourceScope) error { st = sc.Stat(); return nil })
	if st.NumStreamsOutbound != 0 || st.Memory != 0 {
		s.mismatch("reserve-stream-left-open", fmt.Sprintf("%s: the resource manager still holds %d streams, %d bytes", what, st.NumStreamsOutbound, st.Memory), 0, st.NumStreamsOutbound)
	}
}

func (s *vfC11clRsvSys) tick(op vfh.Op) {
	time.Sleep(vfC11clUnit)
	synctest.Wait()
	res := op.M("res")
	if res["status"].(string) == "CONNECTION_FAILED" {
		s.expectFailure(op, "no reply within ReserveTimeout", true)
		return
	}
	select {
	case r := <-s.done:
		s.mismatch("reserve-returned-early", fmt.Sprintf("Reserve returned (%v, %v) before ReserveTimeout without a reply", r.r, r.err), "waiting", fmt.Sprint(r.err))
		s.done = nil
	default:
	}
}

func (s *vfC11clRsvSys) reply(op vfh.Op) {
	rp := op.M("rp")
	res := op.M("res")
	b, cw, rst, want := s.replyBytes(rp)
	if s.done == nil || s.pipe == nil {
		return // an earlier mismatch ended the call
	}
	re := s.pipe.ends[1]
	if len(b) > 0 {
		re.Write(b)
	}
	if cw {
		re.CloseWrite()
	}
	if rst {
		re.Reset()
	}
	synctest.Wait()
	what := fmt.Sprintf("reply %s", vfh.Canon(rp))
	var r vfC11clRsvRes
	select {
	case r = <-s.done:
		s.done = nil
	default:
		s.mismatch("reserve-never-ends", what+": Reserve has not returned", "returned", "blocked")
		s.pipe.ends[1].Reset()
		synctest.Wait()
		<-s.done
		s.done = nil
		return
	}
	ok := r.err == nil && r.r != nil
	expOK := res["ok"].(bool)
	if expOK != want.legit {
		panic(fmt.Sprintf("the harness oracle (%v: %s) and the model (%v) disagree on %s", want.legit, want.why, expOK, what))
	}
	if r.err == nil && r.r == nil {
		s.mismatch("reserve-nil-nil", what+": Reserve returned (nil, nil)", "one of them", "neither")
	}
	switch {
	case ok && !want.legit:
		// V1 / V2 violated
		class := "reservation-accepted-" + rp["fr"].(string)
		v := rp["v"].(map[string]any)
		switch {
		case rp["fr"].(string) != "msg":
		case rp["typ"].(string) != "status", rp["status"].(string) != "ok", !rp["rsvp"].(bool):
			class = "reservation-accepted-without-ok"
		case rp["exp"].(string) != "ceil" && rp["exp"].(string) != "future":
			class = "reservation-accepted-expired"
		default:
			class = "voucher-accepted-" + res["why"].(string)
			if v["k"] == "H" && v["sig"] == "good" {
				class = "voucher-accepted-replayed-" + res["why"].(string)
			}
		}
		s.mismatch(class, fmt.Sprintf("%s: Reserve returned a Reservation although: %s", what, want.why), "error", "reservation")
	case !ok && want.legit:
		s.mismatch("valid-reservation-refused", fmt.Sprintf("%s: Reserve refused a reply that satisfies every condition: %v", what, r.err), "reservation", fmt.Sprint(r.err))
	case ok:
		g := r.r
		if !g.Expiration.Equal(time.Unix(int64(want.expire), 0)) || g.Expiration.Before(time.Now()) {
			s.mismatch("reservation-expiration", fmt.Sprintf("%s: Expiration %v, the reply said %d (now %v)", what, g.Expiration, want.expire, time.Now()), want.expire, g.Expiration.Unix())
		}
		if len(g.Addrs) != len(want.addrs) {
			s.mismatch("reservation-addrs", fmt.Sprintf("%s: Addrs %v", what, g.Addrs), fmt.Sprint(want.addrs), fmt.Sprint(g.Addrs))
		} else {
			for i := range g.Addrs {
				if !g.Addrs[i].Equal(want.addrs[i]) {
					s.mismatch("reservation-addrs", fmt.Sprintf("%s: Addrs %v", what, g.Addrs), fmt.Sprint(want.addrs), fmt.Sprint(g.Addrs))
					break
				}
			}
		}
		if g.LimitDuration != time.Duration(want.lim.dur)*time.Second || g.LimitData != want.lim.data {
			s.mismatch("reservation-limit", fmt.Sprintf("%s: limit %v / %d", what, g.LimitDuration, g.LimitData), fmt.Sprint(want.lim), fmt.Sprint(g.LimitDuration, g.LimitData))
		}
		if want.voucher != (g.Voucher != nil) {
			s.mismatch("reservation-voucher", fmt.Sprintf("%s: voucher present in the reply: %v, in the Reservation: %v", what, want.voucher, g.Voucher != nil), want.voucher, g.Voucher != nil)
		} else if g.Voucher != nil && (g.Voucher.Relay != want.signer || g.Voucher.Peer != s.v.ident("C").id || !g.Voucher.Expiration.Equal(time.Unix(s.vexp.Unix(), 0))) {
			s.mismatch("reservation-voucher", fmt.Sprintf("%s: voucher %+v", what, g.Voucher), fmt.Sprint(want.signer), fmt.Sprint(g.Voucher.Relay, g.Voucher.Peer))
		}
	default:
		var re ReservationError
		if !errors.As(r.err, &re) {
			s.mismatch("reserve-error-type", fmt.Sprintf("%s: error %T %v is not a ReservationError", what, r.err, r.err), "ReservationError", fmt.Sprintf("%T", r.err))
			break
		}
		switch st := res["status"].(string); st {
		case "RELAY":
			if re.Status != want.relaySt {
				s.mismatch("reserve-status-not-the-relays", fmt.Sprintf("%s: the relay refused with %v, the error says %v", what, want.relaySt, re.Status), want.relaySt.String(), re.Status.String())
			}
		case "CONNECTION_FAILED":
			if re.Status != pbv2.Status_CONNECTION_FAILED {
				s.mismatch("reserve-status-io-failure", fmt.Sprintf("%s: error %v, the documented status of an I/O failure is CONNECTION_FAILED", what, r.err), st, re.Status.String())
			}
		default:
			if re.Status.String() != st {
				s.l2("reserve-status", fmt.Sprintf("%s: status %v, the model says %s", what, re.Status, st), st, re.Status.String())
			}
		}
	}
	s.streamOver(what, true, res["reset"].(bool))
}

func vfC11clRunReserveWalk(t *testing.T, to int, w vfh.Walk, out *vfh.Result) {
	vfC11clBubble(t, out, fmt.Sprintf("reserve walk %d", w.Walk), func(t *testing.T) {
		v := vfC11clVariant{n: w.Walk + int(vfh.Seed())}
		world := &vfC11clWorld{self: v.ident("C").id, handlers: map[protocol.ID]network.StreamHandler{}, removed: map[protocol.ID]int{}}
		world.sys, world.peerLim = vfC11clNewLimit(), vfC11clNewLimit()
		rm, err := rcmgr.NewResourceManager(&vfC11clLimiter{Limiter: rcmgr.NewFixedLimiter(rcmgr.InfiniteLimits), sys: world.sys, peer: world.peerLim},
			rcmgr.WithMetricsDisabled())
		if err != nil {
			t.Fatal(err)
		}
		world.rm = rm
		defer rm.Close()
		s := &vfC11clRsvSys{cfgTO: to, v: v, w: world, out: out, walk: w.Walk, rnd: rand.New(rand.NewSource(vfh.Seed()*7919 + int64(w.Walk)))}
		s.h = &vfC11clHost{w: world}
		s.h.net = &vfC11clNet{w: world}
		s.h.ps = &vfC11clPS{w: world}
		seq := 0
		world.immediate = func(c *vfC11clNSCall) vfC11clNSReply {
			if s.nsHow == "nsfail" {
				return vfC11clNSReply{nil, errVfC11clNS}
			}
			if c.peer != s.ai.ID || c.proto != circuitproto.ProtoIDv2Hop {
				s.mismatch("reserve-stream-target", fmt.Sprintf("Reserve opens a stream to %s %s", c.peer, c.proto), s.ai.ID.String(), c.peer.String())
			}
			seq++
			pipe, err := world.openStream(fmt.Sprintf("rsv%d", seq), c.peer, ma.StringCast("/ip4/203.0.113.11/tcp/4001"), network.DirOutbound, c.proto)
			if err != nil {
				panic(err)
			}
			pipe.ends[0].failWrite = s.nsHow == "wfail"
			s.pipe = pipe
			return vfC11clNSReply{pipe.ends[0], nil}
		}
		// half of the walks run with a clock that shows whole seconds, the others 0.3 s into a second
		if v.n%2 == 1 {
			time.Sleep(300 * time.Millisecond)
		}
		s.vexp = time.Now().Add([]time.Duration{time.Hour, -time.Hour, 0}[v.n%3]) // the voucher's own Expiration is not looked at
		prev := []byte(w.Init)
		for i, st := range w.Steps {
			s.step = i
			s.prefix = append(s.prefix, st.Op)
			if len(s.prefix) > 6 {
				s.prefix = s.prefix[len(s.prefix)-6:]
			}
			switch st.Op.Name() {
			case "issue":
			case "start":
				s.start(st.Op)
			case "tick":
				s.tick(st.Op)
			case "reply":
				s.reply(st.Op)
			default:
				panic("unknown op " + st.Op.Name())
			}
			h := fnv.New64a()
			h.Write(prev)
			h.Write([]byte(vfh.Canon(st.Op)))
			h.Write(st.State)
			out.Case(string(h.Sum(nil)))
			prev = st.State
		}
		if s.done != nil && s.pipe != nil {
			s.pipe.ends[1].Reset()
			synctest.Wait()
			<-s.done
		}
		out.Count(1, len(w.Steps))
	})
}

func TestVerifC11clReserve(t *testing.T) {
	if err := vfC11clInit(); err != nil {
		t.Fatalf("init: %v", err)
	}
	out := vfh.NewResult()
	out.Rule = "distinct = distinct (pre-state, op, post-state) transitions executed"
	files, _ := filepath.Glob(filepath.Join(vfh.In(), "rs_*.jsonl"))
	sort.Strings(files)
	if len(files) == 0 {
		t.Fatalf("no behaviour files in %q", vfh.In())
	}
	old := ReserveTimeout
	defer func() { ReserveTimeout = old }()
	var jobs []func(t *testing.T)
	for _, f := range files {
		hdr, walks, err := vfh.LoadWalks(f)
		if err != nil {
			t.Fatalf("%s: %v", f, err)
		}
		to, _ := hdr["to"].(float64)
		if to < 1 {
			t.Fatalf("%s: no time-out in the header", f)
		}
		ReserveTimeout = time.Duration(to)*vfC11clUnit - vfC11clEps
		lanes := vfh.EnvInt("VERIF_C11CL_LANES", 6)
		for k := 0; k < lanes; k++ {
			k := k
			jobs = append(jobs, func(t *testing.T) {
				for i := k; i < len(walks); i += lanes {
					vfC11clRunReserveWalk(t, int(to), walks[i], out)
				}
			})
		}
	}
	t.Run("lanes", func(t *testing.T) {
		for i, j := range jobs {
			j := j
			t.Run(fmt.Sprint(i), func(t *testing.T) { t.Parallel(); j(t) })
		}
	})
	if err := out.Write(); err != nil {
		t.Fatal(err)
	}
}
