//go:build verif

package observedaddrs

// C17, asynchronous path (spec/C17_Async.tla): a real Manager is STARTED (event subscription,
// eventHandler and worker goroutines) on a real event bus inside a testing/synctest bubble.  Identify
// reports are emitted as real EvtPeerIdentificationCompleted events, closes are the stub reporting
// IsClosed plus the Disconnected notification the manager registered with the network.  To queue a
// burst deterministically the worker is first given an event of a connection whose callbacks block
// (it did not arrive at a listen address, so it never counts); while the worker sits there the
// model's emit/mark/remove steps are performed, `drain` releases the worker and synctest.Wait()
// returns when it has handled everything queued.  At every quiescent state of the model (queue
// empty, every closed connection notified) Addrs/AddrsFor are compared with the model: L1.  The
// queue length after every emit (bounded queue, drop when full) and the connection map are L2.

import (
	"encoding/json"
	"fmt"
	"path/filepath"
	"sort"
	"strings"
	"testing"
	"testing/synctest"

	"github.com/libp2p/go-libp2p/core/event"
	"github.com/libp2p/go-libp2p/core/network"
	"github.com/libp2p/go-libp2p/internal/vfh"
	"github.com/libp2p/go-libp2p/p2p/host/eventbus"
)

type vfC17Net struct {
	network.Network // nil: the manager only registers / unregisters its notifiee
	nb              network.Notifiee
}

func (n *vfC17Net) Notify(nb network.Notifiee)     { n.nb = nb }
func (n *vfC17Net) StopNotify(nb network.Notifiee) { n.nb = nil }

func vfC17AsyncRun(res *vfh.Result, file string, h vfC17Hdr, capModel int, wk vfh.Walk) (steps int, err error) {
	seed := vfh.Seed()*1000003 + int64(wk.Walk)*7919 + 15485867
	w, err := vfC17Build(h, seed, 1)
	if err != nil {
		return 0, err
	}
	ActivationThresh = h.Thresh
	bus := eventbus.NewBus()
	m, err := newManagerWithListenAddrs(bus, w.listenFn)
	if err != nil {
		return 0, err
	}
	w.m = m
	nw := &vfC17Net{}
	m.Start(nw)
	if nw.nb == nil {
		m.Close()
		return 0, fmt.Errorf("Manager.Start did not register a notifiee")
	}
	em, err := bus.Emitter(new(event.EvtPeerIdentificationCompleted))
	if err != nil {
		m.Close()
		return 0, err
	}
	var blocker *vfC17Conn
	release := func() {
		if blocker != nil {
			close(blocker.gate)
			blocker = nil
		}
	}
	defer func() {
		release()
		em.Close()
		m.Close()
	}()
	synctest.Wait()
	tr := w.tr[h.Locals[0]]
	bLocal, err := vfC17MA("/" + w.ipn() + "/" + w.hostIP + "/" + tr + "/59999")
	if err != nil {
		return 0, err
	}
	bRemote, err := vfC17MA("/ip4/9.9.9.9/" + tr + "/9")
	if err != nil {
		return 0, err
	}
	bObs, err := vfC17MA(w.obsTW(h.Addrs[0], tr))
	if err != nil {
		return 0, err
	}
	hold := func() error {
		if blocker != nil {
			return nil
		}
		b := &vfC17Conn{local: bLocal, remote: bRemote, gate: make(chan struct{}), w: w}
		if err := em.Emit(event.EvtPeerIdentificationCompleted{Conn: b, ObservedAddr: bObs}); err != nil {
			return err
		}
		synctest.Wait()
		blocker = b
		if !b.entered.Load() || len(m.wch) != 0 {
			return fmt.Errorf("the worker could not be held at a callback of the blocking connection (entered=%v, queued=%d)", b.entered.Load(), len(m.wch))
		}
		return nil
	}
	var prefix []any
	cfg := func() map[string]any {
		return map[string]any{"instance": h.Inst, "thresh_model": h.Thresh, "ActivationThresh": ActivationThresh, "mode": "async",
			"queue_capacity": capModel, "file": filepath.Base(file), "world": w.desc, "seed": vfh.Seed()}
	}
	report := func(v *vfC17Verdict, i int) {
		limit := 6
		if strings.HasPrefix(v.cls, "L2:") {
			limit = 2
		}
		if vfC17PerClass[v.cls] < limit {
			vfC17PerClass[v.cls]++
			res.AddMismatch(vfh.Mismatch{Class: v.cls, What: v.what, Walk: wk.Walk, Step: i, Expected: v.exp, Got: v.got,
				Prefix: append([]any{}, prefix...), Cfg: cfg()})
		}
	}
	l2off := false
	for i, st := range wk.Steps {
		op := st.Op
		rec := map[string]any{"name": op.Name()}
		switch op.Name() {
		case "emit":
			c := op.S("c")
			cs, ok := w.conns[c]
			if !ok {
				return steps, fmt.Errorf("unknown connection %q", c)
			}
			if err := hold(); err != nil {
				return steps, err
			}
			os, err := w.observed(c, op.S("o"))
			if err != nil {
				return steps, err
			}
			om, err := vfC17MA(os)
			if err != nil {
				return steps, err
			}
			rec["c"], rec["o"], rec["observed"] = c, op.S("o"), os
			if err := em.Emit(event.EvtPeerIdentificationCompleted{Conn: cs[0], ObservedAddr: om}); err != nil {
				return steps, err
			}
			synctest.Wait()
			if got := len(m.wch); got != op.I("qlen") && !l2off {
				report(&vfC17Verdict{"L2:async:queue-length", "events queued for the worker after an emit (bounded queue, drop when full)", op.I("qlen"), got}, i)
				l2off = true
			}
			res.Inc("async_events_emitted", 1)
			if !op.B("acc") {
				res.Inc("async_events_dropped_queue_full", 1)
			}
		case "mark":
			rec["c"] = op.S("c")
			for _, cc := range w.conns[op.S("c")] {
				cc.closed = true
			}
		case "remove":
			rec["c"] = op.S("c")
			for _, cc := range w.conns[op.S("c")] {
				nw.nb.Disconnected(nw, cc)
			}
		case "drain":
			rec["n"] = op.I("n")
			if blocker == nil {
				return steps, fmt.Errorf("drain without a held worker")
			}
			release()
			synctest.Wait()
			if n := len(m.wch); n != 0 {
				return steps, fmt.Errorf("the released worker is idle with %d event(s) still queued", n)
			}
			res.Inc("async_bursts_drained", 1)
			res.Case(fmt.Sprintf("async-burst-of-%d", op.I("n")))
		default:
			return steps, fmt.Errorf("unknown async op %q", op.Name())
		}
		prefix = append(prefix, rec)
		steps++
		res.Inc("async_steps", 1)
		if !op.B("q") {
			continue
		}
		res.Inc("async_quiescent_comparisons", 1)
		exp, err := vfC17ParseExp(op["exp"])
		if err != nil {
			return steps, err
		}
		if v := w.checkOutputs(exp, nil); v != nil {
			v.what = "after the worker drained the queued identify events: " + v.what
			report(v, i)
			break
		}
		if l2off {
			continue
		}
		want := map[string]string{}
		for c, a := range op.M("obs") {
			if as, _ := a.(string); as != "none" {
				want[c] = as
			}
		}
		got := map[string]string{}
		m.mu.RLock()
		for c, cs := range w.conns {
			if tw, ok := m.connObservedTWAddrs[cs[0]]; ok {
				got[c] = w.twObs[string(tw.Bytes())]
			}
		}
		n := len(m.connObservedTWAddrs)
		m.mu.RUnlock()
		if !vfC17EqStr(want, got) || n != len(got) {
			report(&vfC17Verdict{"L2:async:connObservedTWAddrs", "connObservedTWAddrs differs from the model at quiescence", want, got}, i)
			l2off = true
		}
	}
	return steps, nil
}

func vfC17Async(t *testing.T, res *vfh.Result) {
	files, _ := filepath.Glob(filepath.Join(vfh.In(), "async", "*.jsonl"))
	sort.Strings(files)
	savedCap := observedAddrManagerWorkerChannelSize
	defer func() { observedAddrManagerWorkerChannelSize = savedCap }()
	res.Set("async_real_queue_capacity", savedCap)
	for _, f := range files {
		hdr, walks, err := vfh.LoadWalks(f)
		if err != nil {
			t.Fatalf("%s: %v", f, err)
		}
		var h vfC17Hdr
		b, _ := json.Marshal(hdr["inst"])
		if err := json.Unmarshal(b, &h); err != nil || h.Thresh <= 0 || len(h.LocalOf) == 0 {
			t.Fatalf("%s: bad instance header: %v", f, err)
		}
		inst, _ := hdr["inst"].(map[string]any)
		capF, _ := inst["cap"].(float64)
		if capF < 1 {
			t.Fatalf("%s: no queue capacity in the header", f)
		}
		observedAddrManagerWorkerChannelSize = int(capF) // package variable, like ActivationThresh: the model's capacity
		synctest.Test(t, func(t *testing.T) {
			for _, wk := range walks {
				if _, err := vfC17AsyncRun(res, f, h, int(capF), wk); err != nil {
					t.Fatalf("%s walk %d (async): %v", f, wk.Walk, err)
				}
				res.Inc("async_walks", 1)
			}
		})
	}
}
