//go:build verif

package rcmgr

// C03, "from many goroutines at once".
//
// TestVerifC03Concurrent runs two kinds of seeded scenarios on one real manager each:
//
//   traced   G goroutines, each with its own connections / streams / spans, all contending for the
//            shared scopes (system, transient, two peers, a protocol, a service and their per-peer
//            sub-scopes, View reservations).  The manager's synchronous TraceReporter
//            (WithTraceReporter; events are emitted under the scope's lock) and the harness's
//            return events are recorded as ndjson and validated by TLC against spec/C03_Trace.tla.
//            Each return event carries the effect the statement wants the call to have had,
//            computed from the calling goroutine's own ledger.
//   races    the goroutines share ALL objects (Done in any order, repeated, racing reservations on
//            closed owners, racing SetPeer/SetProtocol/SetService).  Only outcomes are recorded.
//
// In both, at quiescent points (all goroutines at a barrier) and at the end every scope's Stat()
// is audited against the ledger(s): sum of holders, within limits, zero after the last release.

import (
	"fmt"
	"math"
	"math/rand"
	"os"
	"path/filepath"
	"runtime"
	"strconv"
	"strings"
	"sync"
	"testing"

	"github.com/libp2p/go-libp2p/core/network"
	"github.com/libp2p/go-libp2p/internal/vfh"
	ma "github.com/multiformats/go-multiaddr"
)

const vfC03Inf = 1000000

func vfC03ConcConf() *vfC03Conf {
	L := func(mem int64, si, so, s, ci, co, c, fd int) vfC03Lim {
		return vfC03Lim{Mem: mem, Si: si, So: so, S: s, Ci: ci, Co: co, C: c, Fd: fd}
	}
	cf := &vfC03Conf{Fam: "concurrent", Inf: vfC03Inf, Deflim: L(vfC03Inf, 9, 9, 9, 9, 9, 9, 9),
		Peers: []string{"p1", "p2"}, Protos: []string{"a"}, Svcs: []string{"x"},
		Eps: []string{"n0", "a1"}, Epb: vfC03M[[]string]{"a1": {"a1/32"}, "n0": {}}, Cap: vfC03M[int]{"a1/32": 3},
		Lim: vfC03M[vfC03Lim]{
			"sys": L(12, 4, 4, 6, 4, 3, 5, 3), "trans": L(6, 3, 3, 3, 3, 3, 3, 2),
			"peer:p1": L(6, 3, 3, 3, 2, 2, 2, 2), "peer:p2": L(5, 2, 2, 3, 2, 1, 2, 1),
			"proto:a": L(6, 3, 3, 3, 9, 9, 9, 9), "proto:a.peer": L(4, 2, 2, 2, 9, 9, 9, 9),
			"svc:x": L(5, 2, 2, 2, 9, 9, 9, 9), "svc:x.peer": L(3, 2, 2, 2, 9, 9, 9, 9),
			"conn": L(4, 1, 1, 1, 1, 1, 1, 1), "stream": L(3, 1, 1, 1, 9, 9, 9, 9),
		}}
	cf.init()
	return cf
}

func vfC03Goid() int64 {
	var buf [40]byte
	n := runtime.Stack(buf[:], false)
	f := strings.Fields(string(buf[:n]))
	if len(f) < 2 {
		return -1
	}
	id, _ := strconv.ParseInt(f[1], 10, 64)
	return id
}

// reporter turns the manager's TraceEvts into ndjson lines
type vfC03Reporter struct {
	tr    *vfh.Trace
	cf    *vfC03Conf
	gmap  sync.Map // goroutine id -> "g1"
	short *strings.Replacer
}

func (rp *vfC03Reporter) g() string {
	if v, ok := rp.gmap.Load(vfC03Goid()); ok {
		return v.(string)
	}
	return "g0"
}
func (rp *vfC03Reporter) norm(name string) string { return rp.short.Replace(name) }

func vfC03Cap(n int64) int64 {
	if n == math.MaxInt64 || n == math.MaxInt {
		return vfC03Inf
	}
	return n
}

func (rp *vfC03Reporter) ConsumeEvent(e TraceEvt) {
	if rp.tr == nil {
		return
	}
	s := rp.norm(e.Name)
	kind := map[TraceEvtTyp]string{
		TraceReserveMemoryEvt: "res", TraceBlockReserveMemoryEvt: "blk", TraceReleaseMemoryEvt: "rel",
		TraceAddStreamEvt: "res", TraceBlockAddStreamEvt: "blk", TraceRemoveStreamEvt: "rel",
		TraceAddConnEvt: "res", TraceBlockAddConnEvt: "blk", TraceRemoveConnEvt: "rel"}[e.Type]
	switch e.Type {
	case TraceCreateScopeEvt:
		l, _ := e.Limit.(Limit)
		if l == nil {
			return
		}
		rp.tr.Emit("create", "s", s, "lim", []int64{vfC03Cap(l.GetMemoryLimit()),
			vfC03Cap(int64(l.GetStreamLimit(network.DirInbound))), vfC03Cap(int64(l.GetStreamLimit(network.DirOutbound))),
			vfC03Cap(int64(l.GetStreamTotalLimit())), vfC03Cap(int64(l.GetConnLimit(network.DirInbound))),
			vfC03Cap(int64(l.GetConnLimit(network.DirOutbound))), vfC03Cap(int64(l.GetConnTotalLimit())), vfC03Cap(int64(l.GetFDLimit()))})
	case TraceDestroyScopeEvt:
		rp.tr.Emit("destroy", "s", s, "g", rp.g())
	case TraceReserveMemoryEvt, TraceBlockReserveMemoryEvt, TraceReleaseMemoryEvt:
		rp.tr.Emit("mem", "k", kind, "s", s, "g", rp.g(), "p", int(e.Priority), "d", e.Delta, "v", e.Memory)
	case TraceAddStreamEvt, TraceBlockAddStreamEvt, TraceRemoveStreamEvt:
		rp.tr.Emit("str", "k", kind, "s", s, "g", rp.g(), "d", []int{e.DeltaIn, e.DeltaOut}, "v", []int{e.StreamsIn, e.StreamsOut})
	case TraceAddConnEvt, TraceBlockAddConnEvt, TraceRemoveConnEvt:
		rp.tr.Emit("conn", "k", kind, "s", s, "g", rp.g(), "d", []int{e.DeltaIn, e.DeltaOut, int(e.Delta)}, "v", []int{e.ConnsIn, e.ConnsOut, e.FD})
	}
}

// ---------------------------------------------------------------------------------------------

type vfC03Barrier struct {
	mu    sync.Mutex
	cond  *sync.Cond
	n, at int
	gen   int
}

func vfC03NewBarrier(n int) *vfC03Barrier {
	b := &vfC03Barrier{n: n}
	b.cond = sync.NewCond(&b.mu)
	return b
}

// wait blocks until all n parties arrived; the last one runs f (alone) before the others go on
func (b *vfC03Barrier) wait(f func()) {
	b.mu.Lock()
	defer b.mu.Unlock()
	gen := b.gen
	b.at++
	if b.at == b.n {
		if f != nil {
			f()
		}
		b.at = 0
		b.gen++
		b.cond.Broadcast()
		return
	}
	for gen == b.gen {
		b.cond.Wait()
	}
}

type vfC03Conc struct {
	cf     *vfC03Conf
	rm     *resourceManager
	rp     *vfC03Reporter
	res    *vfh.Result
	name   string
	races  bool
	mu     sync.Mutex // races: guards handles / ledger log
	shared *vfC03Run  // handle table (+ merged ledger in races mode)
	log    []vfC03Outcome
}

type vfC03Outcome struct {
	op  vfh.Op
	got string
}

type vfC03Worker struct {
	c       *vfC03Conc
	g       string
	rnd     *rand.Rand
	run     *vfC03Run // traced: own ledger and handles
	seq     int
	tokens  map[string]int64 // memory this goroutine reserved through each handle (and may release)
	realOf  map[string]string
	nextObj int
}

func (w *vfC03Worker) ledger() *vfC03Ledger { return w.run.lg }

// real (normalised) scope name of a model scope
func (w *vfC03Worker) real(s string) string {
	if n, ok := w.realOf[s]; ok {
		return n
	}
	switch {
	case s == "sys":
		return "system"
	case s == "trans":
		return "transient"
	case strings.HasPrefix(s, "proto:"):
		return strings.Replace("protocol:/vf/"+s[6:], ".peer:", ".peer:", 1)
	case strings.HasPrefix(s, "svc:"):
		return "service:vf" + s[4:]
	}
	return s
}

type vfC03Eff map[string]vfC03Vec

func (e vfC03Eff) add(s string, v vfC03Vec) { e[s] = e[s].add(v) }
func (v vfC03Vec) neg() vfC03Vec {
	for i := range v {
		v[i] = -v[i]
	}
	return v
}

// effect the statement wants a successful op to have (traced mode; ledger BEFORE the op)
func (w *vfC03Worker) effect(op vfh.Op, newReal string) vfC03Eff {
	lg := w.ledger()
	eff := vfC03Eff{}
	h := op.S("h")
	chainEff := func(h string, v vfC03Vec) {
		ch := lg.chain(h)
		for i, x := range ch {
			if lg.closed(x) {
				return
			}
			eff.add(w.real(x), v)
			if i == len(ch)-1 {
				for _, s := range lg.rootSet(x) {
					eff.add(w.real(s), v)
				}
			}
		}
	}
	switch op.Name() {
	case "openconn":
		u := vfC03ConnVec(op.S("dir"), op.B("fd"))
		for _, s := range []string{newReal, "transient", "system"} {
			eff.add(s, u)
		}
	case "openstream":
		u := vfC03StrVec(op.S("dir"))
		for _, s := range []string{newReal, w.real("peer:" + op.S("peer")), "transient", "system"} {
			eff.add(s, u)
		}
	case "setpeer":
		if o := lg.objs[h]; o.open {
			eff.add(w.real("peer:"+op.S("peer")), lg.total(h))
			eff.add("transient", lg.total(h).neg())
		}
	case "setprotocol":
		if o := lg.objs[h]; o.open {
			eff.add(w.real("proto:"+op.S("proto")), lg.total(h))
			eff.add(w.real("proto:"+op.S("proto")+".peer:"+o.peer), lg.total(h))
			eff.add("transient", lg.total(h).neg())
		}
	case "setservice":
		if o := lg.objs[h]; o.open {
			eff.add(w.real("svc:"+op.S("svc")), lg.total(h))
			eff.add(w.real("svc:"+op.S("svc")+".peer:"+o.peer), lg.total(h))
		}
	case "reserve":
		chainEff(h, vfC03Vec{int64(op.I("n"))})
	case "release":
		chainEff(h, vfC03Vec{-int64(op.I("n"))})
	case "done":
		o := lg.objs[h]
		if !o.open {
			break
		}
		if o.kind == "span" {
			v := vfC03Vec{-lg.memUnder(h)}
			eff.add(w.real(h), v)
			chainEff(o.owner, v)
		} else {
			v := lg.total(h).neg()
			eff.add(w.real(h), v)
			for _, s := range o.set {
				eff.add(w.real(s), v)
			}
		}
	}
	return eff
}

func (w *vfC03Worker) pick(xs []string) string { return xs[w.rnd.Intn(len(xs))] }

// next chooses an op over the worker's handles (traced) or the shared ones (races)
func (w *vfC03Worker) next() vfh.Op {
	lg := w.ledger()
	var conns, streams, spans, all []string
	w.c.mu.Lock()
	for _, id := range lg.order {
		o := lg.objs[id]
		all = append(all, id)
		switch o.kind {
		case "conn":
			conns = append(conns, id)
		case "stream":
			streams = append(streams, id)
		default:
			spans = append(spans, id)
		}
	}
	w.c.mu.Unlock()
	views := []string{"sys", "trans", "peer:p1", "peer:p2", "proto:a", "svc:x"}
	dir := w.pick([]string{"in", "out"})
	newID := func(k string) string { w.nextObj++; return fmt.Sprintf("%s%s_%d", k, w.g, w.nextObj) }
	for {
		switch r := w.rnd.Intn(100); {
		case r < 12:
			return vfh.Op{"name": "openconn", "id": newID("c"), "dir": dir, "fd": w.rnd.Intn(2) == 0, "ep": w.pick([]string{"n0", "n0", "a1"})}
		case r < 24:
			return vfh.Op{"name": "openstream", "id": newID("s"), "dir": dir, "peer": w.pick(w.c.cf.Peers)}
		case r < 32 && len(conns) > 0:
			return vfh.Op{"name": "setpeer", "h": w.pick(conns), "peer": w.pick(w.c.cf.Peers)}
		case r < 40 && len(streams) > 0:
			return vfh.Op{"name": "setprotocol", "h": w.pick(streams), "proto": "a"}
		case r < 47 && len(streams) > 0:
			return vfh.Op{"name": "setservice", "h": w.pick(streams), "svc": "x"}
		case r < 65:
			h := w.pick(append(append([]string(nil), all...), views[w.rnd.Intn(len(views))]))
			return vfh.Op{"name": "reserve", "h": h, "n": float64(1 + w.rnd.Intn(3)), "prio": float64([]int{63, 127, 255, 255}[w.rnd.Intn(4)])}
		case r < 78:
			// release part of what this goroutine reserved through some handle
			var hs []string
			for h, n := range w.tokens {
				if n > 0 {
					hs = append(hs, h)
				}
			}
			if len(hs) == 0 {
				continue
			}
			sortStrings(hs)
			h := w.pick(hs)
			return vfh.Op{"name": "release", "h": h, "n": float64(1 + w.rnd.Int63n(w.tokens[h]))}
		case r < 86 && len(all) > 0:
			return vfh.Op{"name": "beginspan", "id": newID("sp"), "h": w.pick(append(append([]string(nil), all...), views[w.rnd.Intn(len(views))]))}
		case r < 100 && len(all) > 0:
			return vfh.Op{"name": "done", "h": w.pick(all)}
		}
	}
}

func sortStrings(xs []string) {
	for i := 1; i < len(xs); i++ {
		for j := i; j > 0 && xs[j] < xs[j-1]; j-- {
			xs[j], xs[j-1] = xs[j-1], xs[j]
		}
	}
}

// realName of a freshly created object's scope (in-package)
func vfC03RealName(h any) string {
	switch s := h.(type) {
	case *connectionScope:
		return s.name
	case *streamScope:
		return s.name
	case *resourceScope:
		return s.name
	}
	return ""
}

func (w *vfC03Worker) do(op vfh.Op) {
	c := w.c
	w.seq++
	if c.races {
		// shared handles: the handle table is guarded, the calls themselves are not
		c.mu.Lock()
		r := c.shared
		c.mu.Unlock()
		got := w.execShared(r, op)
		c.mu.Lock()
		c.log = append(c.log, vfC03Outcome{op, got})
		c.mu.Unlock()
		w.note(op, got)
		return
	}
	r := w.run
	eff := vfC03Eff{}
	if op.Name() != "openconn" && op.Name() != "openstream" && op.Name() != "beginspan" {
		eff = w.effect(op, "")
	}
	_, apply := r.expect(op)
	got, _ := r.exec(op)
	if got == "nil" {
		if id := op.S("id"); id != "" {
			w.realOf[id] = c.rp.norm(vfC03RealName(r.handles[id]))
			eff = w.effect(op, w.realOf[id])
		}
		if apply != nil {
			apply()
		} else if id := op.S("id"); id != "" {
			// granted although this goroutine's ledger alone would refuse: record it anyway
			w.forceCreate(op)
		} else {
			w.forceApply(op)
		}
	}
	w.note(op, got)
	out := map[string][6]int64{"_": {}}
	for s, v := range eff {
		if !v.zero() {
			out[s] = v
		}
	}
	c.rp.tr.Emit("ret", "g", w.g, "op", op.Name(), "err", got, "eff", out, "h", op.S("h"))
}

// the per-goroutine ledger judges fits() against its own holdings only, so "expect" may say refuse
// where the manager (rightly or wrongly) granted; what was granted is recorded all the same and
// judged by the audits and by TLC
func (w *vfC03Worker) forceCreate(op vfh.Op) {
	lg := w.ledger()
	id := op.S("id")
	switch op.Name() {
	case "openconn":
		lg.objs[id] = &vfC03LObj{kind: "conn", open: true, unit: vfC03ConnVec(op.S("dir"), op.B("fd")), ep: op.S("ep"), set: []string{"trans", "sys"}}
	case "openstream":
		lg.objs[id] = &vfC03LObj{kind: "stream", open: true, unit: vfC03StrVec(op.S("dir")), peer: op.S("peer"), set: []string{"peer:" + op.S("peer"), "trans", "sys"}}
	case "beginspan":
		lg.objs[id] = &vfC03LObj{kind: "span", open: true, owner: op.S("h")}
	}
	lg.order = append(lg.order, id)
}

func (w *vfC03Worker) forceApply(op vfh.Op) {
	lg := w.ledger()
	h := op.S("h")
	o := lg.objs[h]
	switch op.Name() {
	case "setpeer":
		o.peer, o.set = op.S("peer"), []string{"peer:" + op.S("peer"), "sys"}
	case "setprotocol":
		o.proto, o.set = op.S("proto"), []string{"peer:" + o.peer, "sys", "proto:" + op.S("proto"), "proto:" + op.S("proto") + ".peer:" + o.peer}
	case "setservice":
		o.svc, o.set = op.S("svc"), append(append([]string(nil), o.set...), "svc:"+op.S("svc"), "svc:"+op.S("svc")+".peer:"+o.peer)
	case "reserve":
		if o != nil {
			o.held += int64(op.I("n"))
		} else {
			lg.direct[h] += int64(op.I("n"))
		}
	}
}

// tokens: what this goroutine may still release through each handle
func (w *vfC03Worker) note(op vfh.Op, got string) {
	h := op.S("h")
	switch op.Name() {
	case "reserve":
		if got == "nil" {
			w.tokens[h] += int64(op.I("n"))
		}
	case "release":
		w.tokens[h] -= int64(op.I("n"))
	case "done":
		if !w.c.races {
			delete(w.tokens, h)
		}
	}
}

// races mode: same calls, on handles every goroutine may use
func (w *vfC03Worker) execShared(r *vfC03Run, op vfh.Op) string {
	h := op.S("h")
	get := func(id string) vfC03Scope {
		w.c.mu.Lock()
		defer w.c.mu.Unlock()
		return r.handles[id]
	}
	put := func(id string, s vfC03Scope) {
		w.c.mu.Lock()
		r.handles[id] = s
		w.c.mu.Unlock()
	}
	viewOr := func(f func(s vfC03Scope) error) error {
		if sc := get(h); sc != nil {
			return f(sc)
		}
		return r.view(h, func(s network.ResourceScope) error { return f(s) })
	}
	switch op.Name() {
	case "openconn":
		sc, err := r.rm.OpenConnection(vfC03Dir(op.S("dir")), op.B("fd"), ma.StringCast(vfC03EpAddr[op.S("ep")]))
		if err == nil {
			put(op.S("id"), sc)
		}
		return vfC03ErrClass(err)
	case "openstream":
		sc, err := r.rm.OpenStream(r.cf.pids[op.S("peer")], vfC03Dir(op.S("dir")))
		if err == nil {
			put(op.S("id"), sc)
		}
		return vfC03ErrClass(err)
	case "setpeer":
		return vfC03ErrClass(get(h).(network.ConnManagementScope).SetPeer(r.cf.pids[op.S("peer")]))
	case "setprotocol":
		return vfC03ErrClass(get(h).(network.StreamManagementScope).SetProtocol(vfC03Proto(op.S("proto"))))
	case "setservice":
		return vfC03ErrClass(get(h).(network.StreamManagementScope).SetService(vfC03Svc(op.S("svc"))))
	case "reserve":
		return vfC03ErrClass(viewOr(func(s vfC03Scope) error { return s.ReserveMemory(op.I("n"), uint8(op.I("prio"))) }))
	case "release":
		viewOr(func(s vfC03Scope) error { s.ReleaseMemory(op.I("n")); return nil })
		return "nil"
	case "beginspan":
		var sp network.ResourceScopeSpan
		err := viewOr(func(s vfC03Scope) error { var e error; sp, e = s.BeginSpan(); return e })
		if err == nil {
			put(op.S("id"), sp)
		}
		return vfC03ErrClass(err)
	case "done":
		get(h).(interface{ Done() }).Done()
		return "nil"
	}
	panic("unknown op")
}

// merge (races mode, at a barrier): apply the round's outcomes to the shared ledger in an order
// under which every interleaving of the round ends in the same ledger
func (c *vfC03Conc) merge() {
	lg := c.shared.lg
	phase := func(names ...string) {
		for _, o := range c.log {
			if o.got != "nil" || !vfC03In(names, o.op.Name()) {
				continue
			}
			op, h := o.op, o.op.S("h")
			switch op.Name() {
			case "openconn":
				lg.objs[op.S("id")] = &vfC03LObj{kind: "conn", open: true, unit: vfC03ConnVec(op.S("dir"), op.B("fd")), ep: op.S("ep"), set: []string{"trans", "sys"}}
				lg.order = append(lg.order, op.S("id"))
			case "openstream":
				lg.objs[op.S("id")] = &vfC03LObj{kind: "stream", open: true, unit: vfC03StrVec(op.S("dir")), peer: op.S("peer"), set: []string{"peer:" + op.S("peer"), "trans", "sys"}}
				lg.order = append(lg.order, op.S("id"))
			case "beginspan":
				lg.objs[op.S("id")] = &vfC03LObj{kind: "span", open: true, owner: h}
				lg.order = append(lg.order, op.S("id"))
			case "setpeer":
				if ob := lg.objs[h]; ob.peer == "" {
					ob.peer, ob.set = op.S("peer"), []string{"peer:" + op.S("peer"), "sys"}
				} else if ob.open && ob.peer != op.S("peer") {
					c.res.AddMismatch(vfh.Mismatch{Class: "reparent:setpeer:attached-twice", What: fmt.Sprintf("%s: SetPeer succeeded for %s and for %s", c.name, ob.peer, op.S("peer")), Walk: -1})
				}
			case "setprotocol":
				if ob := lg.objs[h]; ob.proto == "" {
					ob.proto = op.S("proto")
					ob.set = []string{"peer:" + ob.peer, "sys", "proto:" + ob.proto, "proto:" + ob.proto + ".peer:" + ob.peer}
				}
			case "setservice":
				if ob := lg.objs[h]; ob.svc == "" {
					ob.svc = op.S("svc")
					ob.set = append(append([]string(nil), ob.set...), "svc:"+ob.svc, "svc:"+ob.svc+".peer:"+ob.peer)
				}
			case "reserve":
				if ob, ok := lg.objs[h]; ok {
					ob.held += int64(op.I("n"))
				} else {
					lg.direct[h] += int64(op.I("n"))
				}
			case "release":
				if ob, ok := lg.objs[h]; ok {
					if ob.open {
						ob.held -= int64(op.I("n"))
					}
				} else {
					lg.direct[h] -= int64(op.I("n"))
				}
			case "done":
				ob := lg.objs[h]
				ob.open, ob.held = false, 0
			}
		}
	}
	phase("openconn", "openstream")
	phase("beginspan")
	phase("setpeer")
	phase("setprotocol")
	phase("setservice")
	phase("reserve")
	phase("release")
	phase("done")
	c.log = c.log[:0]
}

// audit at a quiescent point: every scope reports the sum of the ledgers, within its limit
func (c *vfC03Conc) audit(ws []*vfC03Worker, round int, final bool) {
	if c.races {
		c.merge()
	}
	r := c.shared
	exp := func(s string) vfC03Vec {
		if c.races {
			return r.lg.expected(s)
		}
		var v vfC03Vec
		for _, w := range ws {
			v = v.add(w.ledger().expected(s))
		}
		return v
	}
	check := func(s string, got, want vfC03Vec, lim vfC03Lim, real string) {
		if got != want {
			cls := "sum:concurrent"
			if c.races {
				cls = "sum:concurrent-shared-objects"
			}
			c.res.AddMismatch(vfh.Mismatch{Class: cls, What: fmt.Sprintf("%s round %d: at quiescence scope %s reports %v, its holders hold %v", c.name, round, s, got, want),
				Walk: -1, Step: round, Expected: want, Got: got, Cfg: map[string]any{"scenario": c.name}})
		}
		if !c.cf.within(got, lim) {
			c.res.AddMismatch(vfh.Mismatch{Class: "bounds:concurrent", What: fmt.Sprintf("%s round %d: scope %s reports %v beyond its limit %+v", c.name, round, s, got, lim),
				Walk: -1, Step: round, Expected: lim, Got: got, Cfg: map[string]any{"scenario": c.name}})
		}
		if final && !got.zero() {
			c.res.AddMismatch(vfh.Mismatch{Class: "zero:concurrent", What: fmt.Sprintf("%s: after the last holder was released scope %s reports %v", c.name, s, got),
				Walk: -1, Step: round, Got: got, Cfg: map[string]any{"scenario": c.name}})
		}
		if c.rp.tr != nil && real != "" {
			c.rp.tr.Emit("stat", "s", real, "v", [6]int64(got))
		}
	}
	w0 := ws[0]
	for _, s := range c.cf.named {
		real := w0.real(s)
		if s == "asys" {
			real = "allowlistedSystem"
		} else if s == "atrans" {
			real = "allowlistedTransient"
		}
		check(s, r.statOf(s), exp(s), c.cf.lim(s), real)
	}
	if c.races {
		for _, id := range r.lg.order {
			check(id, r.statOf(id), r.lg.expected(id), r.lg.limOf(id), "")
		}
	} else {
		for _, w := range ws {
			for _, id := range w.ledger().order {
				check(id, w.run.statOf(id), w.ledger().expected(id), w.ledger().limOf(id), w.realOf[id])
			}
		}
	}
	if final {
		left := 0
		c.rm.connLimiter.mu.Lock()
		for _, m := range c.rm.connLimiter.ip4connsPerLimit {
			for _, n := range m {
				left += n
			}
		}
		c.rm.connLimiter.mu.Unlock()
		if left != 0 {
			c.res.AddMismatch(vfh.Mismatch{Class: "L2:zero:connlimiter", What: fmt.Sprintf("%s: connLimiter counters sum to %d at the end", c.name, left), Walk: -1})
		}
		if c.rp.tr != nil {
			c.rp.tr.Emit("final")
		}
	} else if round%2 == 1 {
		c.rm.gc() // scope GC at a quiescent point, also while View scopes hold reservations
	}
}

func vfC03Scenario(res *vfh.Result, cf *vfC03Conf, name string, seed int64, races bool, G, rounds, perRound int, tracePath string) error {
	rp := &vfC03Reporter{cf: cf}
	var rep []string
	for p, id := range cf.pids {
		rep = append(rep, id.String(), p)
	}
	rp.short = strings.NewReplacer(rep...)
	if !races {
		rp.tr = vfh.NewTrace(name)
	}
	rm, err := cf.newMgr(WithTraceReporter(rp))
	if err != nil {
		return err
	}
	defer rm.Close()
	c := &vfC03Conc{cf: cf, rm: rm, rp: rp, res: res, name: name, races: races}
	c.shared = &vfC03Run{cf: cf, rm: rm, lg: vfC03NewLedger(cf), handles: map[string]vfC03Scope{}, res: res, walk: -1}
	ws := make([]*vfC03Worker, G)
	for i := range ws {
		w := &vfC03Worker{c: c, g: fmt.Sprintf("g%d", i+1), rnd: rand.New(rand.NewSource(seed*1000 + int64(i))), tokens: map[string]int64{}, realOf: map[string]string{}}
		if races {
			w.run = c.shared
		} else {
			w.run = &vfC03Run{cf: cf, rm: rm, lg: vfC03NewLedger(cf), handles: map[string]vfC03Scope{}, res: res, walk: -1}
		}
		ws[i] = w
	}
	bar := vfC03NewBarrier(G)
	var wg sync.WaitGroup
	nops := 0
	var nmu sync.Mutex
	for _, w := range ws {
		wg.Add(1)
		go func(w *vfC03Worker) {
			defer wg.Done()
			rp.gmap.Store(vfC03Goid(), w.g)
			for round := 0; round < rounds; round++ {
				for i := 0; i < perRound; i++ {
					w.do(w.next())
				}
				nmu.Lock()
				nops += perRound
				nmu.Unlock()
				bar.wait(func() { c.audit(ws, round, false) })
			}
			// release everything this goroutine can: its tokens on View scopes, then (traced) its
			// objects; in races mode goroutine 1 closes all shared objects after a barrier
			if !races {
				for _, id := range append([]string(nil), w.ledger().order...) {
					if w.ledger().objs[id].open {
						w.do(vfh.Op{"name": "done", "h": id})
					}
				}
			}
			var hs []string
			for h := range w.tokens {
				hs = append(hs, h)
			}
			sortStrings(hs)
			for _, h := range hs {
				if n := w.tokens[h]; n > 0 && !w.ledger().isObjLocked(c, h) {
					w.do(vfh.Op{"name": "release", "h": h, "n": float64(n)})
				}
			}
			bar.wait(func() {
				if races {
					c.merge()
					for _, id := range append([]string(nil), c.shared.lg.order...) {
						ws[0].do(vfh.Op{"name": "done", "h": id})
						ws[0].do(vfh.Op{"name": "done", "h": id}) // repeated Done
					}
				}
				c.audit(ws, rounds, true)
			})
		}(w)
	}
	wg.Wait()
	res.Count(1, nops)
	res.Case(fmt.Sprintf("%s", name))
	if rp.tr != nil && tracePath != "" {
		if err := rp.tr.AppendTo(tracePath, map[string]any{"seed": seed}); err != nil {
			return err
		}
		res.Inc("trace_events", rp.tr.Len())
		if evs := rp.tr.Events(); len(evs) > 40 {
			res.Sample(map[string]any{"trace": name, "events_30_to_36": evs[30:36]})
		}
	}
	return nil
}

// isObjLocked: is h one of the objects (not a View scope)?
func (lg *vfC03Ledger) isObjLocked(c *vfC03Conc, h string) bool {
	c.mu.Lock()
	defer c.mu.Unlock()
	return lg.isObj(h)
}

func TestVerifC03Concurrent(t *testing.T) {
	res := vfh.NewResult()
	res.Rule = "distinct = scenarios (seeded histories x goroutine schedules) executed"
	defer func() {
		if err := res.Write(); err != nil {
			t.Fatal(err)
		}
	}()
	cf := vfC03ConcConf()
	ntr := vfh.EnvInt("VERIF_C03_TRACES", 10)
	nrace := vfh.EnvInt("VERIF_C03_RACES", 20)
	path := filepath.Join(vfh.Out(), "c03_traces.ndjson")
	os.Remove(path)
	for i := 0; i < ntr; i++ {
		if err := vfC03Scenario(res, cf, fmt.Sprintf("traced-%d-%d", vfh.Seed(), i), vfh.Seed()*100000+int64(i), false, 4, 3, 8, path); err != nil {
			t.Fatal(err)
		}
	}
	if ntr > 0 {
		res.Traces = append(res.Traces, path)
	}
	for i := 0; i < nrace; i++ {
		if err := vfC03Scenario(res, cf, fmt.Sprintf("races-%d-%d", vfh.Seed(), i), vfh.Seed()*100000+50000+int64(i), true, 4, 4, 15, ""); err != nil {
			t.Fatal(err)
		}
	}
	res.Sample(map[string]any{"traced": ntr, "races": nrace, "goroutines": 4})
}
