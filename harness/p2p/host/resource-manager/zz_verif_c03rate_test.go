//go:build verif

package rcmgr

// C03rate (extension engine of C03), resource-manager side: behaviours TLC generated from spec/C03rate_Conn.tla
// replayed on the real connLimiter (in-package) and through NewResourceManager / OpenConnection / Done with a
// connection rate limiter; behaviours of spec/C03rate_Limiter.tla (instance "vsa") replayed through
// VerifySourceAddress, whose limiter newVerifySourceAddressRateLimiter derives from the connLimiter's caps; and
// seeded sequences on the default configuration. Virtual time: testing/synctest.

import (
	"encoding/json"
	"fmt"
	"math"
	"math/rand"
	"net"
	"net/netip"
	"path/filepath"
	"sort"
	"strings"
	"testing"
	"testing/synctest"
	"time"

	"github.com/libp2p/go-libp2p/core/network"
	v "github.com/libp2p/go-libp2p/internal/vfc03rate"
	"github.com/libp2p/go-libp2p/internal/vfh"
	"github.com/libp2p/go-libp2p/x/rate"
	ma "github.com/multiformats/go-multiaddr"
)

func vfC03rateLim(cf *v.Conf, r, burst int, tick time.Duration) rate.Limit {
	if r == 0 {
		return rate.Limit{}
	}
	return rate.Limit{RPS: cf.RPS(r, tick), Burst: burst}
}

// the connection rate limiter of the abstract configuration (exported fields only)
func vfC03rateLimiter(cf *v.Conf, va *v.Variant, rnd *rand.Rand) *rate.Limiter {
	l := &rate.Limiter{GlobalLimit: vfC03rateLim(cf, cf.Glob.Rate, cf.Glob.Burst, va.Tick)}
	for _, i := range rnd.Perm(len(cf.NP)) {
		l.NetworkPrefixLimits = append(l.NetworkPrefixLimits, rate.PrefixLimit{Prefix: va.NP[i], Limit: vfC03rateLim(cf, cf.NP[i].Rate, cf.NP[i].Burst, va.Tick)})
	}
	for _, i := range rnd.Perm(len(cf.V4)) {
		l.SubnetRateLimiter.IPv4SubnetLimits = append(l.SubnetRateLimiter.IPv4SubnetLimits, rate.SubnetLimit{PrefixLength: va.V4Len[i], Limit: vfC03rateLim(cf, cf.V4[i].Rate, cf.V4[i].Burst, va.Tick)})
	}
	for _, i := range rnd.Perm(len(cf.V6)) {
		l.SubnetRateLimiter.IPv6SubnetLimits = append(l.SubnetRateLimiter.IPv6SubnetLimits, rate.SubnetLimit{PrefixLength: va.V6Len[i], Limit: vfC03rateLim(cf, cf.V6[i].Rate, cf.V6[i].Burst, va.Tick)})
	}
	l.SubnetRateLimiter.GracePeriod = time.Duration(cf.Grace) * va.Tick
	return l
}

type vfC03rateCaps struct {
	np4, np6   []NetworkPrefixLimit
	sub4, sub6 []ConnLimitPerSubnet
}

// conn-side configuration; network prefixes in a random input order (the options sort them), subnet levels in the
// configured order (the code keeps it)
func vfC03rateConnCfg(cnp []netip.Prefix, caps []int, c4len, c4cap, c6len, c6cap []int, rnd *rand.Rand) vfC03rateCaps {
	out := vfC03rateCaps{np4: []NetworkPrefixLimit{}, np6: []NetworkPrefixLimit{}, sub4: []ConnLimitPerSubnet{}, sub6: []ConnLimitPerSubnet{}}
	for _, i := range rnd.Perm(len(cnp)) {
		l := NetworkPrefixLimit{Network: cnp[i], ConnCount: caps[i]}
		if cnp[i].Addr().Is4() {
			out.np4 = append(out.np4, l)
		} else {
			out.np6 = append(out.np6, l)
		}
	}
	for i := range c4len {
		out.sub4 = append(out.sub4, ConnLimitPerSubnet{PrefixLength: c4len[i], ConnCount: c4cap[i]})
	}
	for i := range c6len {
		out.sub6 = append(out.sub6, ConnLimitPerSubnet{PrefixLength: c6len[i], ConnCount: c6cap[i]})
	}
	return out
}

func vfC03rateCapsOf(cf *v.Conf, va *v.Variant, rnd *rand.Rand) vfC03rateCaps {
	var caps, c4, c6 []int
	for _, p := range cf.CNP {
		caps = append(caps, p.Cap)
	}
	for _, l := range cf.C4 {
		c4 = append(c4, l.Cap)
	}
	for _, l := range cf.C6 {
		c6 = append(c6, l.Cap)
	}
	return vfC03rateConnCfg(va.CNP, caps, va.C4Len, c4, va.C6Len, c6, rnd)
}

func vfC03rateMaddr(a netip.Addr, salt int) ma.Multiaddr {
	var s string
	switch {
	case !a.IsValid():
		s = []string{"/dns4/example.com/tcp/443", "/dns6/example.com/udp/443/quic-v1", "/dnsaddr/example.com"}[salt%3]
	case a.Is4():
		s = fmt.Sprintf([]string{"/ip4/%s/tcp/4001", "/ip4/%s/udp/4001/quic-v1", "/ip4/%s/tcp/443/tls/ws"}[salt%3], a)
	default:
		s = fmt.Sprintf([]string{"/ip6/%s/tcp/4001", "/ip6/%s/udp/4001/quic-v1", "/ip6/%s/udp/443/quic-v1/webtransport"}[salt%3], a.WithZone(""))
	}
	m, err := ma.NewMultiaddr(s)
	if err != nil {
		panic(fmt.Sprintf("multiaddr %s: %v", s, err))
	}
	return m
}

// sut: the connLimiter alone, or a whole manager
type vfC03rateSUT struct {
	cf   *v.Conf
	va   *v.Variant
	cl   *connLimiter
	rm   *resourceManager
	live map[string][]network.ConnManagementScope
	n    int
}

func (s *vfC03rateSUT) open(a string, salt int) (out string) {
	defer func() {
		if p := recover(); p != nil { // a panic under a valid call is an observable failure, not a harness problem
			out = fmt.Sprintf("other: PANIC %v", p)
		}
	}()
	ip := s.va.Addr[a]
	if s.rm == nil {
		// openConnection's guard: `if ip.IsValid()`
		if !ip.IsValid() || s.cl.addConn(ip) {
			s.live[a] = append(s.live[a], nil)
			return "ok"
		}
		return "conn"
	}
	dir := []network.Direction{network.DirInbound, network.DirOutbound}[salt%2]
	var sc network.ConnManagementScope
	var err error
	if !ip.IsValid() && salt%2 == 0 {
		sc, err = s.rm.OpenConnectionNoIP(dir, salt%3 == 0, vfC03rateMaddr(ip, salt))
	} else {
		sc, err = s.rm.OpenConnection(dir, salt%3 == 0, vfC03rateMaddr(ip, salt))
	}
	switch {
	case err == nil:
		s.live[a] = append(s.live[a], sc)
		return "ok"
	case err.Error() == "rate limit exceeded":
		return "rate"
	case strings.HasPrefix(err.Error(), "connections per ip limit exceeded"):
		return "conn"
	}
	return "other: " + err.Error()
}

func (s *vfC03rateSUT) done(a string, twice bool) (err error) {
	defer func() {
		if p := recover(); p != nil {
			err = fmt.Errorf("PANIC in Done: %v", p)
		}
	}()
	l := s.live[a]
	if len(l) == 0 {
		return fmt.Errorf("no live connection of %s", a)
	}
	sc := l[len(l)-1]
	s.live[a] = l[:len(l)-1]
	if s.rm == nil {
		if s.va.Addr[a].IsValid() { // connectionScope.Done's guard
			s.cl.rmConn(s.va.Addr[a])
		}
		return nil
	}
	sc.Done()
	if twice {
		sc.Done() // idempotent: must not release a second time
	}
	return nil
}

// the model's compact projection: subc lists the subnets that have a map entry (a count of zero is a leftover entry)
type vfC03rateCSt struct {
	Npc  []int          `json:"npc"`
	Subc map[string]int `json:"subc"`
	Live map[string]int `json:"live"`
}

type vfC03rateCLoc struct {
	fam    string
	lvl    int
	prefix netip.Prefix
}

func (s *vfC03rateSUT) clocs() map[string]vfC03rateCLoc {
	out := map[string]vfC03rateCLoc{}
	for _, a := range s.cf.Addrs() {
		f := s.cf.CFam[a]
		if f == "none" || s.cf.FirstCNP(a) >= 0 {
			continue
		}
		lens := s.va.C4Len
		if f == "v6" {
			lens = s.va.C6Len
		}
		for i, lv := range s.cf.CLevels(f) {
			p, err := s.va.Addr[a].Prefix(lens[i])
			if err == nil {
				out[lv.Key[a]] = vfC03rateCLoc{f, i, p}
			}
		}
	}
	return out
}

// project reads the counts in-package; stray = map entries that belong to no bucket of the model
func (s *vfC03rateSUT) project() (*vfC03rateCSt, string) {
	cl := s.cl
	cl.mu.Lock()
	defer cl.mu.Unlock()
	st := &vfC03rateCSt{Npc: make([]int, len(s.cf.CNP)), Subc: map[string]int{}, Live: map[string]int{}}
	for _, a := range s.cf.Addrs() {
		st.Live[a] = len(s.live[a])
	}
	for i := range s.cf.CNP {
		lims, cnt := cl.networkPrefixLimitV4, cl.connsPerNetworkPrefixV4
		if !s.va.CNP[i].Addr().Is4() {
			lims, cnt = cl.networkPrefixLimitV6, cl.connsPerNetworkPrefixV6
		}
		for j, l := range lims {
			if l.Network == s.va.CNP[i] && j < len(cnt) {
				st.Npc[i] = cnt[j]
			}
		}
	}
	known := 0
	for bid, loc := range s.clocs() {
		ms := cl.ip4connsPerLimit
		if loc.fam == "v6" {
			ms = cl.ip6connsPerLimit
		}
		if loc.lvl >= len(ms) || ms[loc.lvl] == nil {
			continue
		}
		if n, ok := ms[loc.lvl][loc.prefix]; ok {
			st.Subc[bid] = n
			known++
		}
	}
	total := 0
	neg := ""
	for _, ms := range [][]map[netip.Prefix]int{cl.ip4connsPerLimit, cl.ip6connsPerLimit} {
		for _, m := range ms {
			total += len(m)
			for p, n := range m {
				if n < 0 {
					neg = fmt.Sprintf("count of %v is %d", p, n)
				}
			}
		}
	}
	for _, cnt := range [][]int{cl.connsPerNetworkPrefixV4, cl.connsPerNetworkPrefixV6} {
		for i, n := range cnt {
			if n < 0 {
				neg = fmt.Sprintf("count of network prefix #%d is %d", i, n)
			}
		}
	}
	if neg == "" && total != known {
		neg = fmt.Sprintf("stray: %d map entries, %d belong to buckets of the model", total, known)
	}
	return st, neg
}

type vfC03rateRun struct {
	res    *vfh.Result
	walk   int
	prefix []string
	cfg    map[string]any
}

func (r *vfC03rateRun) mism(class, what string, step int, exp, got any) {
	r.res.AddMismatch(vfh.Mismatch{Class: class, What: what, Walk: r.walk, Step: step, Expected: exp, Got: got,
		Prefix: append([]string(nil), r.prefix...), Cfg: r.cfg})
}

func vfC03rateIsL1(fs []v.Finding) bool {
	for _, f := range fs {
		if !strings.HasPrefix(f.Class, "L2:") {
			return true
		}
	}
	return false
}

func vfC03rateNewManager(caps vfC03rateCaps, lim *rate.Limiter) (*resourceManager, error) {
	opts := []Option{WithMetricsDisabled(), WithNetworkPrefixLimit(caps.np4, caps.np6), WithLimitPerSubnet(caps.sub4, caps.sub6)}
	if lim != nil {
		opts = append(opts, WithConnRateLimiters(lim))
	}
	m, err := NewResourceManager(NewFixedLimiter(InfiniteLimits), opts...)
	if err != nil {
		return nil, err
	}
	return m.(*resourceManager), nil
}

func vfC03rateConnWalk(cf *v.Conf, va *v.Variant, res *vfh.Result, file string, wi int, w vfh.Walk, seed int64) error {
	rnd := rand.New(rand.NewSource(seed*7919 + int64(wi)))
	rated := len(cf.NP)+len(cf.V4)+len(cf.V6) > 0 || cf.Glob.Rate != 0
	direct := !rated && rnd.Intn(2) == 0
	caps := vfC03rateCapsOf(cf, va, rnd)
	sut := &vfC03rateSUT{cf: cf, va: va, live: map[string][]network.ConnManagementScope{}}
	if direct {
		sut.cl = &connLimiter{networkPrefixLimitV4: sortNetworkPrefixes(caps.np4), networkPrefixLimitV6: sortNetworkPrefixes(caps.np6),
			connLimitPerSubnetV4: caps.sub4, connLimitPerSubnetV6: caps.sub6}
	} else {
		rm, err := vfC03rateNewManager(caps, vfC03rateLimiter(cf, va, rnd))
		if err != nil {
			return err
		}
		defer rm.Close()
		sut.rm, sut.cl = rm, rm.connLimiter
	}
	run := &vfC03rateRun{res: res, walk: wi, cfg: map[string]any{"inst": cf.Inst, "variant": va.Name, "file": file, "direct_connLimiter": direct, "tick": va.Tick.String()}}
	orc := v.NewOracle(cf, va.Tick)
	led := v.NewConnLedger(cf)
	modelSync := true
	tag := fmt.Sprintf("[%s %s]", cf.Inst, va.Name)
	for si, step := range w.Steps {
		op := step.Op
		a := op.S("a")
		run.prefix = append(run.prefix, fmt.Sprintf("%s(%s)", op.Name(), a))
		switch op.Name() {
		case "Tick":
			time.Sleep(va.Tick)
			orc.Advance(va.Tick)
		case "Open":
			got := sut.open(a, wi+si)
			want := op.S("res")
			if strings.HasPrefix(got, "other") {
				run.mism("conn-open-unexpected-error", fmt.Sprintf("%s OpenConnection(%s=%v) with unlimited scopes: %s", tag, a, va.Addr[a], got), si, want, got)
				modelSync = false
				break
			}
			fs := orc.Observe(a, got != "rate") // J1: the rate limiter is consulted first, whatever follows
			switch got {
			case "ok":
				fs = append(fs, led.Admit(a)...)
			case "conn":
				if ok, _ := led.Room(a); ok {
					fs = append(fs, v.Finding{Class: "conn-spurious-refusal", What: fmt.Sprintf("connection from %s=%v refused by the connLimiter although every applicable bucket has room (live: %v)", a, va.Addr[a], led.Live)})
				}
				if cf.CFam[a] == "none" {
					fs = append(fs, v.Finding{Class: "conn-spurious-refusal", What: fmt.Sprintf("connection without IP (%s) refused by the connLimiter", a)})
				}
			}
			for _, f := range fs {
				run.mism(f.Class, tag+" "+f.What, si, want, got)
			}
			if got != want && modelSync {
				if !vfC03rateIsL1(fs) && len(fs) == 0 {
					run.mism("L2:result-differs-from-model", fmt.Sprintf("%s Open(%s=%v)", tag, a, va.Addr[a]), si, want, got)
				}
				modelSync = false
			}
			res.Case(fmt.Sprintf("%s|open|%s|%s|%d", cf.Inst, a, got, op.I("at")))
		case "Done":
			if err := sut.done(a, si%3 == 0); err != nil {
				if strings.HasPrefix(err.Error(), "PANIC") {
					run.mism("conn-limiter-panic", fmt.Sprintf("%s Done(%s): %v", tag, a, err), si, nil, err.Error())
					res.Count(1, 1)
					return nil
				}
				if modelSync {
					return err
				}
				break
			}
			led.Release(a)
			res.Case(fmt.Sprintf("%s|done|%s", cf.Inst, a))
			// L4: a subnet entry that returns to zero is deleted (else the maps grow with every subnet ever seen)
			if cst, _ := sut.project(); cf.FirstCNP(a) < 0 {
				for _, b := range led.Buckets(a) {
					if _, held := cst.Subc[b.Name]; held && led.Count(b) == 0 {
						run.mism("conn-entry-not-dropped-at-zero", fmt.Sprintf("%s the last connection of subnet %s was released by Done(%s) and its map entry is still there (count %d)", tag, b.Name, a, cst.Subc[b.Name]), si, "deleted", cst.Subc[b.Name])
					}
				}
			}
		case "Bogus":
			if ok, _ := led.Room(a); !modelSync || led.Live[a] > 0 || !ok {
				break // the model's precondition (nothing held in a's buckets) is only known to hold while in step with the model
			}
			sut.cl.rmConn(va.Addr[a])
			res.Case(fmt.Sprintf("%s|bogus|%s", cf.Inst, a))
		default:
			return fmt.Errorf("unknown op %v", op)
		}
		st, bad := sut.project()
		if bad != "" {
			cls := "L2:conn-map-stray-entry"
			if !strings.HasPrefix(bad, "stray") {
				cls = "conn-count-negative"
			}
			run.mism(cls, tag+" "+bad, si, nil, st)
		}
		// L1 of C03rate_Conn: counts equal the live connections of the harness's own ledger
		for _, x := range cf.Addrs() {
			for _, b := range led.Buckets(x) {
				real := 0
				if strings.HasPrefix(b.Name, "cnp") {
					real = st.Npc[cf.FirstCNP(x)]
				} else {
					real = st.Subc[b.Name]
				}
				if real != led.Count(b) {
					run.mism("conn-count-not-equal-live", fmt.Sprintf("%s bucket %s counts %d, %d connections are live in it after %s", tag, b.Name, real, led.Count(b), run.prefix[len(run.prefix)-1]), si, led.Count(b), real)
				}
			}
		}
		if modelSync {
			var raw struct {
				Npc  []int           `json:"npc"`
				Subc json.RawMessage `json:"subc"`
				Live map[string]int  `json:"live"`
			}
			if err := json.Unmarshal(step.State, &raw); err != nil {
				return fmt.Errorf("state of step %d: %w", si, err)
			}
			subc, err := v.FlexMap[int](raw.Subc)
			if err != nil {
				return fmt.Errorf("state of step %d: %w", si, err)
			}
			want := vfC03rateCSt{Npc: raw.Npc, Subc: subc, Live: raw.Live}
			if want.Npc == nil {
				want.Npc = []int{}
			}
			if vfh.Canon(want) != vfh.Canon(st) {
				run.mism("L2:state-differs-from-model", fmt.Sprintf("%s after %s", tag, run.prefix[len(run.prefix)-1]), si, want, st)
				modelSync = false
			}
		}
		res.Count(0, 1)
	}
	// release everything: all counts return to zero
	for _, a := range cf.Addrs() {
		for len(sut.live[a]) > 0 {
			sut.done(a, false)
			led.Release(a)
		}
	}
	st, _ := sut.project()
	for i, n := range st.Npc {
		if n != 0 {
			run.mism("conn-count-not-equal-live", fmt.Sprintf("%s network prefix #%d counts %d after every connection was released", tag, i+1, n), len(w.Steps), 0, n)
		}
	}
	for b, n := range st.Subc {
		if n != 0 {
			run.mism("conn-count-not-equal-live", fmt.Sprintf("%s bucket %s counts %d after every connection was released", tag, b, n), len(w.Steps), 0, n)
		}
	}
	res.Inc("zero_entries_left_after_release", len(st.Subc))
	if direct {
		res.Inc("walks_direct", 1)
	} else {
		res.Inc("walks_manager", 1)
	}
	res.Count(1, 0)
	return nil
}

func vfC03rateLoad(t *testing.T, pat string) (files []string) {
	files, _ = filepath.Glob(filepath.Join(vfh.In(), pat))
	sort.Strings(files)
	if len(files) == 0 {
		t.Fatalf("no behaviour files %s in %q", pat, vfh.In())
	}
	return files
}

func TestVerifC03rateConn(t *testing.T) {
	res := vfh.NewResult()
	res.Rule = "distinct = (instance, op, address, result, refusing level)"
	for _, f := range vfC03rateLoad(t, "conn_*.jsonl") {
		hdr, walks, err := vfh.LoadWalks(f)
		if err != nil {
			t.Fatal(err)
		}
		cf, err := v.ParseConf(hdr)
		if err != nil {
			t.Fatal(err)
		}
		vars := v.Variants(cf.Inst)
		if len(vars) == 0 {
			t.Fatalf("no concretisation for instance %s", cf.Inst)
		}
		for i := range vars {
			if err := v.Check(cf, &vars[i]); err != nil {
				t.Fatal(err)
			}
		}
		for wi, w := range walks {
			va := &vars[(wi+int(vfh.Seed()))%len(vars)]
			var werr error
			synctest.Test(t, func(t *testing.T) {
				werr = vfC03rateConnWalk(cf, va, res, filepath.Base(f), wi, w, vfh.Seed())
			})
			if werr != nil {
				t.Fatalf("%s walk %d: %v", f, wi, werr)
			}
		}
		res.Sample(map[string]any{"file": filepath.Base(f), "walks": len(walks), "variants": len(vars)})
	}
	if err := res.Write(); err != nil {
		t.Fatal(err)
	}
}

// ---------------------------------------------------------------------------------------------
// VerifySourceAddress: the limiter derived from the caps (Burst = ConnCount/2, RPS = sourceAddressRPS, grace 1 min)

func vfC03rateNetAddr(a netip.Addr, salt int) net.Addr {
	ip := net.IP(a.AsSlice())
	if a.Is4() && salt%2 == 0 {
		ip = ip.To16() // the form net.ListenUDP on a dual-stack socket reports
	}
	if salt%3 == 0 {
		return &net.TCPAddr{IP: ip, Port: 4001, Zone: a.Zone()}
	}
	return &net.UDPAddr{IP: ip, Port: 4001 + salt%7, Zone: a.Zone()}
}

func vfC03rateVSAWalk(cf *v.Conf, va *v.Variant, res *vfh.Result, file string, wi int, w vfh.Walk, seed int64) error {
	rnd := rand.New(rand.NewSource(seed*7919 + int64(wi)))
	if time.Duration(float64(time.Second)/sourceAddressRPS) != va.Tick {
		return fmt.Errorf("sourceAddressRPS = %v: the vsa instance assumes one token per %v", sourceAddressRPS, va.Tick)
	}
	var c4len, c6len []int
	c4len = append(c4len, va.V4Len...)
	c6len = append(c6len, va.V6Len...)
	c4cap := append([]int(nil), cf.Caps.V4...)
	c6cap := append([]int(nil), cf.Caps.V6...)
	// subnet levels in any configured order (SubnetLimiter.init sorts the derived limits)
	rnd.Shuffle(len(c4len), func(i, j int) { c4len[i], c4len[j] = c4len[j], c4len[i]; c4cap[i], c4cap[j] = c4cap[j], c4cap[i] })
	caps := vfC03rateConnCfg(va.NP, cf.Caps.NP, c4len, c4cap, c6len, c6cap, rnd)
	rm, err := vfC03rateNewManager(caps, nil)
	if err != nil {
		return err
	}
	defer rm.Close()
	run := &vfC03rateRun{res: res, walk: wi, cfg: map[string]any{"inst": cf.Inst, "variant": va.Name, "file": file, "caps": fmt.Sprint(cf.Caps)}}
	orc := v.NewOracle(cf, va.Tick)
	tag := fmt.Sprintf("[%s %s]", cf.Inst, va.Name)
	for si, step := range w.Steps {
		op := step.Op
		a := op.S("a")
		run.prefix = append(run.prefix, fmt.Sprintf("%s(%s)", op.Name(), a))
		switch op.Name() {
		case "Tick":
			time.Sleep(va.Tick)
			orc.Advance(va.Tick)
		case "Allow":
			na := vfC03rateNetAddr(va.Addr[a], wi+si)
			var got bool
			if p := func() (p any) { defer func() { p = recover() }(); got = !rm.VerifySourceAddress(na); return nil }(); p != nil {
				run.mism("rate-limiter-panic", fmt.Sprintf("%s VerifySourceAddress(%v) panics: %v", tag, na, p), si, nil, fmt.Sprint(p))
				res.Count(1, 1)
				return nil
			}
			fs := orc.Observe(a, got)
			for _, f := range fs {
				cls := f.Class
				if cls == "rate-bound-exceeded" {
					cls = "vsa-unverified-handshakes-exceed-half-the-cap"
				} else if cls == "rate-spurious-refusal" {
					cls = "vsa-verification-demanded-within-budget"
				}
				run.mism(cls, fmt.Sprintf("%s VerifySourceAddress(%v): %s", tag, na, f.What), si, !op.B("ok"), !got)
			}
			if got != op.B("ok") && len(fs) == 0 {
				run.mism("L2:result-differs-from-model", fmt.Sprintf("%s VerifySourceAddress(%v)", tag, na), si, !op.B("ok"), !got)
			}
			res.Case(fmt.Sprintf("vsa|%s|%v|%s|%d", a, got, op.S("by"), op.I("at")))
		}
		res.Count(0, 1)
	}
	res.Count(1, 0)
	return nil
}

func TestVerifC03rateVSA(t *testing.T) {
	res := vfh.NewResult()
	res.Rule = "distinct = (address, result, refusing stage, level)"
	for _, f := range vfC03rateLoad(t, "lim_vsa*.jsonl") {
		hdr, walks, err := vfh.LoadWalks(f)
		if err != nil {
			t.Fatal(err)
		}
		cf, err := v.ParseConf(hdr)
		if err != nil {
			t.Fatal(err)
		}
		vars := v.Variants(cf.Inst)
		for i := range vars {
			if err := v.Check(cf, &vars[i]); err != nil {
				t.Fatal(err)
			}
		}
		for wi, w := range walks {
			va := &vars[(wi+int(vfh.Seed()))%len(vars)]
			var werr error
			synctest.Test(t, func(t *testing.T) {
				werr = vfC03rateVSAWalk(cf, va, res, filepath.Base(f), wi, w, vfh.Seed())
			})
			if werr != nil {
				t.Fatalf("%s walk %d: %v", f, wi, werr)
			}
		}
	}
	// a net.Addr that does not parse as ip:port is always to be verified; no limiter, never
	synctest.Test(t, func(t *testing.T) {
		rm, err := vfC03rateNewManager(vfC03rateConnCfg(nil, nil, nil, nil, nil, nil, rand.New(rand.NewSource(1))), nil)
		if err != nil {
			t.Fatal(err)
		}
		defer rm.Close()
		if !rm.VerifySourceAddress(&net.UnixAddr{Name: "/tmp/x", Net: "unix"}) {
			res.AddMismatch(vfh.Mismatch{Class: "vsa-unparsable-address-not-verified", Walk: -1, What: "VerifySourceAddress(unix address) = false"})
		}
		for i := 0; i < 100; i++ { // no caps configured at all: nothing to protect, never verify
			if rm.VerifySourceAddress(&net.UDPAddr{IP: net.IPv4(1, 2, 3, 4), Port: 1}) {
				res.AddMismatch(vfh.Mismatch{Class: "vsa-verification-demanded-within-budget", Walk: -1, What: "manager without any cap demands verification"})
				break
			}
		}
	})
	if err := res.Write(); err != nil {
		t.Fatal(err)
	}
}

// ---------------------------------------------------------------------------------------------
// the DEFAULT configuration (newConnRateLimiter, newConnLimiter): seeded sequences under the ledger monitors

func vfC03rateDefaultConf() (*v.Conf, *v.Variant, error) {
	names := map[string]string{"a": "1.2.3.4", "b": "1.2.3.5", "lo": "127.0.0.1", "lo2": "127.9.9.9", "x1": "2001:db8:1:100::1", "x1b": "2001:db8:1:1ff::2",
		"x2": "2001:db8:1:200::1", "x3": "2001:db8:1:300::1", "y": "2001:db8:2::1", "l6": "::1", "m": "::ffff:1.2.3.4", "z": ""}
	cf := &v.Conf{Inst: "defaults", U: 10, Grace: 60, Fam: map[string]string{}, CFam: map[string]string{}}
	va := &v.Variant{Name: "defaults", Tick: time.Second, Addr: map[string]netip.Addr{}}
	for n, s := range names {
		var ip netip.Addr
		if s != "" {
			ip = netip.MustParseAddr(s)
		}
		va.Addr[n] = ip
		cf.Fam[n], cf.CFam[n] = "v6", "v6"
		if ip.Is4() {
			cf.Fam[n], cf.CFam[n] = "v4", "v4"
		}
		if !ip.IsValid() {
			cf.CFam[n] = "none"
		}
	}
	key := func(bits int, pre string) map[string]string {
		m := map[string]string{}
		for n, ip := range va.Addr {
			if p, err := ip.Prefix(bits); err == nil {
				m[n] = fmt.Sprintf("%s%d:%s", pre, bits, p)
			}
		}
		return m
	}
	// what conn_rate_limiter.go / conn_limiter.go declare, read from the package variables
	for _, l := range defaultIPv4SubnetLimits {
		cf.V4 = append(cf.V4, v.Level{Key: key(l.PrefixLength, "r"), Rate: int(math.Round(l.RPS * 10)), Burst: l.Burst})
		va.V4Len = append(va.V4Len, l.PrefixLength)
	}
	for _, l := range defaultIPv6SubnetLimits {
		cf.V6 = append(cf.V6, v.Level{Key: key(l.PrefixLength, "r"), Rate: int(math.Round(l.RPS * 10)), Burst: l.Burst})
		va.V6Len = append(va.V6Len, l.PrefixLength)
	}
	for _, l := range defaultNetworkPrefixLimits {
		var mem []string
		for n, ip := range va.Addr {
			if l.Prefix.Contains(ip) {
				mem = append(mem, n)
			}
		}
		if l.RPS != 0 {
			return nil, nil, fmt.Errorf("default network prefix limit %v is no longer unlimited", l)
		}
		cf.NP = append(cf.NP, v.NPc{Mem: mem})
		va.NP = append(va.NP, l.Prefix)
	}
	for _, l := range append(append([]NetworkPrefixLimit{}, DefaultNetworkPrefixLimitV4...), DefaultNetworkPrefixLimitV6...) {
		var mem []string
		for n, ip := range va.Addr {
			if l.Network.Contains(ip) {
				mem = append(mem, n)
			}
		}
		cf.CNP = append(cf.CNP, v.CNPc{Mem: mem, Cap: l.ConnCount})
		va.CNP = append(va.CNP, l.Network)
	}
	cf.C4 = []v.CLevel{{Key: key(defaultIP4Limit.PrefixLength, "c"), Cap: defaultIP4Limit.ConnCount}}
	va.C4Len = []int{defaultIP4Limit.PrefixLength}
	for _, l := range defaultIP6Limits {
		cf.C6 = append(cf.C6, v.CLevel{Key: key(l.PrefixLength, "c"), Cap: l.ConnCount})
		va.C6Len = append(va.C6Len, l.PrefixLength)
	}
	for _, f := range []string{"v4", "v6"} {
		for _, l := range cf.Levels(f) {
			if l.Rate <= 0 || cf.U%l.Rate != 0 {
				return nil, nil, fmt.Errorf("default subnet rate %v does not fit the ledger's units", l.Rate)
			}
		}
	}
	return cf, va, nil
}

func TestVerifC03rateDefaults(t *testing.T) {
	res := vfh.NewResult()
	res.Rule = "distinct = (address, result)"
	cf, va, err := vfC03rateDefaultConf()
	if err != nil {
		t.Fatal(err)
	}
	seqs := vfh.EnvInt("VERIF_C03RATE_DEFAULT_SEQS", 30)
	names := cf.Addrs()
	gaps := []time.Duration{0, 0, 0, 100 * time.Millisecond, time.Second, 5 * time.Second, 5 * time.Second, 30 * time.Second, 2 * time.Minute}
	for s := 0; s < seqs; s++ {
		rnd := rand.New(rand.NewSource(vfh.Seed()*15485863 + int64(s)))
		synctest.Test(t, func(t *testing.T) {
			m, err := NewResourceManager(NewFixedLimiter(InfiniteLimits), WithMetricsDisabled())
			if err != nil {
				t.Fatal(err)
			}
			rm := m.(*resourceManager)
			defer rm.Close()
			sut := &vfC03rateSUT{cf: cf, va: va, rm: rm, cl: rm.connLimiter, live: map[string][]network.ConnManagementScope{}}
			orc := v.NewOracle(cf, va.Tick)
			orc.Slack = 1000 // ns of refill: RPS 0.2 / 0.5 are not exact in float64
			led := v.NewConnLedger(cf)
			run := &vfC03rateRun{res: res, walk: s, cfg: map[string]any{"part": "defaults", "seq": s}}
			hot := names[rnd.Intn(len(names))]
			for i := 0; i < 400; i++ {
				a := names[rnd.Intn(len(names))]
				if rnd.Intn(3) > 0 {
					a = hot
				}
				if rnd.Intn(40) == 0 {
					hot = names[rnd.Intn(len(names))]
				}
				switch k := rnd.Intn(10); {
				case k < 6:
					got := sut.open(a, s+i)
					run.prefix = append(run.prefix, fmt.Sprintf("Open(%s)=%s", a, got))
					var fs []v.Finding
					if strings.HasPrefix(got, "other") {
						fs = append(fs, v.Finding{Class: "conn-open-unexpected-error", What: got})
					} else {
						fs = orc.Observe(a, got != "rate")
					}
					switch got {
					case "ok":
						fs = append(fs, led.Admit(a)...)
					case "conn":
						if ok, _ := led.Room(a); ok {
							fs = append(fs, v.Finding{Class: "conn-spurious-refusal", What: fmt.Sprintf("connection from %s=%v refused by the default connLimiter although every applicable bucket has room (live: %v)", a, va.Addr[a], led.Live)})
						}
					}
					for _, f := range fs {
						run.mism(f.Class, "[defaults] "+f.What, i, nil, got)
					}
					res.Case("defaults|" + a + "|" + got)
				case k < 8:
					if len(sut.live[a]) > 0 {
						sut.done(a, i%2 == 0)
						led.Release(a)
						run.prefix = append(run.prefix, fmt.Sprintf("Done(%s)", a))
					}
				default:
					d := gaps[rnd.Intn(len(gaps))]
					if d > 0 {
						time.Sleep(d)
						orc.Advance(d)
						run.prefix = append(run.prefix, "Sleep("+d.String()+")")
					}
				}
				if len(run.prefix) > 80 {
					run.prefix = run.prefix[len(run.prefix)-80:]
				}
				res.Count(0, 1)
			}
			if orc.Desync {
				res.Inc("defaults_sequences_desynced", 1)
			}
			res.Count(1, 0)
		})
	}
	if err := res.Write(); err != nil {
		t.Fatal(err)
	}
}
