//go:build verif

package rcmgr

// C03: checkMemory's priority arithmetic.  TLC evaluated the transcription of the function
// (C03_Rcmgr!CheckMemoryCode, spec/C03_MemGrid.tla) on a symbolic value grid; this test evaluates
// the REAL resources.checkMemory at the corresponding int64 points (M = MaxInt64) and compares
//   L2: with TLC's answer (the model follows the code),
//   L1: with the statement's rule computed in big integers: granted iff
//       memory+size <= limit*(1+prio)/256 ("unlimited" = MaxInt64 grants), refusals wrap
//       network.ErrResourceLimitExceeded -- for every priority 0..255, wherever the current usage
//       is itself within the limit.
// and runs the one end-to-end history in which the sum of the holders is not representable
// (regression for 64fc8f8: the second reservation must be refused).

import (
	"encoding/json"
	"errors"
	"fmt"
	"math"
	"math/big"
	"os"
	"path/filepath"
	"testing"

	"github.com/libp2p/go-libp2p/core/network"
	"github.com/libp2p/go-libp2p/internal/vfh"
)

type vfC03GridPt struct {
	L []any `json:"l"`
	M []any `json:"m"`
	R []any `json:"r"`
	P int   `json:"p"`
	G bool  `json:"g"`
}

func vfC03Sym(v []any, limit int64) (int64, bool) {
	base, _ := v[0].(string)
	off := int64(v[1].(float64))
	var b int64
	switch base {
	case "L":
		b = limit
	case "M":
		b = math.MaxInt64
	}
	if off > 0 && b > math.MaxInt64-off {
		return 0, false
	}
	if b+off < 0 {
		return 0, false
	}
	return b + off, true
}

func vfC03Ideal(mem, rsvp, limit int64, prio int) bool {
	if limit == math.MaxInt64 {
		// "unlimited": no priority scaling, but the total must still be a number the scope can report
		return mem <= math.MaxInt64-rsvp
	}
	thr := new(big.Int).Mul(big.NewInt(limit), big.NewInt(int64(1+prio)))
	thr.Div(thr, big.NewInt(256))
	sum := new(big.Int).Add(big.NewInt(mem), big.NewInt(rsvp))
	return sum.Cmp(thr) <= 0
}

func TestVerifC03CheckMemory(t *testing.T) {
	res := vfh.NewResult()
	res.Rule = "distinct = (limit, memory, size) value triples evaluated on the real checkMemory"
	defer func() {
		if err := res.Write(); err != nil {
			t.Fatal(err)
		}
	}()
	b, err := os.ReadFile(filepath.Join(vfh.In(), "grid.json"))
	if err != nil {
		t.Fatal(err)
	}
	var grid []vfC03GridPt
	if err := json.Unmarshal(b, &grid); err != nil {
		t.Fatal(err)
	}
	if len(grid) == 0 {
		t.Fatal("empty grid")
	}
	real := func(mem, rsvp, limit int64, prio int) (bool, error) {
		rc := resources{limit: &BaseLimit{Memory: limit}, memory: mem}
		err := rc.checkMemory(rsvp, uint8(prio))
		if rc.memory != mem {
			return err == nil, fmt.Errorf("checkMemory changed the usage")
		}
		return err == nil, err
	}
	steps := 0
	for i, g := range grid {
		limit, ok := vfC03Sym(g.L, 0)
		if !ok {
			t.Fatalf("grid point %d: bad limit", i)
		}
		mem, ok1 := vfC03Sym(g.M, limit)
		rsvp, ok2 := vfC03Sym(g.R, limit)
		if !ok1 || !ok2 {
			continue // the symbolic point does not exist in int64 (L+1 for L = MaxInt64)
		}
		pt := map[string]any{"limit": limit, "memory": mem, "size": rsvp, "prio": g.P}
		granted, _ := real(mem, rsvp, limit, g.P)
		steps++
		res.Case(fmt.Sprintf("%d/%d/%d", limit, mem, rsvp))
		if granted != g.G {
			res.AddMismatch(vfh.Mismatch{Class: "L2:checkmemory:model", What: fmt.Sprintf("checkMemory%v: transcription says granted=%v, code %v", pt, g.G, granted),
				Walk: -1, Step: i, Expected: g.G, Got: granted, Cfg: pt})
		}
		// the statement, for every priority, where the usage is legal
		if limit == math.MaxInt64 || mem <= limit {
			for p := 0; p <= 255; p++ {
				gr, e := real(mem, rsvp, limit, p)
				steps++
				pt := map[string]any{"limit": limit, "memory": mem, "size": rsvp, "prio": p}
				if want := vfC03Ideal(mem, rsvp, limit, p); gr != want {
					cls := "checkmemory:granted-beyond-scaled-limit"
					if want {
						cls = "checkmemory:spurious-refusal"
					} else if limit == math.MaxInt64 {
						cls = "bounds:reserve:unlimited-scope-memory-overflows-int64" // same defect as the end-to-end history below
					}
					res.AddMismatch(vfh.Mismatch{Class: cls, What: fmt.Sprintf("checkMemory%v: the statement's rule says granted=%v, the code %v (%v)", pt, want, gr, e),
						Walk: -1, Step: i, Expected: want, Got: gr, Cfg: pt})
				}
				if !gr && !errors.Is(e, network.ErrResourceLimitExceeded) {
					res.AddMismatch(vfh.Mismatch{Class: "checkmemory:error-class", What: fmt.Sprintf("checkMemory%v: refusal does not wrap ErrResourceLimitExceeded: %v", pt, e),
						Walk: -1, Step: i, Cfg: pt})
				}
			}
		}
	}
	res.Count(len(grid), steps)
	res.Sample(map[string]any{"grid_points": len(grid), "first": grid[0]})

	// End to end at the top of the range: an unlimited scope (limit MaxInt64) holds MaxInt64-1 bytes
	// and is asked for MaxInt64 more.  The holders' sum is not representable; the statement wants
	// the scope within [0, limit], i.e. the second reservation refused.
	cf := &vfC03Conf{Fam: "overflow", Inf: 1000000, Deflim: vfC03Lim{Mem: 1000000, Si: 9, So: 9, S: 9, Ci: 9, Co: 9, C: 9, Fd: 9}}
	cf.init()
	rm, err := cf.newMgr()
	if err != nil {
		t.Fatal(err)
	}
	defer rm.Close()
	var e1, e2 error
	var st network.ScopeStat
	rm.ViewSystem(func(s network.ResourceScope) error {
		e1 = s.ReserveMemory(math.MaxInt64-1, network.ReservationPriorityAlways)
		e2 = s.ReserveMemory(math.MaxInt64, network.ReservationPriorityAlways)
		st = s.Stat()
		return nil
	})
	res.Count(1, 2)
	if e1 != nil {
		res.AddMismatch(vfh.Mismatch{Class: "checkmemory:spurious-refusal", What: fmt.Sprintf("unlimited scope refused MaxInt64-1 bytes: %v", e1), Walk: -1})
	}
	if e2 != nil && !errors.Is(e2, network.ErrResourceLimitExceeded) {
		res.AddMismatch(vfh.Mismatch{Class: "checkmemory:error-class", What: fmt.Sprintf("unlimited scope: the refusal of the overflowing reservation does not wrap ErrResourceLimitExceeded: %v", e2), Walk: -1})
	}
	if st.Memory < 0 || (e2 == nil && st.Memory != math.MaxInt64-1) {
		res.AddMismatch(vfh.Mismatch{Class: "bounds:reserve:unlimited-scope-memory-overflows-int64",
			What: fmt.Sprintf("system scope with limit MaxInt64: ReserveMemory(MaxInt64-1) then ReserveMemory(MaxInt64) returned (%v, %v); Stat().Memory = %d", e1, e2, st.Memory),
			Walk: -1, Expected: "second reservation refused, memory = MaxInt64-1", Got: st.Memory,
			Prefix: []vfh.Op{{"name": "reserve", "h": "sys", "n": "MaxInt64-1", "prio": 255}, {"name": "reserve", "h": "sys", "n": "MaxInt64", "prio": 255}}})
	}
}

