//go:build verif

package rcmgr

// Conformance harness for C03 (resource manager: usage equals the sum of holders and never exceeds
// limits).
//
// TestVerifC03Replay executes covering walks of the sequential TLC state graphs of
// spec/C03_Rcmgr.tla on a real resource manager built with the model's limit table
// (NewFixedLimiter, connection rate limiter disabled, no metrics).  After EVERY step it reads
// Stat() of system, transient, the allow-listed variants, every service / protocol / peer scope
// and per-peer sub-scope, and of every connection, stream and span the walk created, and decides
//
//	L1 (violations): against the harness's own LEDGER of successful calls, written at the level of
//	   the statement (who holds what, which scopes constrain it): every scope reports the sum of
//	   what its live holders hold, within limits; a call is granted iff it fits everywhere; a
//	   refused call changed nothing and its error wraps network.ErrResourceLimitExceeded; a refused
//	   re-parenting leaves the object charged once in a consistent set; open connections per subnet
//	   within the cap; everything zero after the last holder is released.
//	L2 (divergences): equality with the model state (usage, edges, allow-listed flag, refCnt,
//	   connLimiter counters read in-package) and with the model's error class.

import (
	"bytes"
	"encoding/json"
	"errors"
	"fmt"
	"math"
	"math/rand"
	"net/netip"
	"os"
	"path/filepath"
	"sort"
	"strconv"
	"strings"
	"testing"

	"github.com/libp2p/go-libp2p/core/crypto"
	"github.com/libp2p/go-libp2p/core/network"
	"github.com/libp2p/go-libp2p/core/peer"
	"github.com/libp2p/go-libp2p/core/protocol"
	"github.com/libp2p/go-libp2p/internal/vfh"
	"github.com/libp2p/go-libp2p/x/rate"
	ma "github.com/multiformats/go-multiaddr"
)

// ---------------------------------------------------------------------------------------------
// configuration (the VFCONF record TLC printed)

// vfC03M is a JSON object that TLC renders as [] when empty.
type vfC03M[T any] map[string]T

func (m *vfC03M[T]) UnmarshalJSON(b []byte) error {
	if bytes.HasPrefix(bytes.TrimSpace(b), []byte("[")) {
		*m = map[string]T{}
		return nil
	}
	var x map[string]T
	err := json.Unmarshal(b, &x)
	*m = x
	return err
}

type vfC03Lim struct {
	Mem int64 `json:"mem"`
	Si  int   `json:"si"`
	So  int   `json:"so"`
	S   int   `json:"s"`
	Ci  int   `json:"ci"`
	Co  int   `json:"co"`
	C   int   `json:"c"`
	Fd  int   `json:"fd"`
}

type vfC03Conf struct {
	Fam       string             `json:"fam"`
	Inf       int64              `json:"inf"`
	Lim       vfC03M[vfC03Lim]   `json:"lim"`
	Deflim    vfC03Lim           `json:"deflim"`
	Conns     []string           `json:"conns"`
	Streams   []string           `json:"streams"`
	Spans     []string           `json:"spans"`
	Peers     []string           `json:"peers"`
	Protos    []string           `json:"protos"`
	Svcs      []string           `json:"svcs"`
	Eps       []string           `json:"eps"`
	Epb       vfC03M[[]string]   `json:"epb"`
	Cap       vfC03M[int]        `json:"cap"`
	AllowNet  []string           `json:"allownet"`
	AllowPeer [][]string         `json:"allowpeer"`
	named     []string           // every named scope of the instance (model names)
	pids      map[string]peer.ID // model peer -> real id
	real2mod  map[string]string  // real scope name -> model name
	limCache  map[string]vfC03Lim
	bucketPfx map[string]netip.Prefix
}

var vfC03EpAddr = map[string]string{
	"a1": "/ip4/1.2.3.4/tcp/1",
	"a2": "/ip4/1.2.3.5/tcp/1",
	"b1": "/ip4/4.5.6.7/tcp/1",
	"v6": "/ip6/2001:db8:0:100::1/tcp/1",
	"v7": "/ip6/2001:db8:0:200::1/tcp/1",
	"n0": "/dns4/example.com/tcp/1",
}
var vfC03EpIP = map[string]string{
	"a1": "1.2.3.4", "a2": "1.2.3.5", "b1": "4.5.6.7", "v6": "2001:db8:0:100::1", "v7": "2001:db8:0:200::1",
}

func vfC03PeerID(i int) peer.ID {
	priv, _, err := crypto.GenerateEd25519Key(rand.New(rand.NewSource(int64(1000 + i))))
	if err != nil {
		panic(err)
	}
	id, err := peer.IDFromPrivateKey(priv)
	if err != nil {
		panic(err)
	}
	return id
}

func vfC03Proto(x string) protocol.ID { return protocol.ID("/vf/" + x) }
func vfC03Svc(x string) string        { return "vf" + x }

func (cf *vfC03Conf) init() {
	cf.pids = map[string]peer.ID{}
	cf.real2mod = map[string]string{"system": "sys", "transient": "trans", "allowlistedSystem": "asys",
		"allowlistedTransient": "atrans"}
	cf.limCache = map[string]vfC03Lim{}
	cf.named = []string{"sys", "trans", "asys", "atrans"}
	sort.Strings(cf.Peers)
	for _, p := range cf.Peers {
		n, _ := strconv.Atoi(strings.TrimPrefix(p, "p"))
		cf.pids[p] = vfC03PeerID(n)
		cf.named = append(cf.named, "peer:"+p)
		cf.real2mod[peerScopeName(cf.pids[p])] = "peer:" + p
	}
	for _, x := range cf.Protos {
		cf.named = append(cf.named, "proto:"+x)
		cf.real2mod["protocol:"+string(vfC03Proto(x))] = "proto:" + x
		for _, p := range cf.Peers {
			cf.named = append(cf.named, "proto:"+x+".peer:"+p)
			cf.real2mod[fmt.Sprintf("protocol:%s.peer:%s", vfC03Proto(x), cf.pids[p])] = "proto:" + x + ".peer:" + p
		}
	}
	for _, x := range cf.Svcs {
		cf.named = append(cf.named, "svc:"+x)
		cf.real2mod["service:"+vfC03Svc(x)] = "svc:" + x
		for _, p := range cf.Peers {
			cf.named = append(cf.named, "svc:"+x+".peer:"+p)
			cf.real2mod[fmt.Sprintf("service:%s.peer:%s", vfC03Svc(x), cf.pids[p])] = "svc:" + x + ".peer:" + p
		}
	}
	cf.bucketPfx = map[string]netip.Prefix{}
	for ep, bs := range cf.Epb {
		for _, b := range bs {
			ip := netip.MustParseAddr(vfC03EpIP[ep])
			if strings.HasPrefix(b, "np:") {
				cf.bucketPfx[b] = netip.PrefixFrom(ip, ip.BitLen())
				continue
			}
			bits, _ := strconv.Atoi(b[strings.Index(b, "/")+1:])
			pfx, _ := ip.Prefix(bits)
			cf.bucketPfx[b] = pfx
		}
	}
}

// limit class of a scope: the per-peer sub-scopes share "proto:a.peer" / "svc:x.peer"
func (cf *vfC03Conf) limKey(scope string) string {
	if i := strings.Index(scope, ".peer:"); i >= 0 {
		return scope[:i] + ".peer"
	}
	return scope
}

func (cf *vfC03Conf) lim(key string) vfC03Lim {
	if l, ok := cf.limCache[key]; ok {
		return l
	}
	l, ok := cf.Lim[cf.limKey(key)]
	if !ok {
		l = cf.Deflim
	}
	cf.limCache[key] = l
	return l
}

func (cf *vfC03Conf) base(key string) BaseLimit {
	l := cf.lim(key)
	cv := func(n int) int {
		if int64(n) == cf.Inf {
			return math.MaxInt
		}
		return n
	}
	mem := l.Mem
	if mem == cf.Inf {
		mem = math.MaxInt64
	}
	return BaseLimit{Streams: cv(l.S), StreamsInbound: cv(l.Si), StreamsOutbound: cv(l.So), Conns: cv(l.C),
		ConnsInbound: cv(l.Ci), ConnsOutbound: cv(l.Co), FD: cv(l.Fd), Memory: mem}
}

func (cf *vfC03Conf) allowedNet(ep string) bool {
	for _, e := range cf.AllowNet {
		if e == ep {
			return true
		}
	}
	return false
}
func (cf *vfC03Conf) allowedFor(ep, p string) bool {
	if cf.allowedNet(ep) {
		return true
	}
	for _, q := range cf.AllowPeer {
		if q[0] == ep && q[1] == p {
			return true
		}
	}
	return false
}
func (cf *vfC03Conf) allowedAny(ep string) bool {
	if cf.allowedNet(ep) {
		return true
	}
	for _, q := range cf.AllowPeer {
		if q[0] == ep {
			return true
		}
	}
	return false
}
func (cf *vfC03Conf) hasIP(ep string) bool { _, ok := vfC03EpIP[ep]; return ok }

// newMgr builds the real manager from the instance's tables.
func (cf *vfC03Conf) newMgr(extra ...Option) (*resourceManager, error) {
	cfg := ConcreteLimitConfig{
		system: cf.base("sys"), transient: cf.base("trans"),
		allowlistedSystem: cf.base("asys"), allowlistedTransient: cf.base("atrans"),
		serviceDefault: cf.base("svc:?"), service: map[string]BaseLimit{},
		servicePeerDefault: cf.base("svc:?.peer"), servicePeer: map[string]BaseLimit{},
		protocolDefault: cf.base("proto:?"), protocol: map[protocol.ID]BaseLimit{},
		protocolPeerDefault: cf.base("proto:?.peer"), protocolPeer: map[protocol.ID]BaseLimit{},
		peerDefault: cf.base("peer:?"), peer: map[peer.ID]BaseLimit{},
		conn: cf.base("conn"), stream: cf.base("stream"),
	}
	for _, p := range cf.Peers {
		cfg.peer[cf.pids[p]] = cf.base("peer:" + p)
	}
	for _, x := range cf.Protos {
		cfg.protocol[vfC03Proto(x)] = cf.base("proto:" + x)
		cfg.protocolPeer[vfC03Proto(x)] = cf.base("proto:" + x + ".peer")
	}
	for _, x := range cf.Svcs {
		cfg.service[vfC03Svc(x)] = cf.base("svc:" + x)
		cfg.servicePeer[vfC03Svc(x)] = cf.base("svc:" + x + ".peer")
	}
	// connLimiter tables from the bucket names: "x/NN" = per-subnet limit of prefix length NN,
	// "np:ep" = network prefix limit for that endpoint's address
	sub4, sub6 := map[int]int{}, map[int]int{}
	np4, np6 := []NetworkPrefixLimit{}, []NetworkPrefixLimit{}
	for b, c := range cf.Cap {
		pfx := cf.bucketPfx[b]
		if strings.HasPrefix(b, "np:") {
			l := NetworkPrefixLimit{Network: pfx, ConnCount: c}
			if pfx.Addr().Is6() {
				np6 = append(np6, l)
			} else {
				np4 = append(np4, l)
			}
			continue
		}
		m := sub4
		if pfx.Addr().Is6() {
			m = sub6
		}
		if old, ok := m[pfx.Bits()]; ok && old != c {
			return nil, fmt.Errorf("instance gives two caps to prefix length %d", pfx.Bits())
		}
		m[pfx.Bits()] = c
	}
	mk := func(m map[int]int) []ConnLimitPerSubnet {
		out := []ConnLimitPerSubnet{}
		for bits, c := range m {
			out = append(out, ConnLimitPerSubnet{PrefixLength: bits, ConnCount: c})
		}
		sort.Slice(out, func(i, j int) bool { return out[i].PrefixLength > out[j].PrefixLength })
		return out
	}
	var allow []ma.Multiaddr
	for _, ep := range cf.AllowNet {
		v := "/ip4/"
		if strings.Contains(vfC03EpIP[ep], ":") {
			v = "/ip6/"
		}
		allow = append(allow, ma.StringCast(v+vfC03EpIP[ep]))
		found := false
		for _, b := range cf.Epb[ep] {
			found = found || strings.HasPrefix(b, "np:")
		}
		if !found {
			return nil, fmt.Errorf("allow-listed network %s needs an explicit np: bucket (NewResourceManager would register one)", ep)
		}
	}
	for _, q := range cf.AllowPeer {
		v := "/ip4/"
		if strings.Contains(vfC03EpIP[q[0]], ":") {
			v = "/ip6/"
		}
		allow = append(allow, ma.StringCast(v+vfC03EpIP[q[0]]+"/p2p/"+cf.pids[q[1]].String()))
	}
	opts := []Option{WithMetricsDisabled(), WithConnRateLimiters(&rate.Limiter{}),
		WithLimitPerSubnet(mk(sub4), mk(sub6)), WithNetworkPrefixLimit(np4, np6), WithAllowlistedMultiaddrs(allow)}
	opts = append(opts, extra...)
	m, err := NewResourceManager(NewFixedLimiter(cfg), opts...)
	if err != nil {
		return nil, err
	}
	return m.(*resourceManager), nil
}

// ---------------------------------------------------------------------------------------------
// usage vectors

type vfC03Vec [6]int64 // mem, streams in, streams out, conns in, conns out, fd

func vfC03FromStat(s network.ScopeStat) vfC03Vec {
	return vfC03Vec{s.Memory, int64(s.NumStreamsInbound), int64(s.NumStreamsOutbound), int64(s.NumConnsInbound),
		int64(s.NumConnsOutbound), int64(s.NumFD)}
}
func (a vfC03Vec) add(b vfC03Vec) vfC03Vec {
	for i := range a {
		a[i] += b[i]
	}
	return a
}
func (a vfC03Vec) zero() bool { return a == vfC03Vec{} }

func vfC03ConnVec(dir string, fd bool) vfC03Vec {
	v := vfC03Vec{}
	if dir == "in" {
		v[3] = 1
	} else {
		v[4] = 1
	}
	if fd {
		v[5] = 1
	}
	return v
}
func vfC03StrVec(dir string) vfC03Vec {
	v := vfC03Vec{}
	if dir == "in" {
		v[1] = 1
	} else {
		v[2] = 1
	}
	return v
}
func vfC03Dir(d string) network.Direction {
	if d == "in" {
		return network.DirInbound
	}
	return network.DirOutbound
}

// within reports whether usage u respects limit l (the statement's Bounds clause).
func (cf *vfC03Conf) within(u vfC03Vec, l vfC03Lim) bool {
	for _, x := range u {
		if x < 0 {
			return false
		}
	}
	if l.Mem != cf.Inf && u[0] > l.Mem {
		return false
	}
	return u[1] <= int64(l.Si) && u[2] <= int64(l.So) && u[1]+u[2] <= int64(l.S) &&
		u[3] <= int64(l.Ci) && u[4] <= int64(l.Co) && u[3]+u[4] <= int64(l.C) && u[5] <= int64(l.Fd)
}

// fits: would usage u plus d still respect l, memory scaled by priority (statement level)?
func (cf *vfC03Conf) fits(u, d vfC03Vec, l vfC03Lim, prio int) bool {
	n := u.add(d)
	if d[0] > 0 || prio < 255 {
		if l.Mem != cf.Inf && n[0] > l.Mem*int64(1+prio)/256 {
			return false
		}
	}
	if d[1] > 0 && n[1] > int64(l.Si) || d[2] > 0 && n[2] > int64(l.So) || (d[1]+d[2] > 0) && n[1]+n[2] > int64(l.S) {
		return false
	}
	if d[3] > 0 && n[3] > int64(l.Ci) || d[4] > 0 && n[4] > int64(l.Co) || (d[3]+d[4] > 0) && n[3]+n[4] > int64(l.C) {
		return false
	}
	if d[5] > 0 && n[5] > int64(l.Fd) {
		return false
	}
	return true
}

// ---------------------------------------------------------------------------------------------
// the ledger: who holds what, according to the calls that succeeded

type vfC03LObj struct {
	kind  string // conn, stream, span
	open  bool
	unit  vfC03Vec // the connection / stream itself
	ep    string
	al    bool     // charged to the allow-listed variants
	peer  string
	proto string
	svc   string
	set   []string // named scopes that constrain it
	owner string   // span: the scope it was begun on
	held  int64    // memory reserved through this handle and not released
}

type vfC03Ledger struct {
	cf     *vfC03Conf
	objs   map[string]*vfC03LObj
	order  []string
	direct map[string]int64 // View-scope reservations
}

func vfC03NewLedger(cf *vfC03Conf) *vfC03Ledger {
	return &vfC03Ledger{cf: cf, objs: map[string]*vfC03LObj{}, direct: map[string]int64{}}
}

func (lg *vfC03Ledger) isObj(x string) bool { _, ok := lg.objs[x]; return ok }
func (lg *vfC03Ledger) closed(x string) bool {
	o, ok := lg.objs[x]
	return ok && !o.open
}
func (lg *vfC03Ledger) heldOf(x string) int64 {
	if o, ok := lg.objs[x]; ok {
		return o.held
	}
	return lg.direct[x]
}

// memUnder: memory reserved through x or through spans still attached to it
func (lg *vfC03Ledger) memUnder(x string) int64 {
	m := lg.heldOf(x)
	for _, id := range lg.order {
		o := lg.objs[id]
		if o.kind == "span" && o.open && o.owner == x {
			m += lg.memUnder(id)
		}
	}
	return m
}

func vfC03NamedEdges(s string) []string {
	switch {
	case s == "sys" || s == "asys" || strings.Contains(s, ".peer:"):
		return nil
	case s == "atrans":
		return []string{"asys"}
	default:
		return []string{"sys"}
	}
}

func (lg *vfC03Ledger) total(id string) vfC03Vec {
	o := lg.objs[id]
	v := o.unit
	v[0] += lg.memUnder(id)
	return v
}

// expected usage of scope x = the sum of what its holders hold
func (lg *vfC03Ledger) expected(x string) vfC03Vec {
	if o, ok := lg.objs[x]; ok {
		if !o.open {
			return vfC03Vec{}
		}
		if o.kind == "span" {
			return vfC03Vec{lg.memUnder(x)}
		}
		return lg.total(x)
	}
	v := vfC03Vec{lg.memUnder(x)}
	for _, id := range lg.order {
		o := lg.objs[id]
		if o.kind == "span" || !o.open {
			continue
		}
		for _, s := range o.set {
			if s == x {
				v = v.add(lg.total(id))
			}
		}
	}
	for _, s := range lg.cf.named {
		for _, e := range vfC03NamedEdges(s) {
			if e == x {
				v[0] += lg.memUnder(s)
			}
		}
	}
	return v
}

func (lg *vfC03Ledger) limOf(x string) vfC03Lim {
	if o, ok := lg.objs[x]; ok {
		switch o.kind {
		case "conn":
			return lg.cf.lim("conn")
		case "stream":
			return lg.cf.lim("stream")
		default:
			return lg.limOf(o.owner)
		}
	}
	return lg.cf.lim(x)
}

// chain from a handle up to the scope whose parents are the named scopes
func (lg *vfC03Ledger) chain(h string) []string {
	out := []string{h}
	for {
		o, ok := lg.objs[h]
		if !ok || o.kind != "span" {
			return out
		}
		h = o.owner
		out = append(out, h)
	}
}

func (lg *vfC03Ledger) rootSet(root string) []string {
	if o, ok := lg.objs[root]; ok {
		return o.set
	}
	return vfC03NamedEdges(root)
}

func (lg *vfC03Ledger) fitsAll(scopes []string, d vfC03Vec, prio int) bool {
	for _, s := range scopes {
		if !lg.cf.fits(lg.expected(s), d, lg.limOf(s), prio) {
			return false
		}
	}
	return true
}

// open connections counted per connLimiter bucket, the way the statement counts them
func (lg *vfC03Ledger) perBucket() (map[string]int, map[string]bool) {
	n, al := map[string]int{}, map[string]bool{}
	for _, id := range lg.order {
		o := lg.objs[id]
		if o.kind != "conn" || !o.open {
			continue
		}
		for _, b := range lg.cf.Epb[o.ep] {
			n[b]++
			al[b] = al[b] || o.al
		}
	}
	return n, al
}

// ---------------------------------------------------------------------------------------------
// model state

type vfC03State struct {
	Use  vfC03M[[6]int64] `json:"use"`
	Obj  vfC03M[[]any]    `json:"obj"`
	Cnt  vfC03M[int]      `json:"cnt"`
	Ref  vfC03M[int]      `json:"ref"`
	Held vfC03M[int64]    `json:"held"`
}

// ---------------------------------------------------------------------------------------------
// one execution of a walk on a real manager

type vfC03Scope interface {
	ReserveMemory(size int, prio uint8) error
	ReleaseMemory(size int)
	Stat() network.ScopeStat
	BeginSpan() (network.ResourceScopeSpan, error)
}

type vfC03Run struct {
	cf      *vfC03Conf
	rm      *resourceManager
	lg      *vfC03Ledger
	handles map[string]vfC03Scope
	res     *vfh.Result
	walk    int
	step    int
	prefix  []vfh.Op
	dead    bool // an L1 sum failure desynchronised ledger and manager: stop judging this walk
	cfgDump map[string]any
	last    map[string]vfC03Vec // the usage every scope reported after the previous step
	// "handle|call": that re-parenting call was refused for a limit on that object earlier in the walk
	refusedBefore map[string]bool
}

func vfC03ErrClass(err error) string {
	switch {
	case err == nil:
		return "nil"
	case errors.Is(err, network.ErrResourceLimitExceeded):
		return "limit"
	case errors.Is(err, network.ErrResourceScopeClosed):
		return "closed"
	default:
		return "other"
	}
}

func (r *vfC03Run) view(name string, f func(network.ResourceScope) error) error {
	switch {
	case name == "sys":
		return r.rm.ViewSystem(f)
	case name == "trans":
		return r.rm.ViewTransient(f)
	case strings.HasPrefix(name, "peer:"):
		return r.rm.ViewPeer(r.cf.pids[name[5:]], func(s network.PeerScope) error { return f(s) })
	case strings.HasPrefix(name, "proto:"):
		return r.rm.ViewProtocol(vfC03Proto(name[6:]), func(s network.ProtocolScope) error { return f(s) })
	case strings.HasPrefix(name, "svc:"):
		return r.rm.ViewService(vfC03Svc(name[4:]), func(s network.ServiceScope) error { return f(s) })
	}
	return fmt.Errorf("no view for %s", name)
}

// statOf reads the usage a scope reports.  Public API wherever there is one; the allow-listed
// variants and the per-peer sub-scopes have none and are read in-package.
func (r *vfC03Run) statOf(name string) vfC03Vec {
	if h, ok := r.handles[name]; ok {
		return vfC03FromStat(h.Stat())
	}
	switch {
	case name == "asys":
		return vfC03FromStat(r.rm.allowlistedSystem.Stat())
	case name == "atrans":
		return vfC03FromStat(r.rm.allowlistedTransient.Stat())
	case strings.Contains(name, ".peer:"):
		i := strings.Index(name, ".peer:")
		top, p := name[:i], r.cf.pids[name[i+6:]]
		var sub *resourceScope
		r.rm.mx.Lock()
		if strings.HasPrefix(top, "proto:") {
			if ps, ok := r.rm.proto[vfC03Proto(top[6:])]; ok {
				ps.Lock()
				sub = ps.peers[p]
				ps.Unlock()
			}
		} else if ss, ok := r.rm.svc[vfC03Svc(top[4:])]; ok {
			ss.Lock()
			sub = ss.peers[p]
			ss.Unlock()
		}
		r.rm.mx.Unlock()
		if sub == nil {
			return vfC03Vec{}
		}
		return vfC03FromStat(sub.Stat())
	}
	var v vfC03Vec
	r.view(name, func(s network.ResourceScope) error { v = vfC03FromStat(s.Stat()); return nil })
	return v
}

func (r *vfC03Run) mismatch(class, what string, exp, got any) {
	r.res.AddMismatch(vfh.Mismatch{Class: class, What: what, Walk: r.walk, Step: r.step, Expected: exp, Got: got,
		Prefix: append([]vfh.Op(nil), r.prefix...), Cfg: r.cfgOf()})
}

func (r *vfC03Run) cfgOf() map[string]any {
	if r.cfgDump != nil {
		return r.cfgDump
	}
	return map[string]any{"fam": r.cf.Fam}
}

// universe of scopes read after every step
func (r *vfC03Run) scopes() []string {
	out := append([]string(nil), r.cf.named...)
	return append(out, r.lg.order...)
}

func (r *vfC03Run) snapshot() map[string]vfC03Vec {
	m := map[string]vfC03Vec{}
	for _, s := range r.scopes() {
		m[s] = r.statOf(s)
	}
	return m
}

// exec performs one model op on the real manager and returns the error class.
func (r *vfC03Run) exec(op vfh.Op) (string, error) {
	h := op.S("h")
	switch op.Name() {
	case "openconn":
		sc, err := r.rm.OpenConnection(vfC03Dir(op.S("dir")), op.B("fd"), ma.StringCast(vfC03EpAddr[op.S("ep")]))
		if err == nil {
			r.handles[op.S("id")] = sc
		}
		return vfC03ErrClass(err), err
	case "openstream":
		sc, err := r.rm.OpenStream(r.cf.pids[op.S("peer")], vfC03Dir(op.S("dir")))
		if err == nil {
			r.handles[op.S("id")] = sc
		}
		return vfC03ErrClass(err), err
	case "setpeer":
		err := r.handles[h].(network.ConnManagementScope).SetPeer(r.cf.pids[op.S("peer")])
		return vfC03ErrClass(err), err
	case "setprotocol":
		err := r.handles[h].(network.StreamManagementScope).SetProtocol(vfC03Proto(op.S("proto")))
		return vfC03ErrClass(err), err
	case "setservice":
		err := r.handles[h].(network.StreamManagementScope).SetService(vfC03Svc(op.S("svc")))
		return vfC03ErrClass(err), err
	case "reserve":
		var err error
		if sc, ok := r.handles[h]; ok {
			err = sc.ReserveMemory(op.I("n"), uint8(op.I("prio")))
		} else {
			err = r.view(h, func(s network.ResourceScope) error { return s.ReserveMemory(op.I("n"), uint8(op.I("prio"))) })
		}
		return vfC03ErrClass(err), err
	case "release":
		if sc, ok := r.handles[h]; ok {
			sc.ReleaseMemory(op.I("n"))
		} else {
			r.view(h, func(s network.ResourceScope) error { s.ReleaseMemory(op.I("n")); return nil })
		}
		return "nil", nil
	case "beginspan":
		var sp network.ResourceScopeSpan
		var err error
		if sc, ok := r.handles[h]; ok {
			sp, err = sc.BeginSpan()
		} else {
			err = r.view(h, func(s network.ResourceScope) error { var e error; sp, e = s.BeginSpan(); return e })
		}
		if err == nil {
			r.handles[op.S("id")] = sp
		}
		return vfC03ErrClass(err), err
	case "done":
		r.handles[h].(interface{ Done() }).Done()
		return "nil", nil
	case "gc":
		r.rm.gc()
		return "nil", nil
	}
	panic("unknown op " + op.Name())
}

// expect computes, from the ledger alone, the outcomes the statement allows for op and what a
// success means for the ledger.  An empty allowed set means "anything, as long as nothing changes".
func (r *vfC03Run) expect(op vfh.Op) (allowed []string, apply func()) {
	lg, cf := r.lg, r.cf
	h := op.S("h")
	switch op.Name() {
	case "openconn":
		ep, id := op.S("ep"), op.S("id")
		unit := vfC03ConnVec(op.S("dir"), op.B("fd"))
		mk := func(al bool, set []string) func() {
			return func() {
				lg.objs[id] = &vfC03LObj{kind: "conn", open: true, unit: unit, ep: ep, al: al, set: set}
				lg.order = append(lg.order, id)
			}
		}
		counts, _ := lg.perBucket()
		for _, b := range cf.Epb[ep] {
			if counts[b]+1 > cf.Cap[b] {
				// the statement wants a refusal; what the code does is judged by the subnet monitor
				return []string{"other", "limit", "nil"}, r.openConnAs(id, unit, ep) // any refusal will do
			}
		}
		own := cf.fits(vfC03Vec{}, unit, cf.lim("conn"), 255)
		if own && lg.fitsAll([]string{"trans", "sys"}, unit, 255) {
			return []string{"nil"}, mk(false, []string{"trans", "sys"})
		}
		if cf.hasIP(ep) && cf.allowedAny(ep) && own && lg.fitsAll([]string{"atrans", "asys"}, unit, 255) {
			return []string{"nil"}, mk(true, []string{"atrans", "asys"})
		}
		return []string{"limit"}, nil
	case "openstream":
		id, p := op.S("id"), op.S("peer")
		unit := vfC03StrVec(op.S("dir"))
		set := []string{"peer:" + p, "trans", "sys"}
		if cf.fits(vfC03Vec{}, unit, cf.lim("stream"), 255) && lg.fitsAll(set, unit, 255) {
			return []string{"nil"}, func() {
				lg.objs[id] = &vfC03LObj{kind: "stream", open: true, unit: unit, peer: p, set: set}
				lg.order = append(lg.order, id)
			}
		}
		return []string{"limit"}, nil
	case "setpeer":
		o, p := lg.objs[h], op.S("peer")
		if o.peer != "" {
			return []string{"other"}, nil
		}
		if !o.open {
			return nil, func() { o.peer = p }
		}
		tot := lg.total(h)
		if o.al && !cf.allowedFor(o.ep, p) {
			// transfer to the standard scopes first; a refusal may leave it in either consistent set
			if !lg.fitsAll([]string{"sys", "trans"}, tot, 255) {
				return []string{"limit"}, nil
			}
			if !lg.fitsAll([]string{"peer:" + p}, tot, 255) {
				return []string{"limit"}, nil
			}
			return []string{"nil"}, func() { o.al, o.peer, o.set = false, p, []string{"peer:" + p, "sys"} }
		}
		if !lg.fitsAll([]string{"peer:" + p}, tot, 255) {
			return []string{"limit"}, nil
		}
		sys := "sys"
		if o.al {
			sys = "asys"
		}
		return []string{"nil"}, func() { o.peer, o.set = p, []string{"peer:" + p, sys} }
	case "setprotocol":
		o, x := lg.objs[h], op.S("proto")
		if o.proto != "" {
			return []string{"other"}, nil
		}
		if !o.open {
			return nil, func() { o.proto = x }
		}
		add := []string{"proto:" + x, "proto:" + x + ".peer:" + o.peer}
		if !lg.fitsAll(add, lg.total(h), 255) {
			return []string{"limit"}, nil
		}
		return []string{"nil"}, func() { o.proto, o.set = x, append([]string{"peer:" + o.peer, "sys"}, add...) }
	case "setservice":
		o, x := lg.objs[h], op.S("svc")
		if o.svc != "" || o.proto == "" {
			return []string{"other"}, nil
		}
		if !o.open {
			return nil, func() { o.svc = x }
		}
		add := []string{"svc:" + x, "svc:" + x + ".peer:" + o.peer}
		if !lg.fitsAll(add, lg.total(h), 255) {
			return []string{"limit"}, nil
		}
		return []string{"nil"}, func() { o.svc, o.set = x, append(append([]string(nil), o.set...), add...) }
	case "reserve":
		n, prio := int64(op.I("n")), op.I("prio")
		ch := lg.chain(h)
		reasons := map[string]bool{}
		for _, x := range ch {
			if lg.closed(x) {
				reasons["closed"] = true
			}
		}
		scopes := append(append([]string(nil), ch...), lg.rootSet(ch[len(ch)-1])...)
		if !lg.fitsAll(scopes, vfC03Vec{n}, prio) {
			reasons["limit"] = true
		}
		grant := func() {
			if o, ok := lg.objs[h]; ok {
				o.held += n
			} else {
				lg.direct[h] += n
			}
		}
		if len(reasons) == 0 {
			return []string{"nil"}, grant
		}
		if n == 0 && !reasons["closed"] {
			return []string{"nil", "limit"}, grant // a zero-size reservation above the scaled threshold: either way
		}
		for k := range reasons {
			allowed = append(allowed, k)
		}
		return allowed, nil
	case "release":
		n := int64(op.I("n"))
		return []string{"nil"}, func() {
			if o, ok := lg.objs[h]; ok {
				if o.open {
					o.held -= n
				}
			} else {
				lg.direct[h] -= n
			}
		}
	case "beginspan":
		id := op.S("id")
		if lg.closed(h) {
			return []string{"closed"}, nil
		}
		return []string{"nil"}, func() {
			lg.objs[id] = &vfC03LObj{kind: "span", open: true, owner: h}
			lg.order = append(lg.order, id)
		}
	case "done":
		return []string{"nil"}, func() { o := lg.objs[h]; o.open, o.held = false, 0 }
	case "gc":
		return []string{"nil"}, func() {}
	}
	panic("unknown op " + op.Name())
}

// openConnAs: a connection the statement wanted refused (subnet cap) was admitted: record it where
// the manager's own usage says it went, so that the sum clause keeps being judged.
func (r *vfC03Run) openConnAs(id string, unit vfC03Vec, ep string) func() {
	return func() {
		al := r.rm.allowlistedSystem.Stat().NumConnsInbound+r.rm.allowlistedSystem.Stat().NumConnsOutbound >
			int(r.lg.expected("asys")[3]+r.lg.expected("asys")[4])
		set := []string{"trans", "sys"}
		if al {
			set = []string{"atrans", "asys"}
		}
		r.lg.objs[id] = &vfC03LObj{kind: "conn", open: true, unit: unit, ep: ep, al: al, set: set}
		r.lg.order = append(r.lg.order, id)
	}
}

func vfC03Subset(xs, ys []string) bool {
	for _, x := range xs {
		if !vfC03In(ys, x) {
			return false
		}
	}
	return true
}

func vfC03In(xs []string, x string) bool {
	for _, y := range xs {
		if x == y {
			return true
		}
	}
	return false
}

// class key of an L1 failure: clause, call, and the history feature that distinguishes the classes
// recorded as known findings from anything else
func (r *vfC03Run) l1class(clause string, op vfh.Op, refused bool, bad []string) string {
	switch {
	case clause == "sum" && op.Name() == "gc" && r.onlyDirectMemoryCollected(bad):
		return "sum:gc:scope-holding-only-reserved-memory-collected"
	case clause == "sum" && op.Name() == "setpeer" && refused && r.lg.objs[op.S("h")].al &&
		vfC03Subset(bad, []string{"asys", "atrans"}):
		// a refused SetPeer of an allow-listed connection left it charged in NO scope (only the allow-listed
		// scopes lost it, nothing else moved): the open finding; anything else is a new class
		return "reparent:setpeer:refused-transfer-from-allowlisted-scopes"
	case clause == "sum" && vfC03In([]string{"setpeer", "setprotocol", "setservice"}, op.Name()) && r.refusedBefore[op.S("h")+"|"+op.Name()]:
		// the same re-parenting call had been refused on this object before: the retry is not charged
		// exactly once in a consistent set of scopes
		return "reparent:" + op.Name() + ":retry-after-refusal-inconsistent-charge"
	}
	k := clause + ":" + op.Name()
	if refused {
		k += ":refused"
	}
	return k
}

// the scopes whose sum failed after a GC are exactly peer/protocol scopes that held nothing but a
// View reservation (and system, which they were released from)
func (r *vfC03Run) onlyDirectMemoryCollected(bad []string) bool {
	any := false
	for _, s := range bad {
		if s == "sys" {
			continue
		}
		if !(strings.HasPrefix(s, "peer:") || strings.HasPrefix(s, "proto:")) || strings.Contains(s, ".peer:") {
			return false
		}
		e := r.lg.expected(s)
		if e[0] == 0 || e[0] != r.lg.direct[s] || e != (vfC03Vec{e[0]}) {
			return false
		}
		any = true
	}
	return any
}

// step executes one op and applies every L1 monitor; model equality (L2) is done by the caller.
func (r *vfC03Run) doStep(op vfh.Op) string {
	if r.dead {
		return "dead"
	}
	r.prefix = append(r.prefix, op)
	before := r.last
	if before == nil {
		before = r.snapshot()
	}
	allowed, apply := r.expect(op)
	got, err := r.exec(op)
	refused := got != "nil"
	if !r.dead && allowed != nil && !vfC03In(allowed, got) {
		what := fmt.Sprintf("%s: the statement allows outcome %v, the manager returned %q (%v)", vfC03OpStr(op), allowed, got, err)
		cls := "outcome:" + op.Name() + ":"
		switch {
		case got == "nil":
			cls += "granted-beyond-limit"
		case vfC03In(allowed, "nil"):
			cls += "spurious-refusal"
		default:
			cls += "error-class"
		}
		r.mismatch(cls, what, allowed, got)
		r.dead = true // ledger and manager now disagree about what exists: stop judging this walk
		return got
	}
	if !refused && apply != nil {
		apply()
	}
	// Sum + Bounds on every scope
	after := r.snapshot()
	r.last = after
	var bad []string
	for _, s := range r.scopes() {
		if after[s] != r.lg.expected(s) {
			bad = append(bad, s)
		}
	}
	moved := false
	if len(bad) > 0 && refused && op.Name() == "setpeer" && r.lg.objs[op.S("h")].al {
		// a refused SetPeer of an allow-listed connection may have moved it to the standard scopes
		o := r.lg.objs[op.S("h")]
		save := *o
		o.al, o.set = false, []string{"trans", "sys"}
		ok := true
		for _, s := range r.scopes() {
			ok = ok && after[s] == r.lg.expected(s)
		}
		if ok {
			bad = nil
			moved = true // charged exactly once in the other consistent set: what the statement asks of a refused re-parenting
		} else {
			*o = save
		}
	}
	if len(bad) > 0 {
		exp := map[string]vfC03Vec{}
		gotm := map[string]vfC03Vec{}
		for _, s := range bad {
			exp[s], gotm[s] = r.lg.expected(s), after[s]
		}
		what := fmt.Sprintf("after %s (returned %s): scopes %v do not report the sum of what their holders hold", vfC03OpStr(op), got, bad)
		if refused {
			what += " (a refused call must change nothing)"
		}
		r.mismatch(r.l1class("sum", op, refused, bad), what, exp, gotm)
		r.dead = true
		return got
	}
	if refused && !moved {
		for _, s := range r.scopes() {
			if b, ok := before[s]; ok && b != after[s] {
				r.mismatch("allornothing:"+op.Name(), fmt.Sprintf("refused %s changed scope %s", vfC03OpStr(op), s), b, after[s])
			}
		}
	}
	for _, s := range r.scopes() {
		if !r.cf.within(after[s], r.lg.limOf(s)) {
			r.mismatch("bounds:"+op.Name(), fmt.Sprintf("after %s scope %s reports %v beyond its limit %+v", vfC03OpStr(op), s, after[s], r.lg.limOf(s)), r.lg.limOf(s), after[s])
		}
	}
	// per-subnet cap over the connections the ledger knows to be open
	counts, al := r.lg.perBucket()
	for b, n := range counts {
		if n > r.cf.Cap[b] {
			cls := "subnet-cap:exceeded"
			if al[b] {
				cls = "subnet-cap:allowlisted-connection-not-counted"
			}
			r.mismatch(cls, fmt.Sprintf("after %s: %d connections open from subnet %s (%s), cap %d", vfC03OpStr(op), n, b, r.cf.bucketPfx[b], r.cf.Cap[b]), r.cf.Cap[b], n)
		}
	}
	// the aggregate Stat() agrees with the views
	st := r.rm.Stat()
	agg := map[string]vfC03Vec{"sys": vfC03FromStat(st.System), "trans": vfC03FromStat(st.Transient)}
	for _, p := range r.cf.Peers {
		agg["peer:"+p] = vfC03FromStat(st.Peers[r.cf.pids[p]])
	}
	for _, x := range r.cf.Protos {
		agg["proto:"+x] = vfC03FromStat(st.Protocols[vfC03Proto(x)])
	}
	for _, x := range r.cf.Svcs {
		agg["svc:"+x] = vfC03FromStat(st.Services[vfC03Svc(x)])
	}
	for s, v := range agg {
		if v != after[s] {
			r.mismatch("sum:aggregate-stat", fmt.Sprintf("ResourceManagerState.Stat() and the view of %s disagree after %s", s, vfC03OpStr(op)), after[s], v)
		}
	}
	r.noteRefusal(op, got)
	return got
}

// noteRefusal remembers a re-parenting call refused for a limit (the retry gets its own class key)
func (r *vfC03Run) noteRefusal(op vfh.Op, got string) {
	if got == "limit" && vfC03In([]string{"setpeer", "setprotocol", "setservice"}, op.Name()) {
		if r.refusedBefore == nil {
			r.refusedBefore = map[string]bool{}
		}
		r.refusedBefore[op.S("h")+"|"+op.Name()] = true
	}
}

func vfC03OpStr(op vfh.Op) string {
	b, _ := json.Marshal(op)
	return string(b)
}

// finish releases every holder the ledger knows (Done in creation order, then the View
// reservations) and checks the Zero clause, then probes that the subnet counters are free again.
func (r *vfC03Run) finish() {
	if r.dead {
		return
	}
	for _, id := range append([]string(nil), r.lg.order...) {
		if r.lg.objs[id].open {
			r.step++
			r.doStep(vfh.Op{"name": "done", "h": id})
		}
	}
	for _, s := range r.cf.named {
		if n := r.lg.direct[s]; n > 0 {
			r.step++
			r.doStep(vfh.Op{"name": "release", "h": s, "n": float64(n)})
		}
	}
	if r.dead {
		return
	}
	for _, s := range r.scopes() {
		if v := r.statOf(s); !v.zero() {
			r.mismatch("zero", fmt.Sprintf("after the last holder was released scope %s reports %v", s, v), vfC03Vec{}, v)
		}
	}
	// every subnet must admit connections up to its cap again (scope limits permitting)
	n := 0
	for _, ep := range r.cf.Eps {
		if !r.cf.hasIP(ep) || r.dead {
			continue
		}
		k := math.MaxInt
		for _, b := range r.cf.Epb[ep] {
			if r.cf.Cap[b] < k {
				k = r.cf.Cap[b]
			}
		}
		var ids []string
		for i := 0; i < k && i < 3; i++ {
			n++
			id := fmt.Sprintf("probe%d", n)
			r.step++
			if r.doStep(vfh.Op{"name": "openconn", "id": id, "dir": "in", "fd": false, "ep": ep}) == "nil" {
				ids = append(ids, id)
			}
		}
		for _, id := range ids {
			r.step++
			r.doStep(vfh.Op{"name": "done", "h": id})
		}
	}
	r.rm.connLimiter.mu.Lock()
	left := 0
	for _, c := range r.rm.connLimiter.connsPerNetworkPrefixV4 {
		left += c
	}
	for _, c := range r.rm.connLimiter.connsPerNetworkPrefixV6 {
		left += c
	}
	for _, m := range append(append([]map[netip.Prefix]int(nil), r.rm.connLimiter.ip4connsPerLimit...), r.rm.connLimiter.ip6connsPerLimit...) {
		for _, c := range m {
			left += c
		}
	}
	r.rm.connLimiter.mu.Unlock()
	if left != 0 && !r.dead {
		r.mismatch("L2:zero:connlimiter", fmt.Sprintf("connLimiter counters sum to %d after everything was closed", left), 0, left)
	}
}

// ---------------------------------------------------------------------------------------------
// model equality (L2)

func (r *vfC03Run) limiterCount(b string) int {
	cl := r.rm.connLimiter
	pfx := r.cf.bucketPfx[b]
	cl.mu.Lock()
	defer cl.mu.Unlock()
	if strings.HasPrefix(b, "np:") {
		lims, cnts := cl.networkPrefixLimitV4, cl.connsPerNetworkPrefixV4
		if pfx.Addr().Is6() {
			lims, cnts = cl.networkPrefixLimitV6, cl.connsPerNetworkPrefixV6
		}
		for i, l := range lims {
			if l.Network == pfx && i < len(cnts) {
				return cnts[i]
			}
		}
		return 0
	}
	lims, cnts := cl.connLimitPerSubnetV4, cl.ip4connsPerLimit
	if pfx.Addr().Is6() {
		lims, cnts = cl.connLimitPerSubnetV6, cl.ip6connsPerLimit
	}
	for i, l := range lims {
		if l.PrefixLength == pfx.Bits() && i < len(cnts) {
			return cnts[i][pfx]
		}
	}
	return 0
}

func (r *vfC03Run) rawScope(id string) *resourceScope {
	switch s := r.handles[id].(type) {
	case *connectionScope:
		return s.resourceScope
	case *streamScope:
		return s.resourceScope
	case *resourceScope:
		return s
	}
	return nil
}

func (r *vfC03Run) compareModel(op vfh.Op, got string, raw json.RawMessage) {
	if r.dead {
		return
	}
	if want := op.S("err"); op.Has("err") && want != got && !(want == "subnet" && got == "other") {
		r.mismatch("L2:err:"+op.Name(), fmt.Sprintf("%s: model error class %q, manager %q", vfC03OpStr(op), want, got), want, got)
		if (want == "nil") != (got == "nil") {
			r.dead = true // the rest of the walk presupposes the model's outcome
			return
		}
	}
	if len(raw) == 0 || string(raw) == "null" {
		return // a recorded prefix re-executed alone: ledger monitors only
	}
	var st vfC03State
	if err := json.Unmarshal(raw, &st); err != nil {
		r.mismatch("L2:state:unparsable", err.Error(), nil, string(raw))
		return
	}
	for _, s := range r.scopes() {
		if want, gotv := vfC03Vec(st.Use[s]), r.last[s]; want != gotv {
			r.mismatch("L2:state:use:"+op.Name(), fmt.Sprintf("after %s scope %s: model %v, manager %v", vfC03OpStr(op), s, want, gotv), want, gotv)
		}
	}
	for id, mo := range st.Obj {
		rs := r.rawScope(id)
		if rs == nil {
			r.mismatch("L2:state:obj:"+op.Name(), fmt.Sprintf("after %s the model has object %s, the harness has no handle", vfC03OpStr(op), id), mo, nil)
			continue
		}
		var edges []string
		rs.Lock()
		done := rs.done
		for _, e := range rs.edges {
			edges = append(edges, r.cf.real2mod[e.name])
		}
		owner := ""
		if rs.owner != nil {
			owner = rs.owner.name
		}
		rs.Unlock()
		gotst := "open"
		if done {
			gotst = "done"
		}
		gotal, gotpeer, gotproto, gotsvc := false, "", "", ""
		switch s := r.handles[id].(type) {
		case *connectionScope:
			s.Lock()
			gotal = s.isAllowlisted
			s.Unlock()
			if ps := s.PeerScope(); ps != nil {
				gotpeer = strings.TrimPrefix(r.cf.real2mod[peerScopeName(ps.Peer())], "peer:")
			}
		case *streamScope:
			if ps := s.PeerScope(); ps != nil {
				gotpeer = strings.TrimPrefix(r.cf.real2mod[peerScopeName(ps.Peer())], "peer:")
			}
			if ps := s.ProtocolScope(); ps != nil {
				gotproto = strings.TrimPrefix(string(ps.Protocol()), "/vf/")
			}
			if ss := s.ServiceScope(); ss != nil {
				gotsvc = strings.TrimPrefix(ss.Name(), "vf")
			}
		}
		wantEdges := []string{}
		for _, e := range mo[5].([]any) {
			wantEdges = append(wantEdges, e.(string))
		}
		wantOwner := mo[6].(string)
		if wantOwner != "" {
			// the model names the owner by id; the real span scope carries the owner's scope name
			if ors := r.rawScope(wantOwner); ors != nil {
				wantOwner = ors.name
			} else {
				for real, mod := range r.cf.real2mod {
					if mod == wantOwner {
						wantOwner = real
					}
				}
			}
		}
		want := []any{mo[0], mo[1], mo[2], mo[3], mo[4], wantEdges, wantOwner}
		gotv := []any{gotst, gotal, gotpeer, gotproto, gotsvc, append([]string{}, edges...), owner}
		if vfh.Canon(want) != vfh.Canon(gotv) {
			r.mismatch("L2:state:obj:"+op.Name(), fmt.Sprintf("after %s object %s (st, allowlisted, peer, proto, svc, edges, owner)", vfC03OpStr(op), id), want, gotv)
		}
	}
	for b := range r.cf.Cap {
		if want, gotc := st.Cnt[b], r.limiterCount(b); want != gotc {
			r.mismatch("L2:state:cnt:"+op.Name(), fmt.Sprintf("after %s connLimiter counter %s: model %d, manager %d", vfC03OpStr(op), b, want, gotc), want, gotc)
		}
	}
	r.rm.mx.Lock()
	refs := map[string]int{}
	for _, p := range r.cf.Peers {
		if ps, ok := r.rm.peer[r.cf.pids[p]]; ok {
			ps.Lock()
			refs["peer:"+p] = ps.refCnt
			ps.Unlock()
		}
	}
	for _, x := range r.cf.Protos {
		if ps, ok := r.rm.proto[vfC03Proto(x)]; ok {
			ps.Lock()
			refs["proto:"+x] = ps.refCnt
			ps.Unlock()
		}
	}
	r.rm.mx.Unlock()
	for s, n := range refs {
		if st.Ref[s] != n {
			r.mismatch("L2:state:ref:"+op.Name(), fmt.Sprintf("after %s refCnt of %s: model %d, manager %d", vfC03OpStr(op), s, st.Ref[s], n), st.Ref[s], n)
		}
	}
}

// ---------------------------------------------------------------------------------------------

func vfC03LoadConf(hdr map[string]any) (*vfC03Conf, error) {
	b, err := json.Marshal(hdr["conf"])
	if err != nil {
		return nil, err
	}
	cf := &vfC03Conf{}
	if err := json.Unmarshal(b, cf); err != nil {
		return nil, err
	}
	cf.init()
	return cf, nil
}

func vfC03RunWalk(cf *vfC03Conf, res *vfh.Result, w vfh.Walk) error {
	rm, err := cf.newMgr()
	if err != nil {
		return err
	}
	defer rm.Close()
	r := &vfC03Run{cf: cf, rm: rm, lg: vfC03NewLedger(cf), handles: map[string]vfC03Scope{}, res: res, walk: w.Walk}
	for i, st := range w.Steps {
		r.step = i
		got := r.doStep(st.Op)
		r.compareModel(st.Op, got, st.State)
		res.Case(cf.Fam + "|" + st.Op.Name() + "|" + got)
		if r.dead {
			break
		}
	}
	res.Count(1, len(r.prefix))
	r.finish()
	return nil
}

// ---------------------------------------------------------------------------------------------
// random limit tables x random sequential histories, judged by the ledger alone (no model)

func vfC03RandomConf(rnd *rand.Rand, i int) *vfC03Conf {
	pickMem := func() int64 { return []int64{0, 1, 2, 3, 4, 6, vfC03RandInf}[rnd.Intn(7)] }
	pickN := func() int { return []int{0, 1, 1, 2, 2, 3, vfC03RandInf}[rnd.Intn(7)] }
	L := func() vfC03Lim {
		l := vfC03Lim{Mem: pickMem(), Si: pickN(), So: pickN(), S: pickN(), Ci: pickN(), Co: pickN(), C: pickN(), Fd: pickN()}
		if rnd.Intn(3) == 0 { // mostly generous, so that histories get somewhere
			l = vfC03Lim{Mem: l.Mem, Si: 3, So: 3, S: 4, Ci: 3, Co: 3, C: 4, Fd: 2}
		}
		return l
	}
	cf := &vfC03Conf{Fam: "random", Inf: vfC03RandInf, Deflim: L(), Peers: []string{"p1", "p2"}, Protos: []string{"a"},
		Svcs: []string{"x"}, Eps: []string{"n0", "a1", "a2", "v6", "b1", "b1"},
		// b1 is allow-listed for p1 only (its prefix limit is out of reach: the open subnet finding is not the subject here)
		Epb: vfC03M[[]string]{"a1": {"a1/32", "a/24"}, "a2": {"a2/32", "a/24"}, "v6": {"v6/56"}, "b1": {"np:b1"}, "n0": {}},
		Cap: vfC03M[int]{"a1/32": 1 + rnd.Intn(2), "a/24": 1 + rnd.Intn(3), "v6/56": 1 + rnd.Intn(2), "np:b1": 64},
		AllowPeer: [][]string{{"b1", "p1"}},
		Lim: vfC03M[vfC03Lim]{}}
	cf.Cap["a2/32"] = cf.Cap["a1/32"]
	for _, k := range []string{"sys", "trans", "asys", "atrans", "peer:p1", "peer:p2", "proto:a", "proto:a.peer", "svc:x", "svc:x.peer", "conn", "stream"} {
		if rnd.Intn(4) > 0 {
			cf.Lim[k] = L()
		}
	}
	cf.init()
	return cf
}

const vfC03RandInf = 1000000

func vfC03RandomOp(rnd *rand.Rand, lg *vfC03Ledger, n *int) vfh.Op {
	var conns, streams, all []string
	for _, id := range lg.order {
		all = append(all, id)
		switch lg.objs[id].kind {
		case "conn":
			conns = append(conns, id)
		case "stream":
			streams = append(streams, id)
		}
	}
	pick := func(xs []string) string { return xs[rnd.Intn(len(xs))] }
	views := []string{"sys", "trans", "peer:p1", "peer:p2", "proto:a", "svc:x"}
	dir := pick([]string{"in", "out"})
	for {
		switch r := rnd.Intn(100); {
		case r < 14:
			*n++
			return vfh.Op{"name": "openconn", "id": fmt.Sprintf("c%d", *n), "dir": dir, "fd": rnd.Intn(2) == 0, "ep": pick(lg.cf.Eps)}
		case r < 26:
			*n++
			return vfh.Op{"name": "openstream", "id": fmt.Sprintf("s%d", *n), "dir": dir, "peer": pick(lg.cf.Peers)}
		case r < 34 && len(conns) > 0:
			return vfh.Op{"name": "setpeer", "h": pick(conns), "peer": pick(lg.cf.Peers)}
		case r < 42 && len(streams) > 0:
			return vfh.Op{"name": "setprotocol", "h": pick(streams), "proto": "a"}
		case r < 49 && len(streams) > 0:
			return vfh.Op{"name": "setservice", "h": pick(streams), "svc": "x"}
		case r < 66:
			return vfh.Op{"name": "reserve", "h": pick(append(append([]string(nil), all...), pick(views))), "n": float64(rnd.Intn(4)),
				"prio": float64([]int{0, 63, 127, 191, 255, 255}[rnd.Intn(6)])}
		case r < 78:
			var hs []string
			for _, h := range append(append([]string(nil), all...), views...) {
				if lg.heldOf(h) > 0 && !lg.closed(h) {
					hs = append(hs, h)
				}
			}
			if len(hs) == 0 {
				continue
			}
			h := pick(hs)
			return vfh.Op{"name": "release", "h": h, "n": float64(1 + rnd.Int63n(lg.heldOf(h)))}
		case r < 85 && len(all) > 0:
			*n++
			return vfh.Op{"name": "beginspan", "id": fmt.Sprintf("sp%d", *n), "h": pick(append(append([]string(nil), all...), pick(views)))}
		case r < 96 && len(all) > 0:
			return vfh.Op{"name": "done", "h": pick(all)}
		case r >= 96:
			return vfh.Op{"name": "gc"} // at any moment, also while View scopes hold reservations
		}
	}
}

func TestVerifC03Random(t *testing.T) {
	res := vfh.NewResult()
	res.Rule = "distinct = (call, outcome) pairs executed under random limit tables"
	defer func() {
		if err := res.Write(); err != nil {
			t.Fatal(err)
		}
	}()
	n := vfh.EnvInt("VERIF_C03_RANDOM", 200)
	for i := 0; i < n; i++ {
		rnd := rand.New(rand.NewSource(vfh.Seed()*1000003 + int64(i)))
		cf := vfC03RandomConf(rnd, i)
		rm, err := cf.newMgr()
		if err != nil {
			t.Fatal(err)
		}
		r := &vfC03Run{cf: cf, rm: rm, lg: vfC03NewLedger(cf), handles: map[string]vfC03Scope{}, res: res, walk: i}
		r.cfgDump = map[string]any{"fam": "random", "lim": cf.Lim, "deflim": cf.Deflim, "cap": cf.Cap}
		cnt := 0
		for s := 0; s < 60 && !r.dead; s++ {
			r.step = s
			op := vfC03RandomOp(rnd, r.lg, &cnt)
			got := r.doStep(op)
			res.Case(op.Name() + "|" + got)
		}
		res.Count(1, len(r.prefix))
		r.finish()
		rm.Close()
	}
	res.Sample(map[string]any{"histories": n, "steps_each": 60})
}

func TestVerifC03Replay(t *testing.T) {
	res := vfh.NewResult()
	res.Rule = "distinct = (family, call, outcome) triples executed"
	defer func() {
		if err := res.Write(); err != nil {
			t.Fatal(err)
		}
	}()
	files, _ := filepath.Glob(filepath.Join(vfh.In(), "*.jsonl"))
	sort.Strings(files)
	if len(files) == 0 {
		t.Fatal("no behaviour files in VERIF_IN")
	}
	for _, f := range files {
		hdr, walks, err := vfh.LoadWalks(f)
		if err != nil {
			t.Fatalf("%s: %v", f, err)
		}
		cf, err := vfC03LoadConf(hdr)
		if err != nil {
			t.Fatalf("%s: %v", f, err)
		}
		for _, w := range walks {
			if err := vfC03RunWalk(cf, res, w); err != nil {
				t.Fatalf("%s walk %d: %v", f, w.Walk, err)
			}
		}
		res.Inc("walks:"+cf.Fam, len(walks))
		for _, w := range walks {
			if len(w.Steps) >= 6 {
				var ops []vfh.Op
				for _, st := range w.Steps[:6] {
					ops = append(ops, st.Op)
				}
				res.Sample(map[string]any{"family": cf.Fam, "walk": w.Walk, "first_calls_with_model_outcome": ops})
				break
			}
		}
	}
	_ = os.Stdout
}
