//go:build verif

package eventbus

// Conformance harness for C15 (event bus).  Seeded concurrent workloads on the real bus:
//   - L1 monitors (this file) decide violations from observables only: emission log, each
//     subscriber's received sequence, panics, stalls;
//   - every iteration also yields one ndjson trace (observables + the hook events of
//     verif_hook_on.go, one sequence counter) that TLC validates against spec/C15_Trace.tla.
// The hooks double as schedule perturbation points (seeded yields / short sleeps).

import (
	"fmt"
	"math/rand"
	"os"
	"path/filepath"
	"reflect"
	"runtime"
	"sort"
	"sync"
	"sync/atomic"
	"testing"
	"time"

	"github.com/libp2p/go-libp2p/core/event"
	"github.com/libp2p/go-libp2p/internal/vfh"
)

type vfC15EvA struct {
	E string
	N int
}
type vfC15EvB struct {
	E string
	N int
}
type vfC15EvC struct {
	E string
	N int
}

// universe shared with spec/C15_Trace.tla
var vfC15SubTypes = map[string][]string{
	"s1": {"A"}, "s2": {"A"}, "s3": {"A", "B"}, "s4": {"B"},
	"s5": {"A"}, "s6": {"B", "A"}, "s7": {"A"}, "s8": {"A", "B"},
	"s9": {"A", "C"}, "s10": {"C", "A"}, "s11": {"C"}, "s12": {"B", "C"},
}
var vfC15EmTyp = map[string]string{"e1": "A", "e2": "A", "e3": "B", "e4": "C"}
var vfC15Emitters = []string{"e1", "e2", "e3", "e4"}

// stateful types and their emitters
var vfC15Stateful = map[string][]string{"A": {"e1", "e2"}, "C": {"e4"}}

type vfC15Rec struct {
	mu      sync.Mutex
	seq     int64
	evs     []map[string]any
	rnd     *rand.Rand
	perturb int            // 0 none, 1 yields, 2 yields+sleeps
	chID    sync.Map       // channel pointer string -> sub id (filled after Subscribe returns)
	adone   map[string]int // channel pointer string -> number of n.asyncdone hooks seen (synchronisation only)
	ctl     *vfC15Sched    // controlled scheduling (perturb == 4): every logged line is a scheduling point
}

// pause is a scheduling point without a log line (used inside the harness's own polling loops).
func (r *vfC15Rec) pause() {
	if r.ctl != nil {
		r.ctl.park()
	} else {
		runtime.Gosched()
	}
}

func (r *vfC15Rec) asyncDone(ptr string) int {
	r.mu.Lock()
	defer r.mu.Unlock()
	return r.adone[ptr]
}

func (r *vfC15Rec) emit(m map[string]any) int64 {
	r.mu.Lock()
	r.seq++
	m["seq"] = r.seq
	r.evs = append(r.evs, m)
	if m["ev"] == "n.asyncdone" {
		r.adone[m["s"].(string)]++
	}
	s := r.seq
	var act int
	if r.perturb > 0 {
		act = r.rnd.Intn(12)
	}
	r.mu.Unlock()
	if r.ctl != nil {
		r.ctl.park()
		return s
	}
	switch {
	case r.perturb == 3 && act < 4:
		// delay injection: the goroutine stays where it is - often inside a critical section - long
		// enough for the others to pile up behind it (lock convoys, full channels, chains of waiters)
		time.Sleep(time.Duration(100+act*300) * time.Microsecond)
	case r.perturb >= 1 && act < 3:
		runtime.Gosched()
	case r.perturb >= 2 && act == 3:
		time.Sleep(20 * time.Microsecond)
	}
	return s
}

var vfC15Cur atomic.Pointer[vfC15Rec]

func vfC15Hook(ev string, typ reflect.Type, ch any, evt any) {
	r := vfC15Cur.Load()
	if r == nil {
		return
	}
	m := map[string]any{"ev": ev}
	if typ != nil {
		switch typ {
		case reflect.TypeOf(vfC15EvA{}):
			m["t"] = "A"
		case reflect.TypeOf(vfC15EvB{}):
			m["t"] = "B"
		case reflect.TypeOf(vfC15EvC{}):
			m["t"] = "C"
		default:
			m["t"] = typ.String()
		}
	}
	if ch != nil {
		m["s"] = fmt.Sprintf("%p", ch)
	}
	switch e := evt.(type) {
	case vfC15EvA:
		m["e"], m["n"] = e.E, e.N
	case vfC15EvB:
		m["e"], m["n"] = e.E, e.N
	case vfC15EvC:
		m["e"], m["n"] = e.E, e.N
	}
	r.emit(m)
}

type vfC15SubPlan struct {
	id         string
	wildcard   bool
	buf        int
	stable     bool // closed only after all emitters finished and the channel was read empty
	startYield int
	closeAfter int // closing subs: call Close after this many received events (or at the end)
	slow       bool
	early      bool // subscribes before any emitter starts (multi-type subscriptions with small buffers)
	late       bool // subscribes after every emitter has finished: only retained events can arrive
	stopRead   bool // closing subs: stop reading, then call Close (the bus's own drain must unblock emitters)
}

type vfC15Recv struct {
	e   string
	n   int
	typ string
	seq int64
}

type vfC15SubState struct {
	plan                vfC15SubPlan
	subCall, subRet     int64
	closeCall, closeRet int64
	recvs               []vfC15Recv
}

type vfC15Emit struct{ call, ret int64 }

type vfC15Iter struct {
	seed     int64
	rec      *vfC15Rec
	nev      map[string]int
	emits    map[string][]vfC15Emit // per emitter, index n-1
	eclose   map[string]int64
	subs     []*vfC15SubState
	panics   []string
	mu       sync.Mutex
	deadlock string // goroutine dump of a deadlock found under controlled scheduling
	lateB    bool   // emitter e3 (type B) is created only after subscribers of B have come and gone: the node
	// of B is created by subscribers, may be dropped and re-created; such a run is judged by the monitors only
	// (the trace specification has every emitter from the start)
}

func (it *vfC15Iter) guard(where string) {
	if p := recover(); p != nil {
		it.mu.Lock()
		it.panics = append(it.panics, fmt.Sprintf("%s: %v", where, p))
		it.mu.Unlock()
	}
}

func vfC15Plan(rnd *rand.Rand) (map[string]int, []vfC15SubPlan, map[string]bool) {
	nev := map[string]int{"e1": rnd.Intn(6), "e2": rnd.Intn(5), "e3": rnd.Intn(4), "e4": rnd.Intn(4)}
	if rnd.Intn(4) == 0 {
		nev["e2"] = 0
	}
	var plans []vfC15SubPlan
	ids := []string{"s1", "s2", "s3", "s4", "s5", "s6", "s7", "s8", "s9", "s10", "s11", "s12"}
	rnd.Shuffle(len(ids), func(i, j int) { ids[i], ids[j] = ids[j], ids[i] })
	nt := 1 + rnd.Intn(4)
	for _, id := range ids[:nt] {
		plans = append(plans, vfC15SubPlan{id: id})
	}
	nw := rnd.Intn(3)
	for i := 0; i < nw; i++ {
		plans = append(plans, vfC15SubPlan{id: fmt.Sprintf("w%d", i+1), wildcard: true})
	}
	bufs := []int{0, 1, 1, 2, 16}
	for i := range plans {
		p := &plans[i]
		p.buf = bufs[rnd.Intn(len(bufs))]
		p.stopRead = rnd.Intn(3) == 0
		if !p.wildcard && len(vfC15SubTypes[p.id]) > 1 {
			// known finding deadlock-multitype-subscribe-buslock (reproduced deterministically in
			// zz_verif_c15_deadlock_test.go): a multi-type subscription whose channel can fill up
			// DURING Subscribe can deadlock the bus; the general workload keeps out of it: such a
			// subscription either has a buffer nothing can fill, or subscribes before any emitter starts
			switch rnd.Intn(3) {
			case 0:
				p.early = true
				p.startYield = 0
			case 1:
				// room for the first retained event: with an unbuffered channel the goroutine that
				// sends it keeps the first node locked while Subscribe still needs the bus lock for
				// the second type - the known finding again, with the retained event in the role of
				// the stalled Emit
				p.late = true
				p.stable = true
				p.stopRead = false
				p.buf = 1
			default:
				p.buf = 32
			}
		}
		lateSet := p.late
		p.stable = rnd.Intn(2) == 0 || lateSet
		if !p.wildcard && len(vfC15SubTypes[p.id]) == 1 && rnd.Intn(4) == 0 {
			// a single-type subscriber that joins after every emitter has finished: only a retained event can arrive
			p.late, p.stable, p.stopRead = true, true, false
			if p.buf == 0 {
				p.buf = 1
			}
		}
		p.startYield = rnd.Intn(6)
		p.closeAfter = rnd.Intn(5)
		p.slow = rnd.Intn(3) == 0
	}
	closeEm := map[string]bool{"e1": rnd.Intn(3) == 0, "e2": rnd.Intn(3) == 0, "e3": rnd.Intn(3) == 0, "e4": rnd.Intn(3) == 0}
	return nev, plans, closeEm
}

// run executes one seeded scenario on a fresh bus; returns false if it stalled.
func (it *vfC15Iter) run(perturb int) bool {
	rnd := rand.New(rand.NewSource(it.seed))
	nev, plans, closeEm := vfC15Plan(rnd)
	it.nev = nev
	it.rec = &vfC15Rec{rnd: rand.New(rand.NewSource(it.seed ^ 0x5bd1e995)), perturb: perturb, adone: map[string]int{}}
	it.emits = map[string][]vfC15Emit{}
	it.eclose = map[string]int64{}
	bus := NewBus()
	ems := map[string]event.Emitter{}
	var emsMu sync.Mutex
	crnd := rand.New(rand.NewSource(it.seed ^ 0x7f4a7c15))
	it.lateB = crnd.Intn(3) == 0
	lateYield := crnd.Intn(60)
	// a type is stateful as soon as ONE of its emitters asked for it: e2 (type A) is a plain emitter in
	// half of the runs, created before or after the stateful e1
	e2Plain := crnd.Intn(2) == 0
	order := append([]string(nil), vfC15Emitters...)
	crnd.Shuffle(len(order), func(i, j int) { order[i], order[j] = order[j], order[i] })
	mkEm := func(e string) event.Emitter {
		var em event.Emitter
		var err error
		switch {
		case vfC15EmTyp[e] == "A" && e == "e2" && e2Plain:
			em, err = bus.Emitter(new(vfC15EvA))
		case vfC15EmTyp[e] == "A":
			em, err = bus.Emitter(new(vfC15EvA), Stateful)
		case vfC15EmTyp[e] == "C":
			em, err = bus.Emitter(new(vfC15EvC), Stateful)
		default:
			em, err = bus.Emitter(new(vfC15EvB))
		}
		if err != nil {
			panic(err)
		}
		return em
	}
	for _, e := range order {
		it.emits[e] = make([]vfC15Emit, nev[e])
		if e == "e3" && it.lateB {
			continue
		}
		ems[e] = mkEm(e)
	}
	if perturb == 4 {
		it.rec.perturb = 0
		it.rec.ctl = newVfC15Sched(it.seed ^ 0x2545f491)
		go it.rec.ctl.loop()
	}
	vfC15Cur.Store(it.rec)
	defer vfC15Cur.Store(nil)

	var emWG, subWG, earlyWG sync.WaitGroup
	emittersDone := make(chan struct{})
	startEmit := make(chan struct{})
	for _, p := range plans {
		if p.early {
			earlyWG.Add(1)
		}
	}
	go func() { earlyWG.Wait(); close(startEmit) }()
	for _, e := range vfC15Emitters {
		emWG.Add(1)
		go func(e string) {
			defer emWG.Done()
			defer it.guard("emitter " + e)
			<-startEmit
			emsMu.Lock()
			em := ems[e]
			emsMu.Unlock()
			if e == "e3" && it.lateB {
				for i := 0; i < lateYield; i++ {
					it.rec.pause()
				}
				em = mkEm(e)
			}
			for n := 1; n <= nev[e]; n++ {
				c := it.rec.emit(map[string]any{"ev": "emit_call", "e": e, "n": n})
				var err error
				switch vfC15EmTyp[e] {
				case "A":
					err = em.Emit(vfC15EvA{E: e, N: n})
				case "C":
					err = em.Emit(vfC15EvC{E: e, N: n})
				default:
					err = em.Emit(vfC15EvB{E: e, N: n})
				}
				r := it.rec.emit(map[string]any{"ev": "emit_ret", "e": e, "n": n})
				if err != nil {
					panic("Emit returned " + err.Error())
				}
				it.emits[e][n-1] = vfC15Emit{c, r}
			}
			if closeEm[e] {
				// the decrement of nEmitters happens inside Close: log the intent first
				s := it.rec.emit(map[string]any{"ev": "eclose", "e": e})
				em.Close()
				it.mu.Lock()
				it.eclose[e] = s
				it.mu.Unlock()
			}
		}(e)
	}
	for _, p := range plans {
		st := &vfC15SubState{plan: p}
		it.subs = append(it.subs, st)
		subWG.Add(1)
		go func(st *vfC15SubState) {
			defer subWG.Done()
			defer it.guard("subscriber " + st.plan.id)
			p := st.plan
			for i := 0; i < p.startYield; i++ {
				runtime.Gosched()
			}
			if p.late {
				<-emittersDone
			}
			st.subCall = it.rec.emit(map[string]any{"ev": "sub_call", "s": p.id})
			var sub event.Subscription
			var err error
			if p.wildcard {
				sub, err = bus.Subscribe(event.WildcardSubscription, BufSize(p.buf))
			} else {
				var types []any
				for _, t := range vfC15SubTypes[p.id] {
					switch t {
					case "A":
						types = append(types, new(vfC15EvA))
					case "C":
						types = append(types, new(vfC15EvC))
					default:
						types = append(types, new(vfC15EvB))
					}
				}
				sub, err = bus.Subscribe(types, BufSize(p.buf))
			}
			if err != nil {
				panic(err)
			}
			it.rec.chID.Store(fmt.Sprintf("%p", chanOf(sub)), p.id)
			st.subRet = it.rec.emit(map[string]any{"ev": "sub_ret", "s": p.id})
			if p.early {
				earlyWG.Done()
			}
			out := sub.Out()
			record := func(ev any) {
				var rv vfC15Recv
				switch e := ev.(type) {
				case vfC15EvA:
					rv = vfC15Recv{e: e.E, n: e.N, typ: "A"}
				case vfC15EvB:
					rv = vfC15Recv{e: e.E, n: e.N, typ: "B"}
				case vfC15EvC:
					rv = vfC15Recv{e: e.E, n: e.N, typ: "C"}
				default:
					panic(fmt.Sprintf("received foreign value %T", ev))
				}
				rv.seq = it.rec.emit(map[string]any{"ev": "recv", "s": p.id, "e": rv.e, "n": rv.n})
				st.recvs = append(st.recvs, rv)
				if p.slow {
					runtime.Gosched()
					runtime.Gosched()
				}
			}
			doClose := func() {
				st.closeCall = it.rec.emit(map[string]any{"ev": "close_call", "s": p.id})
				sub.Close()
				st.closeRet = it.rec.emit(map[string]any{"ev": "close_ret", "s": p.id})
			}
			if p.stable {
				// read until every emitter has finished, then read the channel empty: every Emit
				// has returned, so whatever was delivered is in the buffer now
				for done := false; !done; {
					select {
					case ev, ok := <-out:
						if !ok {
							panic("channel closed before Close")
						}
						record(ev)
					case <-emittersDone:
						done = true
					}
				}
				// the retained event is sent by a goroutine Subscribe leaves behind: wait until it has
				// finished (its hook is used for synchronisation only, never for the verdict)
				if !p.wildcard {
					ptr := fmt.Sprintf("%p", chanOf(sub))
					for it.rec.asyncDone(ptr) < len(vfC15SubTypes[p.id]) {
						select {
						case ev := <-out:
							record(ev)
						default:
							it.rec.pause()
						}
					}
				}
				for empty := false; !empty; {
					select {
					case ev := <-out:
						record(ev)
					default:
						empty = true
					}
				}
				doClose()
				return
			}
			// closing subscriber: Close is called from another goroutine after closeAfter events
			// (or when the emitters are done); the reader keeps reading until the channel is closed
			// (typed) or Close has returned (wildcard: that channel is never closed)
			closed := make(chan struct{})
			var once sync.Once
			trigger := func() {
				once.Do(func() {
					go func() {
						defer it.guard("closer " + p.id)
						doClose()
						close(closed)
					}()
				})
			}
			if p.closeAfter == 0 && !p.stopRead {
				trigger()
			}
			if p.stopRead {
				// read closeAfter events (or until the emitters are done), then stop reading and call
				// Close: from here on only the bus's own drain goroutine empties the channel
				n := 0
				ed := (<-chan struct{})(emittersDone)
				for n < p.closeAfter && ed != nil {
					select {
					case ev, ok := <-out:
						if !ok {
							panic("channel closed before Close")
						}
						record(ev)
						n++
					case <-ed:
						ed = nil
					}
				}
				doClose()
				return
			}
			n := 0
			ed := (<-chan struct{})(emittersDone)
			closedSel := (<-chan struct{})(closed)
			for {
				select {
				case ev, ok := <-out:
					if !ok {
						<-closed
						return
					}
					record(ev)
					n++
					if n >= p.closeAfter {
						trigger()
					}
				case <-ed:
					trigger()
					ed = nil
				case <-closedSel:
					if p.wildcard {
						return
					}
					closedSel = nil // typed: keep reading until the channel is closed
				}
			}
		}(st)
	}
	fin := make(chan struct{})
	go func() {
		emWG.Wait()
		close(emittersDone)
		subWG.Wait()
		close(fin)
	}()
	if it.rec.ctl != nil {
		select {
		case <-fin:
			it.rec.ctl.stop()
			return true
		case <-it.rec.ctl.doneCh: // the scheduler gave up: deadlock
			it.deadlock = it.rec.ctl.Dead
			return false
		case <-time.After(60 * time.Second):
			return false
		}
	}
	select {
	case <-fin:
		return true
	case <-time.After(20 * time.Second):
		return false
	}
}

func chanOf(s event.Subscription) chan any {
	switch v := s.(type) {
	case *sub:
		return v.ch
	case *wildcardSub:
		return v.ch
	}
	return nil
}

// check applies the L1 monitors; returns (class, description) pairs.
func (it *vfC15Iter) check() [][2]string {
	var bad [][2]string
	add := func(c, f string, a ...any) { bad = append(bad, [2]string{c, fmt.Sprintf(f, a...)}) }
	for _, p := range it.panics {
		add("panic", "%s", p)
	}
	for _, st := range it.subs {
		p := st.plan
		asked := map[string]bool{"A": true, "B": true, "C": true}
		if !p.wildcard {
			asked = map[string]bool{}
			for _, t := range vfC15SubTypes[p.id] {
				asked[t] = true
			}
		}
		per := map[string][]vfC15Recv{}
		for _, r := range st.recvs {
			if !asked[r.typ] {
				add("foreign-type", "%s received an event of type %s it did not subscribe to", p.id, r.typ)
			}
			per[r.e] = append(per[r.e], r)
		}
		for e, rs := range per {
			for i := 1; i < len(rs); i++ {
				if rs[i].n <= rs[i-1].n {
					if rs[i].n == rs[i-1].n {
						add("duplicate", "%s received %s#%d twice", p.id, e, rs[i].n)
					} else {
						add("reorder", "%s received %s#%d after %s#%d", p.id, e, rs[i].n, e, rs[i-1].n)
					}
				}
				// no gaps among events received while the subscription was live (before Close was
				// called): afterwards the bus's own drain may legitimately swallow buffered events
				if rs[i].n > rs[i-1].n+1 && (st.closeCall == 0 || rs[i].seq < st.closeCall) {
					add("lost-event", "%s received %s#%d right after %s#%d while live", p.id, e, rs[i].n, e, rs[i-1].n)
				}
			}
		}
		if p.stable {
			// every event whose Emit began after Subscribe returned must have been received
			for e, ems := range it.emits {
				if !asked[vfC15EmTyp[e]] {
					continue
				}
				have := map[int]bool{}
				for _, r := range per[e] {
					have[r.n] = true
				}
				for i, em := range ems {
					if em.call > st.subRet && !have[i+1] {
						add("lost-event", "%s (subscribed at seq %d, read until empty after all emits returned) never received %s#%d emitted at seq %d..%d", p.id, st.subRet, e, i+1, em.call, em.ret)
					}
				}
			}
		}
		// retained event first (stateful types), when the node cannot have been dropped
		for styp, sems := range vfC15Stateful {
			if p.wildcard || !asked[styp] {
				continue
			}
			alive := false // some emitter of the type was still open when Subscribe returned
			for _, e := range sems {
				if c, ok := it.eclose[e]; !ok || c > st.subRet {
					alive = true
				}
			}
			cands := map[string]bool{}
			must := false
			// events of the type (whichever emitter) completed before Subscribe began: the retained one is
			// one that no other completed event of the type strictly follows (call after its return)
			type doneEv struct {
				key       string
				call, ret int64
			}
			var done []doneEv
			for _, e := range sems {
				for i, em := range it.emits[e] {
					if em.ret != 0 && em.ret < st.subCall {
						done = append(done, doneEv{fmt.Sprintf("%s#%d", e, i+1), em.call, em.ret})
						must = true
					}
					if em.call != 0 && em.call < st.subRet && (em.ret == 0 || em.ret > st.subCall) {
						cands[fmt.Sprintf("%s#%d", e, i+1)] = true // overlapped the Subscribe call
					}
				}
			}
			for _, x := range done {
				followed := false
				for _, y := range done {
					if y.call > x.ret {
						followed = true
						break
					}
				}
				if !followed {
					cands[x.key] = true
				}
			}
			// the node (and with it the retained event) also survives the Close of its last emitter while a
			// typed sink of the type stays attached: another subscriber whose Subscribe returned before every
			// event that can be the retained one began, and which had not called Close when this Subscribe returned
			if !alive && must {
				minCall := int64(0)
				for _, x := range done {
					if cands[x.key] && (minCall == 0 || x.call < minCall) {
						minCall = x.call
					}
				}
				for _, q := range it.subs {
					if q == st || q.plan.wildcard || q.subRet == 0 || q.subRet >= minCall {
						continue
					}
					holds := false
					for _, t := range vfC15SubTypes[q.plan.id] {
						if t == styp {
							holds = true
						}
					}
					if holds && (q.closeCall == 0 || q.closeCall > st.subRet) {
						alive = true
					}
				}
			}
			var first *vfC15Recv
			for i := range st.recvs {
				if st.recvs[i].typ == styp {
					first = &st.recvs[i]
					break
				}
			}
			if alive && must {
				if first == nil {
					if p.stable {
						add("retained-missing", "%s subscribed to stateful type %s after an event was emitted but received nothing of that type", p.id, styp)
					}
				} else if !cands[fmt.Sprintf("%s#%d", first.e, first.n)] && (st.closeCall == 0 || first.seq < st.closeCall) {
					add("retained-not-first", "%s first received %s#%d of type %s; the retained event must be one of %v", p.id, first.e, first.n, styp, vfC15Keys(cands))
				}
			}
		}
	}
	return bad
}

func vfC15Keys(m map[string]bool) []string {
	var out []string
	for k := range m {
		out = append(out, k)
	}
	sort.Strings(out)
	return out
}

// events returns the recorded trace with channel pointers renamed to subscription ids.
func (it *vfC15Iter) events() []map[string]any {
	evs := it.rec.evs
	for _, m := range evs {
		if s, ok := m["s"].(string); ok && len(s) > 1 && s[0] == '0' {
			if id, ok := it.rec.chID.Load(s); ok {
				m["s"] = id
			}
		}
	}
	return evs
}

func TestVerifC15Stress(t *testing.T) {
	res := vfh.NewResult()
	defer func() {
		if err := res.Write(); err != nil {
			t.Fatal(err)
		}
	}()
	VerifHook = vfC15Hook
	iters := vfh.EnvInt("VERIF_C15_ITERS", 300)
	traceKeep := vfh.EnvInt("VERIF_C15_TRACES", 80)
	res.Rule = "one case = one seeded concurrent scenario (emitters x typed/wildcard subscribers x buffer sizes x close points, hook-point schedule perturbation) run on the real bus; distinct = distinct scenario plans that delivered at least one event; L1 monitors: panic, duplicate, reorder, lost event while live, completeness for subscribers that outlive the emitters, retained event first, stall"
	tracePath := ""
	if vfh.Out() != "" {
		tracePath = filepath.Join(vfh.Out(), "c15_traces.ndjson")
		os.Remove(tracePath)
	}
	kept := 0
	for i := 0; i < iters; i++ {
		it := &vfC15Iter{seed: vfh.Seed()*1000003 + int64(i)}
		ok := it.run(i % 5)
		if !ok && it.deadlock != "" {
			res.AddMismatch(vfh.Mismatch{Class: "deadlock", What: "controlled schedule reached a state in which no goroutine of the bus or the workload can run and the workload has not finished", Walk: i, Step: it.rec.ctl.Steps, Got: vfC15Trunc(it.deadlock, 12000), Cfg: map[string]any{"seed": it.seed, "perturb": 4}, Prefix: it.events()})
			res.Count(1, 0)
			return
		}
		if !ok {
			buf := make([]byte, 1<<20)
			n := runtime.Stack(buf, true)
			res.AddMismatch(vfh.Mismatch{Class: "stall", What: "scenario did not finish within 20 s (possible deadlock)", Walk: i, Step: len(it.rec.evs), Got: vfC15Trunc(string(buf[:n]), 12000), Cfg: map[string]any{"seed": it.seed, "perturb": i % 5}})
			res.Count(1, 0)
			return // goroutines of the stalled scenario are still alive: stop here
		}
		res.Count(1, len(it.rec.evs))
		nrecv := 0
		for _, st := range it.subs {
			nrecv += len(st.recvs)
		}
		if nrecv > 0 {
			res.Case(fmt.Sprintf("%v|%d", it.nev, len(it.subs)) + fmt.Sprint(it.seed%9973))
		}
		bad := it.check()
		for _, b := range bad {
			res.AddMismatch(vfh.Mismatch{Class: b[0], What: b[1], Walk: i, Step: -1, Cfg: map[string]any{"seed": it.seed, "perturb": i % 5}, Prefix: it.events()})
		}
		if tracePath != "" && !it.lateB && (kept < traceKeep || len(bad) > 0) {
			kept++
			tr := vfh.NewTrace(fmt.Sprintf("it%d", i))
			if err := vfC15Append(tracePath, fmt.Sprintf("it%d", i), it.seed, it.events()); err != nil {
				t.Fatal(err)
			}
			_ = tr
		}
		if i == 0 {
			evs := it.events()
			k := len(evs)
			if k > 25 {
				k = 25
			}
			res.Sample(map[string]any{"scenario_seed": it.seed, "first_events": evs[:k]})
		}
		if len(bad) > 0 && res.NMismatch() >= 5 {
			break
		}
	}
	res.Set("traces_recorded", kept)
	if tracePath != "" {
		res.Traces = []string{tracePath}
	}
}

func vfC15Append(path, name string, seed int64, evs []map[string]any) error {
	tr := vfh.NewTrace(name)
	for _, e := range evs {
		kv := []any{}
		for k, v := range e {
			if k == "ev" || k == "seq" {
				continue
			}
			kv = append(kv, k, v)
		}
		tr.Emit(e["ev"].(string), kv...)
	}
	return tr.AppendTo(path, map[string]any{"seed": seed})
}

func vfC15Trunc(s string, n int) string {
	if len(s) > n {
		return s[:n]
	}
	return s
}
