//go:build verif

package eventbus

// Deterministic reproduction of the TLC counterexample of instance D (spec/C15_MC.tla): a
// subscription to several types is stuck inside Subscribe on the bus lock, while an emitter of its
// first type is blocked sending to its (unreadable) channel under the node lock, and a second
// Subscribe holds the bus lock waiting for that node lock.  The hooks serve as scheduler gates.

import (
	"fmt"
	"reflect"
	"sync/atomic"
	"testing"
	"time"

	"github.com/libp2p/go-libp2p/core/event"
	"github.com/libp2p/go-libp2p/internal/vfh"
)

func TestVerifC15SubscribeDeadlock(t *testing.T) {
	res := vfh.NewResult()
	defer func() {
		if err := res.Write(); err != nil {
			t.Fatal(err)
		}
	}()
	res.Rule = "one case = one attempt to drive the real bus through TLC's deadlock counterexample (instance D) with hook gates; non-trivial = the three calls were in flight together"
	for attempt := 0; attempt < 5; attempt++ {
		stuck, detail := vfC15DeadlockAttempt(attempt)
		res.Count(1, 6)
		res.Case(fmt.Sprintf("attempt-%d-%v", attempt, stuck))
		res.Case("scenario-D")
		if attempt == 0 {
			res.Sample(map[string]any{"scenario": "S=Subscribe([A,B],buf 0) gated after attaching A; E=Emit(A) queued on node A; T=Subscribe(A) takes bus lock, queued on node A; gate released", "outcome": detail})
		}
		if stuck {
			res.AddMismatch(vfh.Mismatch{Class: "deadlock-multitype-subscribe-buslock", Walk: -1, Step: attempt,
				What: "Subscribe([A,B]), Emit(A) and a second Subscribe(A) block each other for good: Subscribe waits for the bus lock held by the second Subscribe, which waits for node A's lock held by the emitter, which waits for a reader of the first subscription's channel - whose Subscribe has not returned. " + detail})
			return
		}
	}
}

func vfC15DeadlockAttempt(attempt int) (bool, string) {
	b := NewBus().(*basicBus)
	em, err := b.Emitter(new(vfC15EvA))
	if err != nil {
		panic(err)
	}
	gate := make(chan struct{})
	atGate := make(chan chan any, 1)
	var gated atomic.Bool
	VerifHook = func(ev string, typ reflect.Type, ch any, evt any) {
		if ev == "n.addsink" && typ == reflect.TypeOf(vfC15EvA{}) && gated.CompareAndSwap(false, true) {
			atGate <- ch.(chan any)
			<-gate // S holds node A's lock here; the bus lock is free
		}
	}
	defer func() { VerifHook = nil }()
	var sRet, tRet, eRet atomic.Bool
	done := make(chan struct{}, 3)
	go func() { // S
		s, err := b.Subscribe([]any{new(vfC15EvA), new(vfC15EvB)}, BufSize(0))
		sRet.Store(true)
		if err == nil {
			go func() {
				for range s.Out() {
				}
			}()
			defer s.Close()
		}
		done <- struct{}{}
	}()
	sch := <-atGate
	go func() { // E: queues on node A's lock
		em.Emit(vfC15EvA{E: "e1", N: 1})
		eRet.Store(true)
		done <- struct{}{}
	}()
	time.Sleep(30 * time.Millisecond) // ordering of the set-up only (E queued before T); never decides the verdict
	go func() {                       // T: takes the bus lock, queues on node A's lock behind E
		s, err := b.Subscribe(new(vfC15EvA), BufSize(16))
		tRet.Store(true)
		if err == nil {
			defer s.Close()
		}
		done <- struct{}{}
	}()
	for i := 0; i < 2000; i++ { // wait until T holds the bus lock
		if b.lk.TryLock() {
			b.lk.Unlock()
			time.Sleep(time.Millisecond)
			continue
		}
		break
	}
	time.Sleep(30 * time.Millisecond)
	close(gate)
	// observe
	stuck := true
	for i := 0; i < 10; i++ {
		time.Sleep(100 * time.Millisecond)
		if sRet.Load() || tRet.Load() || eRet.Load() {
			stuck = false
			break
		}
	}
	detail := fmt.Sprintf("after 1 s: Subscribe([A,B]) returned=%v, Subscribe(A) returned=%v, Emit(A) returned=%v", sRet.Load(), tRet.Load(), eRet.Load())
	if stuck {
		// the cycle is broken only by an outside party reading the channel of the subscription whose
		// Subscribe has not returned (impossible through the API)
		select {
		case <-sch:
		case <-time.After(2 * time.Second):
			detail += "; no pending send on the first subscription's channel"
		}
	}
	for i := 0; i < 3; i++ {
		select {
		case <-done:
		case <-time.After(5 * time.Second):
			detail += "; clean-up timed out"
			return stuck, detail
		}
	}
	if stuck {
		detail += "; all three calls completed once the harness read that channel directly"
	}
	return stuck, detail
}

// TestVerifC15CloseUnderContention drives the real bus into a state the model reaches and from which
// every behaviour of the model terminates (liveness of C15_EventBus): a subscription to <<A,B>> whose
// owner has stopped reading is being closed while (1) an emitter of B is stalled on its full channel
// holding node B's lock, (2) another Subscribe(B) holds the bus lock waiting for node B, and (3) node A
// becomes droppable when the subscription leaves it (so Close itself needs the bus lock).  Close's own
// drain goroutine is what unblocks the chain; all three calls must complete.
func TestVerifC15CloseUnderContention(t *testing.T) {
	res := vfh.NewResult()
	defer func() {
		if err := res.Write(); err != nil {
			t.Fatal(err)
		}
	}()
	res.Rule = "one case = one gate-driven scenario: Close of a two-type subscription under a stalled emit, a bus-lock holder and a droppable node; non-trivial = the contention was established before Close was called"
	for attempt := 0; attempt < 3; attempt++ {
		for _, buf := range []int{0, 1} {
			established, done, detail := vfC15CloseContention(buf)
			res.Count(1, 5)
			res.Case(fmt.Sprintf("buf%d-established-%v", buf, established))
			if attempt == 0 {
				res.Sample(map[string]any{"scenario": fmt.Sprintf("S=Subscribe([A,B],buf %d); A's emitter closed; Emit(B) stalled on S; T=Subscribe(B) holds bus lock; S.Close()", buf), "outcome": detail})
			}
			if established && !done {
				res.AddMismatch(vfh.Mismatch{Class: "deadlock-close-under-contention", Walk: -1, Step: attempt,
					What: "sub.Close() of a two-type subscription never returns while an Emit is stalled on its channel and another Subscribe holds the bus lock: " + detail})
				return
			}
		}
	}
}

func vfC15CloseContention(buf int) (established bool, done bool, detail string) {
	b := NewBus().(*basicBus)
	emA, err := b.Emitter(new(vfC15EvA))
	if err != nil {
		panic(err)
	}
	emB, err := b.Emitter(new(vfC15EvB))
	if err != nil {
		panic(err)
	}
	s, err := b.Subscribe([]any{new(vfC15EvA), new(vfC15EvB)}, BufSize(buf))
	if err != nil {
		panic(err)
	}
	emA.Close() // node A is kept alive by S alone
	var nodeB *node
	b.lk.RLock()
	nodeB = b.nodes[reflect.TypeOf(vfC15EvB{})]
	b.lk.RUnlock()
	fin := make(chan string, 8)
	// fill the buffer, then one more Emit stalls holding node B's lock (the owner of S does not read)
	go func() {
		for i := 0; i <= buf; i++ {
			emB.Emit(vfC15EvB{E: "e3", N: i + 1})
		}
		fin <- "emit"
	}()
	wait := func(cond func() bool) bool {
		for i := 0; i < 3000; i++ {
			if cond() {
				return true
			}
			time.Sleep(time.Millisecond)
		}
		return false
	}
	locked := func(try func() bool, unlock func()) bool {
		if try() {
			unlock()
			return false
		}
		return true
	}
	if !wait(func() bool { return len(s.Out()) == buf && locked(nodeB.lk.TryLock, nodeB.lk.Unlock) }) {
		return false, false, "emitter never stalled"
	}
	var tsub event.Subscription
	go func() {
		tsub, _ = b.Subscribe(new(vfC15EvB), BufSize(16))
		fin <- "subscribe"
	}()
	if !wait(func() bool { return locked(b.lk.TryLock, b.lk.Unlock) }) {
		return false, false, "second Subscribe never took the bus lock"
	}
	time.Sleep(20 * time.Millisecond)
	go func() {
		s.Close()
		fin <- "close"
	}()
	got := map[string]bool{}
	deadline := time.After(10 * time.Second)
	for len(got) < 3 {
		select {
		case x := <-fin:
			got[x] = true
		case <-deadline:
			detail = fmt.Sprintf("after 10 s: Close returned=%v, stalled Emit returned=%v, second Subscribe returned=%v", got["close"], got["emit"], got["subscribe"])
			// break the cycle from outside so the process can go on
			go func() {
				for range s.Out() {
				}
			}()
			return true, false, detail
		}
	}
	if tsub != nil {
		tsub.Close()
	}
	emB.Close()
	return true, true, "all three calls completed"
}

// TestVerifC15SubscribeVsLastClose: the last subscriber of a type that has no emitter closes while
// another Subscribe to that type is in flight (it has looked the node up holding the bus lock and waits
// for the node lock the closing subscriber holds).  Whatever the bus does with the node, the new
// subscription exists from the moment Subscribe returns: an emitter created afterwards must reach it.
// Hook "n.rmsink" (node lock held, sink removed) is the gate.
func TestVerifC15SubscribeVsLastClose(t *testing.T) {
	res := vfh.NewResult()
	defer func() {
		if err := res.Write(); err != nil {
			t.Fatal(err)
		}
	}()
	res.Rule = "one case = one gate-driven scenario: last subscriber of an emitter-less type closes (gated with the node lock held) while a second Subscribe holds the bus lock; then an emitter is created and emits; non-trivial = the second Subscribe held the bus lock while the first was gated"
	for attempt := 0; attempt < 6; attempt++ {
		buf := []int{0, 1, 4}[attempt%3]
		typed2 := attempt%2 == 0
		established, cls, detail := vfC15SubVsLastClose(buf, typed2)
		res.Count(1, 6)
		res.Case(fmt.Sprintf("buf%d-two%v-established-%v", buf, typed2, established))
		if attempt == 0 {
			res.Sample(map[string]any{"scenario": "S1=Subscribe(B); no emitter; S1.Close() gated at n.rmsink; S2=Subscribe(B) takes the bus lock; gate released; E=Emitter(B); Emit; S2 must receive", "outcome": detail})
		}
		if cls != "" {
			res.AddMismatch(vfh.Mismatch{Class: cls, Walk: -1, Step: attempt, What: detail})
			return
		}
	}
}

func vfC15SubVsLastClose(buf int, twoTypes bool) (established bool, cls string, detail string) {
	b := NewBus().(*basicBus)
	typB := reflect.TypeOf(vfC15EvB{})
	s1, err := b.Subscribe(new(vfC15EvB), BufSize(buf))
	if err != nil {
		panic(err)
	}
	s1ch := chanOf(s1)
	gate := make(chan struct{})
	atGate := make(chan struct{})
	var gated atomic.Bool
	VerifHook = func(ev string, typ reflect.Type, ch any, evt any) {
		if ev == "n.rmsink" && typ == typB && ch == any(s1ch) && gated.CompareAndSwap(false, true) {
			close(atGate)
			<-gate // S1 holds node B's lock here, its sink is gone, no emitter: the node looks droppable
		}
	}
	defer func() { VerifHook = nil }()
	fin := make(chan string, 4)
	go func() { s1.Close(); fin <- "close" }()
	select {
	case <-atGate:
	case <-time.After(5 * time.Second):
		close(gate)
		return false, "", "Close never reached the gate"
	}
	var s2 event.Subscription
	go func() {
		var err error
		if twoTypes {
			s2, err = b.Subscribe([]any{new(vfC15EvB), new(vfC15EvC)}, BufSize(8))
		} else {
			s2, err = b.Subscribe(new(vfC15EvB), BufSize(8))
		}
		if err != nil {
			panic(err)
		}
		fin <- "subscribe"
	}()
	// wait until the second Subscribe owns the bus lock (it then waits for the node lock)
	for i := 0; i < 3000 && !established; i++ {
		if b.lk.TryLock() {
			b.lk.Unlock()
			time.Sleep(time.Millisecond)
		} else {
			established = true
		}
	}
	time.Sleep(5 * time.Millisecond)
	close(gate)
	got := map[string]bool{}
	deadline := time.After(10 * time.Second)
	for len(got) < 2 {
		select {
		case x := <-fin:
			got[x] = true
		case <-deadline:
			return established, "stall-subscribe-vs-last-close", fmt.Sprintf("after the gate opened, finished only %v", got)
		}
	}
	// the subscription S2 exists: an emitter created now must reach it
	em, err := b.Emitter(new(vfC15EvB))
	if err != nil {
		panic(err)
	}
	done := make(chan struct{})
	go func() {
		em.Emit(vfC15EvB{E: "e3", N: 1})
		em.Emit(vfC15EvB{E: "e3", N: 2})
		close(done)
	}()
	select {
	case <-done:
	case <-time.After(10 * time.Second):
		return established, "stall-subscribe-vs-last-close", "Emit never returned"
	}
	var recv []int
	for empty := false; !empty; {
		select {
		case ev := <-s2.Out():
			recv = append(recv, ev.(vfC15EvB).N)
		default:
			empty = true
		}
	}
	listed := false
	for _, ty := range b.GetAllEventTypes() {
		if ty == typB {
			listed = true
		}
	}
	em.Close()
	s2.Close()
	if fmt.Sprint(recv) != "[1 2]" {
		return established, "lost-event", fmt.Sprintf("S2 = Subscribe(B) returned before Emitter(B) was created and e3#1, e3#2 were emitted (both Emit calls returned), but S2 received %v (Subscribe raced with the Close of the last earlier subscriber of B; established=%v)", recv, established)
	}
	if !listed {
		return established, "L2:type-not-listed", "GetAllEventTypes did not list B while S2 and the emitter were alive"
	}
	return established, "", fmt.Sprintf("S2 received %v", recv)
}

// TestVerifC15WildcardJoinVsLeave: a wildcard Subscribe that has announced itself (nSinks) but not yet
// attached, overlapped by the Close of another wildcard subscription whose locked section runs in between.
// Order forced with the hook "w.rlock" (an emit parked holding the wildcard read lock) and the RWMutex's own
// writer queue; afterwards every event emitted must reach the new subscription.
func TestVerifC15WildcardJoinVsLeave(t *testing.T) {
	res := vfh.NewResult()
	defer func() {
		if err := res.Write(); err != nil {
			t.Fatal(err)
		}
	}()
	res.Rule = "one case = one gate-driven scenario: Emit parked holding the wildcard read lock; wildcard sub A closes (queued for the write lock); wildcard sub B subscribes (announced, queued behind A); gate released; later events must reach B; non-trivial = both writers were queued before the gate opened"
	for attempt := 0; attempt < 4; attempt++ {
		established, cls, detail := vfC15WildcardJoinVsLeave(attempt)
		res.Count(1, 6)
		res.Case(fmt.Sprintf("a%d-established-%v", attempt, established))
		if attempt == 0 {
			res.Sample(map[string]any{"scenario": "E.Emit parked at w.rlock; A.Close queued; B=Subscribe(*) queued behind A; released; Emit x3; B must receive all three", "outcome": detail})
		}
		if cls != "" {
			res.AddMismatch(vfh.Mismatch{Class: cls, Walk: -1, Step: attempt, What: detail})
			return
		}
	}
}

func vfC15WildcardJoinVsLeave(attempt int) (established bool, cls string, detail string) {
	b := NewBus().(*basicBus)
	em, err := b.Emitter(new(vfC15EvB))
	if err != nil {
		panic(err)
	}
	a, err := b.Subscribe(event.WildcardSubscription, BufSize(16))
	if err != nil {
		panic(err)
	}
	w := b.wildcard
	gate := make(chan struct{})
	atGate := make(chan struct{})
	var gated atomic.Bool
	VerifHook = func(ev string, typ reflect.Type, ch any, evt any) {
		if ev == "w.rlock" && gated.CompareAndSwap(false, true) {
			close(atGate)
			<-gate // the emitter holds the wildcard read lock here
		}
	}
	defer func() { VerifHook = nil }()
	fin := make(chan string, 4)
	go func() { em.Emit(vfC15EvB{E: "e3", N: 1}); fin <- "emit" }()
	select {
	case <-atGate:
	case <-time.After(5 * time.Second):
		close(gate)
		return false, "", "Emit never reached the gate"
	}
	go func() { a.Close(); fin <- "close" }()
	// A's removeSink is queued for the write lock once new readers are refused
	queuedA := false
	for i := 0; i < 3000 && !queuedA; i++ {
		if w.TryRLock() {
			w.RUnlock()
			time.Sleep(time.Millisecond)
		} else {
			queuedA = true
		}
	}
	var bsub event.Subscription
	go func() {
		var err error
		bsub, err = b.Subscribe(event.WildcardSubscription, BufSize(16))
		if err != nil {
			panic(err)
		}
		fin <- "subscribe"
	}()
	// B has announced itself when the counter is back at one (A took itself off before queueing)
	announced := false
	for i := 0; i < 3000 && !announced; i++ {
		if w.nSinks.Load() >= 1 {
			announced = true
		} else {
			time.Sleep(time.Millisecond)
		}
	}
	time.Sleep(5 * time.Millisecond)
	established = queuedA && announced
	close(gate)
	got := map[string]bool{}
	deadline := time.After(10 * time.Second)
	for len(got) < 3 {
		select {
		case x := <-fin:
			got[x] = true
		case <-deadline:
			return established, "stall-wildcard-join-vs-leave", fmt.Sprintf("after the gate opened, finished only %v", got)
		}
	}
	for n := 2; n <= 4; n++ {
		em.Emit(vfC15EvB{E: "e3", N: n})
	}
	var recv []int
	for empty := false; !empty; {
		select {
		case ev := <-bsub.Out():
			recv = append(recv, ev.(vfC15EvB).N)
		default:
			empty = true
		}
	}
	em.Close()
	bsub.Close()
	// (event 1 was in flight while B subscribed: B may or may not have got it)
	want := map[string]bool{"[2 3 4]": true, "[1 2 3 4]": true}
	if !want[fmt.Sprint(recv)] {
		return established, "lost-event", fmt.Sprintf("B = Subscribe(*) returned, then e3#2..#4 were emitted (every Emit returned), but B received %v (its Subscribe overlapped the Close of another wildcard subscription; established=%v)", recv, established)
	}
	return established, "", fmt.Sprintf("B received %v", recv)
}
