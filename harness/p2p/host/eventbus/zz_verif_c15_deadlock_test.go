//go:build verif

package eventbus

// Deterministic reproduction of the TLC counterexample of instance D (spec/C15_MC.tla): a
// subscription to several types is stuck inside Subscribe on the bus lock, while an emitter of its
// first type is blocked sending to its (unreadable) channel under the node lock, and a second
// Subscribe holds the bus lock waiting for that node lock.  The hooks serve as scheduler gates.

import (
	"fmt"
	"reflect"
	"sync/atomic"
	"testing"
	"time"

	"github.com/libp2p/go-libp2p/internal/vfh"
)

func TestVerifC15SubscribeDeadlock(t *testing.T) {
	res := vfh.NewResult()
	defer func() {
		if err := res.Write(); err != nil {
			t.Fatal(err)
		}
	}()
	res.Rule = "one case = one attempt to drive the real bus through TLC's deadlock counterexample (instance D) with hook gates; non-trivial = the three calls were in flight together"
	for attempt := 0; attempt < 5; attempt++ {
		stuck, detail := vfC15DeadlockAttempt(attempt)
		res.Count(1, 6)
		res.Case(fmt.Sprintf("attempt-%d-%v", attempt, stuck))
		res.Case("scenario-D")
		if attempt == 0 {
			res.Sample(map[string]any{"scenario": "S=Subscribe([A,B],buf 0) gated after attaching A; E=Emit(A) queued on node A; T=Subscribe(A) takes bus lock, queued on node A; gate released", "outcome": detail})
		}
		if stuck {
			res.AddMismatch(vfh.Mismatch{Class: "deadlock-multitype-subscribe-buslock", Walk: -1, Step: attempt,
				What: "Subscribe([A,B]), Emit(A) and a second Subscribe(A) block each other for good: Subscribe waits for the bus lock held by the second Subscribe, which waits for node A's lock held by the emitter, which waits for a reader of the first subscription's channel - whose Subscribe has not returned. " + detail})
			return
		}
	}
}

func vfC15DeadlockAttempt(attempt int) (bool, string) {
	b := NewBus().(*basicBus)
	em, err := b.Emitter(new(vfC15EvA))
	if err != nil {
		panic(err)
	}
	gate := make(chan struct{})
	atGate := make(chan chan any, 1)
	var gated atomic.Bool
	VerifHook = func(ev string, typ reflect.Type, ch any, evt any) {
		if ev == "n.addsink" && typ == reflect.TypeOf(vfC15EvA{}) && gated.CompareAndSwap(false, true) {
			atGate <- ch.(chan any)
			<-gate // S holds node A's lock here; the bus lock is free
		}
	}
	defer func() { VerifHook = nil }()
	var sRet, tRet, eRet atomic.Bool
	done := make(chan struct{}, 3)
	go func() { // S
		s, err := b.Subscribe([]any{new(vfC15EvA), new(vfC15EvB)}, BufSize(0))
		sRet.Store(true)
		if err == nil {
			go func() {
				for range s.Out() {
				}
			}()
			defer s.Close()
		}
		done <- struct{}{}
	}()
	sch := <-atGate
	go func() { // E: queues on node A's lock
		em.Emit(vfC15EvA{E: "e1", N: 1})
		eRet.Store(true)
		done <- struct{}{}
	}()
	time.Sleep(30 * time.Millisecond) // ordering of the set-up only (E queued before T); never decides the verdict
	go func() { // T: takes the bus lock, queues on node A's lock behind E
		s, err := b.Subscribe(new(vfC15EvA), BufSize(16))
		tRet.Store(true)
		if err == nil {
			defer s.Close()
		}
		done <- struct{}{}
	}()
	for i := 0; i < 2000; i++ { // wait until T holds the bus lock
		if b.lk.TryLock() {
			b.lk.Unlock()
			time.Sleep(time.Millisecond)
			continue
		}
		break
	}
	time.Sleep(30 * time.Millisecond)
	close(gate)
	// observe
	stuck := true
	for i := 0; i < 10; i++ {
		time.Sleep(100 * time.Millisecond)
		if sRet.Load() || tRet.Load() || eRet.Load() {
			stuck = false
			break
		}
	}
	detail := fmt.Sprintf("after 1 s: Subscribe([A,B]) returned=%v, Subscribe(A) returned=%v, Emit(A) returned=%v", sRet.Load(), tRet.Load(), eRet.Load())
	if stuck {
		// the cycle is broken only by an outside party reading the channel of the subscription whose
		// Subscribe has not returned (impossible through the API)
		select {
		case <-sch:
		case <-time.After(2 * time.Second):
			detail += "; no pending send on the first subscription's channel"
		}
	}
	for i := 0; i < 3; i++ {
		select {
		case <-done:
		case <-time.After(5 * time.Second):
			detail += "; clean-up timed out"
			return stuck, detail
		}
	}
	if stuck {
		detail += "; all three calls completed once the harness read that channel directly"
	}
	return stuck, detail
}
