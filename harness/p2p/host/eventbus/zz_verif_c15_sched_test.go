//go:build verif

package eventbus

// Controlled scheduling for the C15 workloads.  Every line the recorder logs - the harness's own
// call/return/receive events and the hook events at the bus's critical sections - is a scheduling
// point: the goroutine parks there until the scheduler releases it.  The scheduler waits until every
// goroutine that is executing bus or workload code is blocked (parked, or waiting for a lock, a
// channel or a wait group), then releases ONE parked goroutine chosen by the seeded generator.  So a
// run is a uniformly random interleaving at critical-section grain (what TLC enumerates on the
// model), reproducible from its seed, and a state in which nothing is parked, nothing can run and
// the workload has not finished is a deadlock - detected without any time-out.

import (
	"bytes"
	"math/rand"
	"runtime"
	"strings"
	"sync"
	"time"
)

type vfC15Sched struct {
	mu     sync.Mutex
	parked []chan struct{}
	rnd    *rand.Rand
	off    bool
	stopCh chan struct{}
	doneCh chan struct{}
	Steps  int
	Dead   string // goroutine dump when a deadlock was detected
}

func newVfC15Sched(seed int64) *vfC15Sched {
	return &vfC15Sched{rnd: rand.New(rand.NewSource(seed)), stopCh: make(chan struct{}), doneCh: make(chan struct{})}
}

func (s *vfC15Sched) park() {
	s.mu.Lock()
	if s.off {
		s.mu.Unlock()
		return
	}
	ch := make(chan struct{})
	s.parked = append(s.parked, ch)
	s.mu.Unlock()
	<-ch
}

func (s *vfC15Sched) stop() {
	close(s.stopCh)
	<-s.doneCh
}

func (s *vfC15Sched) releaseAll() {
	s.mu.Lock()
	s.off = true
	for _, ch := range s.parked {
		close(ch)
	}
	s.parked = nil
	s.mu.Unlock()
}

// quiet reports whether every goroutine executing eventbus code (bus or workload) is blocked; the
// second result is the dump it looked at.
func vfC15Quiet(buf []byte) (bool, []byte) {
	n := runtime.Stack(buf, true)
	dump := buf[:n]
	for _, g := range bytes.Split(dump, []byte("\n\n")) {
		if !bytes.Contains(g, []byte("p2p/host/eventbus")) {
			continue
		}
		if bytes.Contains(g, []byte("vfC15Sched).loop")) {
			continue
		}
		nl := bytes.IndexByte(g, '\n')
		if nl < 0 {
			continue
		}
		hdr := string(g[:nl]) // goroutine 12 [chan receive]:
		i, j := strings.IndexByte(hdr, '['), strings.LastIndexByte(hdr, ']')
		if i < 0 || j < i {
			continue
		}
		st := hdr[i+1 : j]
		if k := strings.IndexByte(st, ','); k >= 0 {
			st = st[:k] // "chan receive, 2 minutes"
		}
		switch st {
		case "chan receive", "chan send", "select", "sync.Mutex.Lock", "sync.RWMutex.Lock", "sync.RWMutex.RLock",
			"sync.WaitGroup.Wait", "semacquire", "sync.Cond.Wait", "chan receive (nil chan)", "chan send (nil chan)",
			"select (no cases)":
		default:
			return false, dump // running, runnable, syscall, sleep, GC assist, ...
		}
	}
	return true, dump
}

func (s *vfC15Sched) loop() {
	defer close(s.doneCh)
	buf := make([]byte, 1<<20)
	idle := 0
	for {
		select {
		case <-s.stopCh:
			s.releaseAll()
			return
		default:
		}
		q, dump := vfC15Quiet(buf)
		if !q {
			idle = 0
			runtime.Gosched()
			continue
		}
		// look twice: a goroutine may have been between two blocking operations
		runtime.Gosched()
		if q2, _ := vfC15Quiet(buf); !q2 {
			idle = 0
			continue
		}
		s.mu.Lock()
		n := len(s.parked)
		if n > 0 {
			i := s.rnd.Intn(n)
			ch := s.parked[i]
			s.parked = append(s.parked[:i], s.parked[i+1:]...)
			s.Steps++
			s.mu.Unlock()
			close(ch)
			idle = 0
			continue
		}
		s.mu.Unlock()
		// nothing is parked and nothing runs: either the workload is about to signal completion
		// (stopCh), or this is a deadlock. Give completion a moment to arrive, then decide.
		idle++
		if idle < 40 {
			time.Sleep(500 * time.Microsecond)
			continue
		}
		select {
		case <-s.stopCh:
			s.releaseAll()
			return
		default:
		}
		s.Dead = string(dump)
		s.releaseAll()
		return
	}
}
