//go:build verif && go1.25

package basichost_test

// Conformance harness for C02, BasicHost streams with TIME as a dimension: the behaviours of
// spec/C02_LazyMS.tla - including its Wait(c) steps - on optimistic (lazily negotiated) streams between two
// real libp2p nodes (QUIC over the simulated network of x/simlibp2p: real stream deadlines, keep-alives and
// idle timeouts) inside a testing/synctest bubble.  A Wait step sleeps VIRTUAL time: just below / just above
// the negotiation timeout, a second, a minute, an hour.  The application never sets a deadline, so the L1
// ledger demands what it demands without time: what the peer writes after the delay is delivered (also after
// the own CloseWrite: half-close followed by further reads) and no read fails with a deadline error.

import (
	"path/filepath"
	"sort"
	"testing"
	"testing/synctest"
	"time"

	"github.com/libp2p/go-libp2p/internal/vfh"
	basichost "github.com/libp2p/go-libp2p/p2p/host/basic"
	"github.com/libp2p/go-libp2p/x/simlibp2p"
)

func TestVerifC02LazyTime(t *testing.T) {
	res := vfh.NewResult()
	res.Rule = "distinct = (operation, size class, first call, eof, after own CloseWrite, delay class) combinations executed on real BasicHost streams under virtual time"
	defer func() {
		if err := res.Write(); err != nil {
			t.Fatal(err)
		}
	}()
	files, _ := filepath.Glob(filepath.Join(vfh.In(), "lazy_*.jsonl"))
	sort.Strings(files)
	if len(files) == 0 {
		t.Fatal("no lazy behaviour files")
	}
	neg := basichost.DefaultNegotiationTimeout
	delays := map[string]time.Duration{
		"1s": time.Second, "neg-": neg - 300*time.Millisecond, "neg+": neg + 300*time.Millisecond,
		"1min": time.Minute, "1h": time.Hour,
	}
	share := vfh.EnvInt("VERIF_C02_TIME_SHARE", 4)
	synctest.Test(t, func(t *testing.T) {
		h1, h2 := simlibp2p.GetBasicHostPair(t)
		defer h1.Close()
		defer h2.Close()
		sleep := func(class string) time.Duration {
			d := delays[class]
			time.Sleep(d)
			return d
		}
		if err := vfC02LazyReplay(res, files, h1, h2, "sim-quic-time", share, 1, 32768, sleep); err != nil {
			t.Fatal(err)
		}
	})
}
