//go:build verif

package basichost

// Scenarios of the extension engine C17am outside the bounded model: a free-running manager (no gates) with the
// production constants under testing/synctest, and the wiring of the manager into a real BasicHost on a real swarm.

import (
	"encoding/json"
	"fmt"
	"os"
	"path/filepath"
	"sort"
	"testing"
	"testing/synctest"
	"time"

	"github.com/libp2p/go-libp2p/core/event"
	"github.com/libp2p/go-libp2p/core/network"
	"github.com/libp2p/go-libp2p/core/peer"
	"github.com/libp2p/go-libp2p/internal/vfh"
	"github.com/libp2p/go-libp2p/p2p/host/eventbus"
	swarmt "github.com/libp2p/go-libp2p/p2p/net/swarm/testing"
	ma "github.com/multiformats/go-multiaddr"
	manet "github.com/multiformats/go-multiaddr/net"
)

type vfC17amScen struct {
	res  *vfh.Result
	name string
}

func (s *vfC17amScen) rep(cls, what string) {
	s.res.AddMismatch(vfh.Mismatch{Class: cls, What: "[" + s.name + "] " + what, Walk: -1, Step: -1})
}

type vfC17amManyObs struct {
	ans map[string][]ma.Multiaddr
	n   int
}

func (o *vfC17amManyObs) AddrsFor(a ma.Multiaddr) []ma.Multiaddr {
	o.n++
	return append([]ma.Multiaddr(nil), o.ans[string(a.Bytes())]...)
}
func (o *vfC17amManyObs) Addrs(int) []ma.Multiaddr { return nil }

func TestVerifC17amScenarios(t *testing.T) {
	res := vfh.NewResult()
	fullCfg := vfC17amCfg{Name: "scen", Listen: []string{"Lpriv"}, HasNAT: true, HasObs: true}

	// (1) the ticker alone reflects a change: at most one period (5 s) after the change, whatever the phase
	for fam := range vfC17amFamilies {
		for _, phase := range []time.Duration{time.Millisecond, 2500 * time.Millisecond, 4999 * time.Millisecond, 5 * time.Second, 12 * time.Second} {
			sc := &vfC17amScen{res: res, name: fmt.Sprintf("ticker/f%d/%v", fam, phase)}
			synctest.Test(t, func(t *testing.T) {
				h, err := vfC17amNew(fullCfg, fam, true)
				if err != nil {
					t.Fatal(err)
				}
				t0 := time.Now()
				if err := h.am.Start(); err != nil {
					t.Fatal(err)
				}
				synctest.Wait()
				_, direct, _, _, _, _, _ := h.query()
				if !vfC17amEq(direct, []string{"Lpriv"}) {
					sc.rep("am-start-returned-early", fmt.Sprintf("Start returned and DirectAddrs() is %v, listening on Lpriv", direct))
				}
				h.events()
				time.Sleep(phase)
				synctest.Wait()
				h.events()
				h.mu.Lock()
				h.listen["Lun"] = true
				h.nat["Lpriv"] = "Npub"
				h.obs["Ri2"] = []string{"O1", "O2", "O3", "O4"}
				h.mu.Unlock()
				changed := time.Since(t0)
				want := []string{"Lpriv", "Npub", "O1", "O2", "O3", "Ri1", "Ri2"}
				_, direct, _, _, _, _, _ = h.query()
				if !vfC17amEq(direct, []string{"Lpriv"}) {
					sc.rep("L2:eager", fmt.Sprintf("DirectAddrs() changed to %v without a trigger", direct))
				}
				due := (changed/addrChangeTickrInterval + 1) * addrChangeTickrInterval // next instant of the ticker
				time.Sleep(due - changed + time.Nanosecond)
				synctest.Wait()
				_, direct, _, _, _, _, _ = h.query()
				if !vfC17amEq(direct, want) {
					sc.rep("am-change-not-reflected-by-ticker", fmt.Sprintf("inputs changed %v after Start; %v after Start (one ticker period later at most) DirectAddrs() is %v, expected %v",
						changed, time.Since(t0), direct, want))
				}
				evs := h.events()
				if len(evs) != 1 || !vfC17amEq(evs[0].Current, want) || !vfC17amEq(evs[0].Added, want[1:]) || len(evs[0].Removed) != 0 {
					sc.rep("am-event-current-differs", fmt.Sprintf("events after the tick: %+v, expected one with Current %v", evs, want))
				}
				// nothing changes: no further event, however many ticks
				time.Sleep(time.Minute)
				synctest.Wait()
				if evs := h.events(); len(evs) != 0 {
					sc.rep("am-event-without-change", fmt.Sprintf("%d events while nothing changed: %+v", len(evs), evs))
				}
				h.finish(sc.rep)
				res.Inc("ticker_reflects", 1)
				res.Count(1, 4)
			})
		}
	}

	// (2) the production cap with long answers, addresses outside the model's universe
	synctest.Test(t, func(t *testing.T) {
		sc := &vfC17amScen{res: res, name: "cap"}
		h, err := vfC17amNew(vfC17amCfg{Name: "cap", Listen: []string{"Lpriv", "Lun"}, HasNAT: true, HasObs: false}, 0, true)
		if err != nil {
			t.Fatal(err)
		}
		many := &vfC17amManyObs{ans: map[string][]ma.Multiaddr{}}
		wantSet := map[string]bool{}
		for i, key := range []string{"Lpriv", "Lun", "Ri1", "Ri2"} {
			var l []ma.Multiaddr
			for j := 0; j < 10; j++ {
				a := ma.StringCast(fmt.Sprintf("/ip4/11.%d.0.%d/tcp/%d", i, j+1, 9000+j))
				l = append(l, a)
				if j < maxObservedAddrsPerListenAddr {
					wantSet[a.String()] = true
				}
			}
			many.ans[string(h.u.conc[key].Bytes())] = l
		}
		for _, n := range []string{"Lpriv", "Ri1", "Ri2"} {
			wantSet[h.u.conc[n].String()] = true
		}
		h.am.observedAddrsManager = many
		if err := h.am.Start(); err != nil {
			t.Fatal(err)
		}
		synctest.Wait()
		got := map[string]bool{}
		for _, a := range h.am.DirectAddrs() {
			if got[a.String()] {
				sc.rep("am-duplicate-address", "DirectAddrs() holds "+a.String()+" twice")
			}
			got[a.String()] = true
		}
		for a := range got {
			if !wantSet[a] {
				sc.rep("am-observed-cap-exceeded", fmt.Sprintf("DirectAddrs() holds %s: not among the first %d of an answer", a, maxObservedAddrsPerListenAddr))
			}
		}
		for a := range wantSet {
			if !got[a] {
				sc.rep("am-address-dropped:obs", fmt.Sprintf("DirectAddrs() lacks %s", a))
			}
		}
		res.Set("production_cap", len(got))
		res.Set("production_cap_asked", many.n)
		h.finish(sc.rep)
		res.Count(1, 1)
	})

	// (3) Close without Start, Close twice, notification before Start and after Close
	synctest.Test(t, func(t *testing.T) {
		sc := &vfC17amScen{res: res, name: "close"}
		h, err := vfC17amNew(fullCfg, 1, true)
		if err != nil {
			t.Fatal(err)
		}
		done := 0
		go func() {
			h.am.updateAddrsSync()
			h.am.NetNotifee().Listen(nil, nil)
			done++
		}()
		synctest.Wait()
		if done != 1 {
			sc.rep("am-notify-does-not-return", "a notification before Start did not return at once")
		}
		if _, direct, _, _, _, _, _ := h.query(); len(direct) != 0 || h.upd != nil || len(h.done) != 0 {
			sc.rep("am-active-before-start", fmt.Sprintf("a notification before Start computed addresses: %v", direct))
		}
		closed := 0
		go func() {
			h.am.Close()
			closed++
			h.am.Close()
			closed++
		}()
		synctest.Wait()
		if closed != 2 {
			sc.rep("am-close-does-not-return", fmt.Sprintf("Close without Start / a second Close did not return (%d of 2)", closed))
		}
		h.closeCalled, h.closeDone = true, true
		go func() {
			h.am.updateAddrsSync()
			done++
		}()
		synctest.Wait()
		if done != 2 {
			sc.rep("am-notify-does-not-return", "a notification after Close did not return at once")
		}
		res.Set("close_without_start", h.natClosed)
		h.finish(sc.rep)
		res.Count(1, 3)
	})

	// (3b) Close of a running manager twice; ticks afterwards read nothing
	synctest.Test(t, func(t *testing.T) {
		sc := &vfC17amScen{res: res, name: "close-running"}
		h, err := vfC17amNew(vfC17amCfg{Name: "close-running", Listen: []string{"Lpub"}, HasNAT: true, HasObs: true, Tracker: true}, 2, true)
		if err != nil {
			t.Fatal(err)
		}
		h.truth["Lpub"] = "pub"
		if err := h.am.Start(); err != nil {
			t.Fatal(err)
		}
		time.Sleep(3 * time.Second)
		synctest.Wait()
		if _, _, r, _, _, _, _ := h.query(); !vfC17amEq(r, []string{"Lpub"}) {
			sc.rep("am-confirmed-differ:reachable", fmt.Sprintf("3 s after Start the reachable set is %v, the stub client answers Public for Lpub", r))
		}
		h.closeCall()
		h.closeCalled = true
		if !h.closeDone {
			sc.rep("am-close-does-not-return", "Close of a free-running manager did not return")
		}
		h.closedOK = true
		h.events()
		h.mu.Lock()
		h.listen["Lpriv"] = true
		np := len(h.probes)
		h.mu.Unlock()
		time.Sleep(2 * time.Hour)
		synctest.Wait()
		h.mu.Lock()
		late, np2 := h.readsAfterClose, len(h.probes)
		h.mu.Unlock()
		if late > 0 {
			sc.rep("am-active-after-close", fmt.Sprintf("%d stub reads after Close had returned", late))
		}
		if np2 != np {
			sc.rep("am-active-after-close", fmt.Sprintf("%d autonat probes after Close had returned", np2-np))
		}
		if evs := h.events(); len(evs) > 0 {
			sc.rep("am-event-after-close", fmt.Sprintf("events after Close: %+v", evs))
		}
		res.Set("close_running_probes", np)
		h.finish(sc.rep)
		res.Count(1, 3)
	})

	// (4) a very long advertised list: the event lists everything, the signed record must stay below identify's limit
	// (maxPeerRecordSize: "8k to be compatible with identify's limit"; identify reads with an 8 KiB message limit)
	for _, shape := range []struct {
		name string
		n    int
		mk   func(i int) string
	}{
		{"short", 1500, func(i int) string { return fmt.Sprintf("/ip4/12.%d.%d.1/tcp/4001", i/250, i%250) }},
		{"medium", 600, func(i int) string {
			return fmt.Sprintf("/ip4/12.%d.%d.1/tcp/4001/tls/sni/host-%04d.example.net/ws", i/250, i%250, i)
		}},
		{"long", 120, func(i int) string {
			return fmt.Sprintf("/ip4/12.0.%d.1/udp/4001/quic-v1/webtransport/certhash/uEiAkH5a4DPGKUuOBjYw0CgwjvcJCJMD2K_1aluKR_tpevQ/certhash/uEiAfbgiymPP2_nX7Dgir8B4QkksjHp2lVuJZz0F_FAYIpA", i)
		}},
		{"huge", 40, func(i int) string {
			return fmt.Sprintf("/dns4/%s-%03d.example.net/tcp/443/wss", "a-very-long-host-name-a-very-long-host-name-a-very-long-host-name-a-very-long-host-name-a-very-long-host-name-a-very-long-host-name-a-very-long-host-name-a-very-long-host-name-a-very-long", i)
		}},
	} {
		synctest.Test(t, func(t *testing.T) {
			sc := &vfC17amScen{res: res, name: "record/" + shape.name}
			h, err := vfC17amNew(vfC17amCfg{Name: "record", Listen: []string{"Lpriv"}, HasNAT: false, HasObs: false}, 0, true)
			if err != nil {
				t.Fatal(err)
			}
			var long []ma.Multiaddr
			for i := 0; i < shape.n; i++ {
				long = append(long, ma.StringCast(shape.mk(i)))
			}
			h.am.addrsFactory = func(in []ma.Multiaddr) []ma.Multiaddr { return append(append([]ma.Multiaddr(nil), in...), long...) }
			if err := h.am.Start(); err != nil {
				t.Fatal(err)
			}
			synctest.Wait()
			if n := len(h.am.Addrs()); n != shape.n+1 {
				sc.rep("am-addrs-differ", fmt.Sprintf("Addrs() has %d addresses, the factory answers %d", n, shape.n+1))
			}
			evs := h.events()
			if len(evs) != 1 || len(evs[0].Current) != shape.n+1 {
				sc.rep("am-event-current-differs", fmt.Sprintf("%d events for the first list of %d addresses", len(evs), shape.n+1))
			}
			env := h.cab.GetPeerRecord(h.pid)
			if env == nil {
				sc.rep("am-record-differs", "no signed peer record stored for a long address list")
			} else {
				raw, _ := env.Marshal()
				rec, _ := env.Record()
				pr, _ := rec.(*peer.PeerRecord)
				if pr == nil {
					pr = &peer.PeerRecord{}
				}
				if len(pr.Addrs) == 0 || len(pr.Addrs) > shape.n {
					sc.rep("am-record-differs", fmt.Sprintf("signed peer record with %d of %d addresses", len(pr.Addrs), shape.n+1))
				}
				if len(raw) > maxPeerRecordSize {
					sc.rep("L2:am-signed-record-over-identify-limit", fmt.Sprintf("%d advertised addresses of ~%d bytes: the stored signed peer record has %d bytes (maxPeerRecordSize %d, identify's read limit) with %d addresses",
						shape.n+1, len(long[0].Bytes()), len(raw), maxPeerRecordSize, len(pr.Addrs)))
				}
				adv := map[string]bool{}
				for _, a := range h.am.Addrs() {
					adv[a.String()] = true
				}
				for _, a := range pr.Addrs {
					if !adv[a.String()] {
						sc.rep("am-record-differs", "the signed record lists "+a.String()+", which is not advertised")
					}
				}
				res.Inc("record_trimmed", 1)
				res.Set("record_bytes_"+shape.name, len(raw))
				res.Set("record_addrs_"+shape.name, len(pr.Addrs))
			}
			h.finish(sc.rep)
			res.Count(1, 1)
		})
	}

	// (5) wiring into a real BasicHost on a real swarm: Listen / ListenClose are reflected when they return
	func() {
		sc := &vfC17amScen{res: res, name: "host"}
		obsAddr := ma.StringCast("/ip4/9.8.7.6/tcp/4001")
		extra := ma.StringCast("/dns4/announce.example.com/tcp/443/wss")
		var listenAddr ma.Multiaddr
		obs := &vfC17amHostObs{f: func(a ma.Multiaddr) []ma.Multiaddr {
			if listenAddr != nil && (a == nil || a.Equal(listenAddr)) {
				return []ma.Multiaddr{obsAddr}
			}
			return nil
		}}
		sw := swarmt.GenSwarm(t, swarmt.OptDialOnly, swarmt.OptDisableQUIC, swarmt.OptDisableWebTransport, swarmt.OptDisableWebRTC)
		h, err := NewHost(sw, &HostOpts{ObservedAddrsManager: obs,
			AddrsFactory: func(in []ma.Multiaddr) []ma.Multiaddr { return append(in, extra) }})
		if err != nil {
			t.Fatal(err)
		}
		sub, err := h.EventBus().Subscribe(new(event.EvtLocalAddressesUpdated), eventbus.BufSize(64))
		if err != nil {
			t.Fatal(err)
		}
		h.Start()
		str := func(l []ma.Multiaddr) []string {
			out := []string{}
			for _, a := range l {
				out = append(out, a.String())
			}
			sort.Strings(out)
			return out
		}
		if got := str(h.Addrs()); !vfC17amEq(got, []string{extra.String()}) {
			sc.rep("am-addrs-differ", fmt.Sprintf("host without listen addresses: Addrs() = %v", got))
		}
		if err := h.Network().Listen(ma.StringCast("/ip4/127.0.0.1/tcp/0")); err != nil {
			t.Fatal(err)
		}
		las := h.Network().ListenAddresses()
		if len(las) != 1 {
			t.Fatalf("listen addresses: %v", las)
		}
		// the observed-address stub starts answering now; the next notification must pick it up
		got := str(h.AllAddrs())
		if !vfC17amEq(got, []string{las[0].String()}) {
			sc.rep("am-listen-not-reflected", fmt.Sprintf("Listen returned and AllAddrs() = %v, listening on %v", got, las))
		}
		listenAddr = las[0]
		h.addressManager.updateAddrsSync()
		want := []string{obsAddr.String(), las[0].String()}
		sort.Strings(want)
		if got := str(h.AllAddrs()); !vfC17amEq(got, want) {
			sc.rep("am-direct-addrs-differ", fmt.Sprintf("AllAddrs() = %v, expected %v", got, want))
		}
		wantA := append([]string{extra.String()}, want...)
		sort.Strings(wantA)
		if got := str(h.Addrs()); !vfC17amEq(got, wantA) {
			sc.rep("am-addrs-differ", fmt.Sprintf("Addrs() = %v, expected %v", got, wantA))
		}
		if got := str(h.Peerstore().Addrs(h.ID())); !vfC17amEq(got, wantA) {
			sc.rep("am-peerstore-differs", fmt.Sprintf("the host's peerstore entry = %v, expected %v", got, wantA))
		}
		if hp := str(h.addressManager.HolePunchAddrs()); !vfC17amEq(hp, []string{extra.String(), obsAddr.String()}) && !vfC17amEq(hp, []string{obsAddr.String(), extra.String()}) {
			sc.rep("am-holepunch-addrs-differ", fmt.Sprintf("HolePunchAddrs() = %v", hp))
		}
		sw.ListenClose(las[0])
		// the swarm announces ListenClose from the listener's goroutine, after ListenClose has returned: wait for it
		// (bounded generously; the ticker would reflect it as well)
		deadline := time.Now().Add(2 * time.Minute)
		for time.Now().Before(deadline) && !vfC17amEq(str(h.Addrs()), []string{extra.String()}) {
			time.Sleep(2 * time.Millisecond)
		}
		if got := str(h.Addrs()); !vfC17amEq(got, []string{extra.String()}) {
			sc.rep("am-closed-listen-address-advertised", fmt.Sprintf("two minutes after ListenClose Addrs() = %v", got))
		}
		n := 0
		var last event.EvtLocalAddressesUpdated
	drain:
		for {
			select {
			case e := <-sub.Out():
				last = e.(event.EvtLocalAddressesUpdated)
				n++
			default:
				break drain
			}
		}
		if n != 4 || len(last.Current) != 1 || len(last.Removed) != 2 {
			sc.rep("am-event-current-differs", fmt.Sprintf("%d EvtLocalAddressesUpdated, the last with %d current / %d removed; expected 4 (start, listen, observed, close), 1, 2", n, len(last.Current), len(last.Removed)))
		}
		sub.Close()
		h.Close()
		_ = network.ReachabilityPrivate
		_ = manet.IsPublicAddr
		res.Set("host_wiring", n)
		res.Count(1, 5)
	}()

	b, err := json.MarshalIndent(map[string]any{"replayed": res.Replayed, "steps": res.Steps, "mismatches": res.Mismatches,
		"samples": []any{}, "extra": res.Extra}, "", " ")
	if err != nil {
		t.Fatal(err)
	}
	if vfh.Out() == "" {
		fmt.Println(string(b))
		return
	}
	d := filepath.Join(vfh.Out(), "scenarios")
	os.MkdirAll(d, 0o755)
	if err := os.WriteFile(filepath.Join(d, "result.json"), b, 0o644); err != nil {
		t.Fatal(err)
	}
}

type vfC17amHostObs struct {
	f func(ma.Multiaddr) []ma.Multiaddr
}

func (o *vfC17amHostObs) AddrsFor(a ma.Multiaddr) []ma.Multiaddr { return o.f(a) }
func (o *vfC17amHostObs) Addrs(int) []ma.Multiaddr {
	return o.f(nil)
}
