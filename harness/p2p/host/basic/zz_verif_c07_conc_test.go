//go:build verif

package basichost_test

// C07 harness, part 3: concurrent opens.  Several goroutines of host A open streams with seeded
// request lists, use and close them while another goroutine keeps changing host B's handler table and
// a third one makes A forget what it knows; identify push is live.  The goroutines really interleave
// inside one synctest bubble; the verdict uses the L1 monitors of part 2 only, with registration
// intervals taken from sequence numbers that bracket the real calls (a closure whose removal had
// returned before an open began must never serve that stream; if no closure whose registration
// overlaps [open began, first use ended] accepts a requested id, the stream must fail and nothing may
// run), and at rest every protocol scope of both resource managers must be empty.

import (
	"bufio"
	"context"
	"fmt"
	mrand "math/rand"
	"strings"
	"sync"
	"testing"
	"testing/synctest"
	"time"

	"github.com/libp2p/go-libp2p/core/protocol"
	"github.com/libp2p/go-libp2p/internal/vfh"
)

var vfC07ConcEntries = [][2]string{{"/v/a", "exact"}, {"/v/a", "prefix"}, {"/v/a", "sub"}, {"/v/a/1", "exact"},
	{"/v/b", "exact"}, {"/v/b", "prefix"}, {"/v/c", "exact"}}

func vfC07ConcRound(t *testing.T, res *vfh.Result, round int, kind string) {
	seed := vfh.Seed()*1000003 + int64(round)
	cfg := vfC07Cfg{Host: kind, Push: true, Slots: 0, File: fmt.Sprintf("concurrent round %d", round)}
	r := &vfC07Run{cfg: cfg, res: res, walk: -1, step: round, t: t}
	r.setup()
	defer r.teardown()
	var wg sync.WaitGroup
	stop := make(chan struct{})
	// table churn on B
	wg.Add(1)
	go func() {
		defer wg.Done()
		rnd := mrand.New(mrand.NewSource(seed))
		for i := 0; i < 40; i++ {
			select {
			case <-stop:
				return
			default:
			}
			if rnd.Intn(3) == 0 {
				r.l.remove(r.b.h, string(vfC07P[rnd.Intn(len(vfC07P))]))
			} else {
				e := vfC07ConcEntries[rnd.Intn(len(vfC07ConcEntries))]
				r.l.add(r.b.h, e[0], e[1])
			}
			time.Sleep(time.Duration(rnd.Intn(3)) * time.Millisecond)
		}
	}()
	// knowledge loss on A
	if kind == "basic" {
		wg.Add(1)
		go func() {
			defer wg.Done()
			rnd := mrand.New(mrand.NewSource(seed + 1))
			for i := 0; i < 10; i++ {
				r.a.ps.RemoveProtocols(r.b.id, vfC07P[rnd.Intn(len(vfC07P))])
				time.Sleep(time.Duration(1+rnd.Intn(5)) * time.Millisecond)
			}
		}()
	}
	// openers on A
	const openers = 4
	var mu sync.Mutex
	nonceSeen := map[string]int{}
	for g := 0; g < openers; g++ {
		wg.Add(1)
		go func(g int) {
			defer wg.Done()
			rnd := mrand.New(mrand.NewSource(seed + 10 + int64(g)))
			for i := 0; i < 12; i++ {
				perm := rnd.Perm(len(vfC07P))
				var req []protocol.ID
				for _, j := range perm[:1+rnd.Intn(3)] {
					req = append(req, vfC07P[j])
				}
				openSeq := r.l.seq.Add(1)
				ctx, cancel := context.WithTimeout(context.Background(), 20*time.Second)
				arg, check := vfC07Owned(r.rep, "NewStream", req)
				s, err := r.a.h.NewStream(ctx, r.b.id, arg...)
				cancel()
				check()
				if err != nil {
					res.Inc("conc_open_failed", 1)
					continue
				}
				x := &vfC07Str{s: s, rd: bufio.NewReader(s), req: req, openSeq: openSeq,
					lazy: strings.HasSuffix(fmt.Sprintf("%T", s), "streamWrapper")}
				if !vfC07InReq(s.Protocol(), req) {
					r.rep("bound-to-unrequested-protocol", "the stream returned by the open reports a protocol that was not requested", req, string(s.Protocol()))
				}
				if rnd.Intn(4) == 0 {
					time.Sleep(time.Duration(rnd.Intn(3)) * time.Millisecond) // let the table move between open and first use
				}
				nonce := fmt.Sprintf("C%d-%d-%d-%d", seed, round, g, i)
				ok, serial, _ := vfC07Echo(r.rep, r.l, x, nonce)
				endSeq := r.l.seq.Add(1)
				if !ok {
					res.Inc("conc_first_use_failed", 1)
					s.Reset()
					continue
				}
				res.Inc("streams_established", 1)
				if x.lazy {
					res.Inc("streams_established_lazy", 1)
				}
				mu.Lock()
				nonceSeen[nonce]++
				mu.Unlock()
				var inv *vfC07Inv
				for _, v := range r.l.invsFrom(0) {
					if v.serial == serial {
						inv = v
					}
				}
				if inv == nil {
					r.rep("echo-misrouted", "the echo names a handler invocation that does not exist", nil, serial)
				} else {
					vfC07CheckInv(r.rep, r.a, x, inv)
				}
				if !r.l.commonDuring(req, openSeq, endSeq) {
					r.rep("established-without-common-protocol", "a stream was established although no matcher registered between the open and the end of the first use accepts a requested id", req, string(s.Protocol()))
				}
				// second round trip must be answered by the same invocation
				ok2, serial2, _ := vfC07Echo(r.rep, r.l, x, nonce+"-2")
				if ok2 && serial2 != serial {
					r.rep("echo-misrouted", "two round trips on one stream were answered by different handler invocations", serial, serial2)
				}
				if rnd.Intn(2) == 0 {
					s.Close()
				} else {
					s.Reset()
				}
			}
		}(g)
	}
	wg.Wait()
	close(stop)
	synctest.Wait()
	// at rest: one invocation per established stream at most, all finished; every scope empty
	perInv := map[int]int{}
	for _, inv := range r.l.invsFrom(0) {
		inv.mu.Lock()
		if !inv.done {
			r.rep("L2:handler-did-not-see-eof", "a handler is still running after every stream was closed or reset", nil, inv.serial)
		}
		for _, n := range inv.nonces {
			if !strings.HasSuffix(n, "-2") {
				perInv[inv.serial]++
			}
		}
		inv.mu.Unlock()
	}
	for s, n := range perInv {
		if n > 1 {
			r.rep("echo-misrouted", "one handler invocation received the nonces of several streams", 1, fmt.Sprintf("invocation %d: %d", s, n))
		}
	}
	for _, p := range vfC07P {
		if ga := vfC07Stat(r.a.rm, p); ga.NumStreamsOutbound != 0 || ga.NumStreamsInbound != 0 {
			r.rep("scope-residue-dialer", fmt.Sprintf("dialer's protocol scope %s shows streams at rest", p), 0, ga)
		}
		if gb := vfC07Stat(r.b.rm, p); gb.NumStreamsOutbound != 0 || gb.NumStreamsInbound != 0 {
			r.rep("scope-residue-listener", fmt.Sprintf("listener's protocol scope %s shows streams at rest", p), 0, gb)
		}
	}
	res.Count(1, openers*12)
	res.Case(fmt.Sprintf("%s/%d", kind, round))
}

func TestVerifC07Concurrent(t *testing.T) {
	res := vfh.NewResult()
	defer func() {
		if err := res.Write(); err != nil {
			t.Fatal(err)
		}
	}()
	res.Rule = "one round = two real hosts in a bubble, 4 goroutines x 12 opens (seeded request lists, first use, second use, close or reset) racing with 40 handler-table changes and knowledge loss; L1 monitors on every established stream and a scope audit at rest"
	rounds := 60
	if vfh.Thorough() {
		rounds = 600
	}
	for i := 0; i < rounds; i++ {
		kind := "basic"
		if i%5 == 4 {
			kind = "blank"
		}
		synctest.Test(t, func(t *testing.T) { vfC07ConcRound(t, res, i, kind) })
	}
}
