//go:build verif

package basichost_test

// C07 harness, part 2: replay of the behaviours of spec/C07_Negotiate.tla on two REAL hosts.
//
// Per walk: a synctest bubble with two hosts (BasicHost with identify, or BlankHost) on real swarms
// with real resource managers, joined by the in-memory transport of part 1.  Host A dials, host B
// listens.  Every model action is one public call (or, for "learn", a reconnect that lets identify
// run again), followed by synctest.Wait() so that everything the call caused has happened:
//
//   add/remove   B.SetStreamHandler / SetStreamHandlerMatch / RemoveStreamHandler
//   forget       A.Peerstore().RemoveProtocols(B, ...)      learn: close + reconnect (real identify)
//   open         A.NewStream(ctx, B, req...)
//   use          write a nonce line, read the echo (first use = the lazy handshake happens here)
//   close        stream.Close()
//
// Identify push: with push=true B pushes every change of its protocol set to A and the harness waits
// for it (synctest.Wait), so A's knowledge follows the table; with push=false A unregisters its
// /ipfs/id/push handler BEFORE connecting, B therefore learns that A does not support push and never
// sends one (checked: A's knowledge must not move), so knowledge becomes stale by B's table changes.
//
// Verdicts.  L1 monitors use observations and the harness's own ledger only (which closure was
// registered when, what each closure saw): Protocol() on A's stream is requested; the closure that
// ran reports the same Protocol(), its matcher accepts that id, it was not removed before the open
// began, one closure per stream; the nonce comes back through exactly that invocation; nothing runs
// when no registered matcher accepts any requested id; ViewProtocol(id).Stat() on both managers counts
// exactly the live streams bound to id.  Everything else (which of several acceptable ids/handlers,
// lazy vs negotiated, whether an open that could have succeeded failed, A's knowledge, B's table
// order) is compared with the model as "L2:".

import (
	"bufio"
	"context"
	"errors"
	"crypto/rand"
	"fmt"
	"io"
	"net"
	"os"
	"path/filepath"
	"sort"
	"strings"
	"sync"
	"sync/atomic"
	"testing"
	"testing/synctest"
	"time"

	"encoding/json"

	ic "github.com/libp2p/go-libp2p/core/crypto"
	"github.com/libp2p/go-libp2p/core/host"
	"github.com/libp2p/go-libp2p/core/network"
	"github.com/libp2p/go-libp2p/core/peer"
	"github.com/libp2p/go-libp2p/core/peerstore"
	"github.com/libp2p/go-libp2p/core/protocol"
	"github.com/libp2p/go-libp2p/internal/vfh"
	basichost "github.com/libp2p/go-libp2p/p2p/host/basic"
	blankhost "github.com/libp2p/go-libp2p/p2p/host/blank"
	"github.com/libp2p/go-libp2p/p2p/host/eventbus"
	"github.com/libp2p/go-libp2p/p2p/host/peerstore/pstoremem"
	rcmgr "github.com/libp2p/go-libp2p/p2p/host/resource-manager"
	"github.com/libp2p/go-libp2p/p2p/net/swarm"
	"github.com/libp2p/go-libp2p/p2p/protocol/identify"
	ma "github.com/multiformats/go-multiaddr"
)

var vfC07P = []protocol.ID{"/v/a", "/v/a/1", "/v/b", "/v/c"}

// ---------------------------------------------------------------------------------------------
// hosts

type vfC07Node struct {
	h    host.Host
	rm   network.ResourceManager
	ps   peerstore.Peerstore
	id   peer.ID
	addr ma.Multiaddr
	kind string
}

func vfC07NewNode(hub *vfC07Hub, ip string, kind string) (*vfC07Node, error) {
	priv, pub, err := ic.GenerateEd25519Key(rand.Reader)
	if err != nil {
		return nil, err
	}
	id, err := peer.IDFromPublicKey(pub)
	if err != nil {
		return nil, err
	}
	ps, err := pstoremem.NewPeerstore()
	if err != nil {
		return nil, err
	}
	ps.AddPrivKey(id, priv)
	ps.AddPubKey(id, pub)
	eb := eventbus.NewBus()
	rm, err := rcmgr.NewResourceManager(rcmgr.NewFixedLimiter(rcmgr.DefaultLimits.Scale(1<<30, 1024)), rcmgr.WithMetricsDisabled())
	if err != nil {
		return nil, err
	}
	sw, err := swarm.NewSwarm(id, ps, eb, swarm.WithResourceManager(rm))
	if err != nil {
		return nil, err
	}
	hub.mu.Lock()
	hub.keys[id] = pub
	hub.mu.Unlock()
	if err := sw.AddTransport(&vfC07Transport{hub: hub, self: id, rcmgr: rm, ip: ip}); err != nil {
		return nil, err
	}
	addr := ma.StringCast("/ip4/" + ip + "/tcp/4001")
	if err := sw.Listen(addr); err != nil {
		return nil, err
	}
	n := &vfC07Node{rm: rm, ps: ps, id: id, addr: addr, kind: kind}
	switch kind {
	case "basic":
		h, err := basichost.NewHost(sw, &basichost.HostOpts{EventBus: eb})
		if err != nil {
			return nil, err
		}
		h.Start()
		n.h = h
	case "blank":
		n.h = blankhost.NewBlankHost(sw, blankhost.WithEventBus(eb))
	default:
		return nil, fmt.Errorf("host kind %q", kind)
	}
	return n, nil
}

func (n *vfC07Node) Close() {
	n.h.Close()
	if n.kind == "blank" {
		n.ps.Close()
		n.rm.Close()
	}
}

func vfC07Stat(rm network.ResourceManager, p protocol.ID) network.ScopeStat {
	var st network.ScopeStat
	rm.ViewProtocol(p, func(s network.ProtocolScope) error { st = s.Stat(); return nil })
	return st
}

func vfC07Sys(rm network.ResourceManager) network.ScopeStat {
	var st network.ScopeStat
	rm.ViewSystem(func(s network.ResourceScope) error { st = s.Stat(); return nil })
	return st
}

// ---------------------------------------------------------------------------------------------
// ledger: what the harness itself did and saw

type vfC07H struct { // one registered closure
	id      int
	n, k    string
	added   int64 // sequence number taken before registration began
	removed atomic.Int64 // sequence number taken after removal / replacement returned (0 = still registered)
}

func vfC07Accepts(n, k string, p protocol.ID) bool {
	switch k {
	case "exact":
		return string(p) == n
	case "prefix":
		return string(p) == n || strings.HasPrefix(string(p), n+"/")
	case "sub":
		return strings.HasPrefix(string(p), n+"/")
	}
	return false
}

type vfC07Inv struct { // one invocation of a closure
	serial int
	h      *vfC07H
	proto  protocol.ID
	remote peer.ID
	seq    int64
	mu     sync.Mutex
	nonces []string
	done   bool
	clean  bool // ended by EOF
}

type vfC07Ledger struct {
	mu   sync.Mutex
	seq  *atomic.Int64 // one counter for both hosts of a run
	delay atomic.Int64 // how long (ns, virtual time) the closures of this host wait before answering a half-close
	nh   int
	live map[string]*vfC07H
	all  []*vfC07H
	invs []*vfC07Inv
}

func newVfC07Ledger(seq *atomic.Int64) *vfC07Ledger {
	return &vfC07Ledger{live: map[string]*vfC07H{}, seq: seq}
}

// ever: has this host ever registered the name p (what identify can have advertised) or accepted p as
// the LISTENER of a stream?  These are the only legitimate sources of the other host's knowledge of p.
func (l *vfC07Ledger) ever(p protocol.ID) bool {
	l.mu.Lock()
	defer l.mu.Unlock()
	for _, h := range l.all {
		if h.n == string(p) {
			return true
		}
	}
	for _, inv := range l.invs {
		if inv.proto == p {
			return true
		}
	}
	return false
}

func (l *vfC07Ledger) handler(h *vfC07H) network.StreamHandler {
	return func(s network.Stream) {
		inv := &vfC07Inv{h: h, proto: s.Protocol(), remote: s.Conn().RemotePeer(), seq: l.seq.Add(1)}
		l.mu.Lock()
		inv.serial = len(l.invs) + 1
		l.invs = append(l.invs, inv)
		l.mu.Unlock()
		rd := bufio.NewReader(s)
		for {
			line, err := rd.ReadString('\n')
			if err != nil {
				if err == io.EOF {
					// the dialer half-closed (or closed): say how many lines arrived before the EOF, then close
					inv.mu.Lock()
					n := len(inv.nonces)
					inv.mu.Unlock()
					if d := time.Duration(l.delay.Load()); d > 0 {
						time.Sleep(d) // a slow responder: the answer is written this long after the request ended
					}
					s.Write([]byte(fmt.Sprintf("E:%d:%d:%d\n", inv.serial, h.id, n)))
					s.Close()
				} else {
					s.Reset()
				}
				inv.mu.Lock()
				inv.done, inv.clean = true, err == io.EOF
				inv.mu.Unlock()
				return
			}
			inv.mu.Lock()
			inv.nonces = append(inv.nonces, strings.TrimSuffix(line, "\n"))
			inv.mu.Unlock()
			if _, err := s.Write([]byte(fmt.Sprintf("%d:%d:%s", inv.serial, h.id, line))); err != nil {
				s.Reset()
				inv.mu.Lock()
				inv.done = true
				inv.mu.Unlock()
				return
			}
		}
	}
}

// register / unregister on host B, keeping the ledger; sequence numbers bracket the real call so that
// "removed before X began" is a fact about returned calls
func (l *vfC07Ledger) add(b host.Host, n, k string) *vfC07H {
	l.mu.Lock()
	l.nh++
	h := &vfC07H{id: l.nh, n: n, k: k, added: l.seq.Add(1)}
	old := l.live[n]
	l.live[n] = h
	l.all = append(l.all, h)
	l.mu.Unlock()
	if k == "exact" {
		b.SetStreamHandler(protocol.ID(n), l.handler(h))
	} else {
		b.SetStreamHandlerMatch(protocol.ID(n), func(p protocol.ID) bool { return vfC07Accepts(n, k, p) }, l.handler(h))
	}
	if old != nil {
		old.removed.Store(l.seq.Add(1))
	}
	return h
}

func (l *vfC07Ledger) remove(b host.Host, n string) {
	b.RemoveStreamHandler(protocol.ID(n))
	l.mu.Lock()
	if old := l.live[n]; old != nil {
		old.removed.Store(l.seq.Add(1))
		delete(l.live, n)
	}
	l.mu.Unlock()
}

// registeredDuring: closures whose registration overlaps [from, to] (sequence numbers)
func (l *vfC07Ledger) commonDuring(req []protocol.ID, from, to int64) bool {
	l.mu.Lock()
	defer l.mu.Unlock()
	for _, h := range l.all {
		if rm := h.removed.Load(); h.added > to || (rm != 0 && rm < from) {
			continue
		}
		for _, p := range req {
			if vfC07Accepts(h.n, h.k, p) {
				return true
			}
		}
	}
	return false
}

// acceptedThroughout: some closure whose matcher accepts p has been registered since before `from` and
// still is - nothing about p's acceptance changed while the stream in question existed
func (l *vfC07Ledger) acceptedThroughout(p protocol.ID, from int64) bool {
	l.mu.Lock()
	defer l.mu.Unlock()
	for _, h := range l.all {
		if h.added < from && h.removed.Load() == 0 && vfC07Accepts(h.n, h.k, p) {
			return true
		}
	}
	return false
}

func (l *vfC07Ledger) invsFrom(i int) []*vfC07Inv {
	l.mu.Lock()
	defer l.mu.Unlock()
	return append([]*vfC07Inv(nil), l.invs[i:]...)
}
func (l *vfC07Ledger) nInvs() int {
	l.mu.Lock()
	defer l.mu.Unlock()
	return len(l.invs)
}

// ---------------------------------------------------------------------------------------------
// one open stream as host A holds it

type vfC07Str struct {
	s        network.Stream
	rd       *bufio.Reader
	req      []protocol.ID
	openSeq  int64 // taken before NewStream was called
	lazy     bool  // the host returned its lazy wrapper
	inv      *vfC07Inv
	lastUsed int64
	used     bool         // the dialer has operated on the stream since the open
	l        string       // listener
	d        string       // dialer ("A" or "B")
	dn       *vfC07Node   // the dialer's node
	ll       *vfC07Ledger // the LISTENER's ledger
}

func vfC07InReq(p protocol.ID, req []protocol.ID) bool {
	for _, q := range req {
		if p == q {
			return true
		}
	}
	return false
}

type vfC07Reporter func(cls, what string, exp, got any)

// checkInv: the statement's clauses about the closure that ran for stream x (L1)
func vfC07CheckInv(rep vfC07Reporter, a *vfC07Node, x *vfC07Str, inv *vfC07Inv) {
	if inv.proto != x.s.Protocol() {
		rep("protocol-disagreement", "the handler's stream reports a different protocol than the dialer's stream", string(x.s.Protocol()), string(inv.proto))
	}
	if inv.proto == x.s.Protocol() && !vfC07Accepts(inv.h.n, inv.h.k, inv.proto) {
		rep("wrong-handler-ran", fmt.Sprintf("the closure registered as %s/%s ran for protocol %q which its matcher does not accept", inv.h.n, inv.h.k, inv.proto), nil, nil)
	}
	if rm := inv.h.removed.Load(); rm != 0 && rm < x.openSeq {
		rep("removed-handler-ran", fmt.Sprintf("closure #%d (%s/%s) was removed before the open began and was invoked", inv.h.id, inv.h.n, inv.h.k), nil, nil)
	}
	if inv.remote != a.id {
		rep("wrong-endpoint", "the handler's stream does not come from the dialer", a.id.String(), inv.remote.String())
	}
}

// echo round trip: returns ok, the invocation serial that answered
func vfC07Echo(rep vfC07Reporter, l *vfC07Ledger, x *vfC07Str, nonce string) (bool, int, error) {
	ok, serial, _, err := vfC07Echo2(rep, l, x, nonce, "")
	return ok, serial, err
}

// vfC07Echo2 also tells whether the write alone went through
// and can put a line in front of the nonce line (tok: application bytes that read as a multistream token)
func vfC07Echo2(rep vfC07Reporter, l *vfC07Ledger, x *vfC07Str, nonce string, tok string) (bool, int, bool, error) {
	x.s.SetDeadline(time.Now().Add(30 * time.Second)) // virtual time; never reached when the echo arrives
	defer x.s.SetDeadline(time.Time{})
	if _, err := x.s.Write([]byte(tok + nonce + "\n")); err != nil {
		return false, 0, false, err
	}
	var serial, hid int
	var got, line string
	for range 2 {
		var err error
		if line, err = x.rd.ReadString('\n'); err != nil {
			return false, 0, true, err
		}
		parts := strings.SplitN(strings.TrimSuffix(line, "\n"), ":", 3)
		if len(parts) == 3 {
			fmt.Sscan(parts[0], &serial)
			fmt.Sscan(parts[1], &hid)
			got = parts[2]
		}
		if tok == "" || got+"\n" != tok {
			break // otherwise: the serving handler echoed the token line as data; the nonce line follows
		}
	}
	if got != nonce {
		rep("echo-mismatch", "the bytes read back are not the echo of the nonce written on this stream", nonce, line)
		return true, serial, true, nil
	}
	owners := 0
	for _, inv := range l.invsFrom(0) {
		inv.mu.Lock()
		for _, n := range inv.nonces {
			if n == nonce {
				owners++
				if inv.serial != serial {
					rep("echo-misrouted", "the nonce was received by another handler invocation than the one that answered", serial, inv.serial)
				}
			}
		}
		inv.mu.Unlock()
	}
	if owners != 1 {
		rep("echo-misrouted", "the nonce was received by a number of handler invocations different from one", 1, owners)
	}
	return true, serial, true, nil
}

// ---------------------------------------------------------------------------------------------
// replay

type vfC07Cfg struct {
	Host  string
	Push  bool
	Slots int
	File  string
	Hosts []string    // host names; nil = A, B
	Links [][2]string // connections in the order they are made (the first name dials); nil = A-B
}

type vfC07ModelSlot struct {
	Ph string            `json:"ph"`
	D  string            `json:"d"`
	P  string            `json:"p"`
	H  map[string]string `json:"h"`
}
type vfC07ModelState struct {
	Tbl map[string][]map[string]string `json:"tbl"`
	K   map[string]map[string][]string `json:"K"`
	St  []vfC07ModelSlot               `json:"st"`
	Out map[string]map[string]int      `json:"out"`
	Inn map[string]map[string]int      `json:"inn"`
}

// time steps of the model (virtual time): just below / above the negotiation timeout, and one minute
func vfC07Dur(w string) time.Duration {
	switch w {
	case "tm":
		return basichost.DefaultNegotiationTimeout - 50*time.Millisecond
	case "tp":
		return basichost.DefaultNegotiationTimeout + 50*time.Millisecond
	case "min":
		return time.Minute
	}
	return 0
}

type vfC07Run struct {
	cfg    vfC07Cfg
	res    *vfh.Result
	walk   int
	step   int
	prefix []vfh.Op
	a, b   *vfC07Node             // = nodes["A"], nodes["B"]
	l      *vfC07Ledger           // = ls["B"] (the one-directional concurrent run: A dials, B serves)
	nodes  map[string]*vfC07Node  // both hosts
	ls     map[string]*vfC07Ledger // per host: closures registered ON it, invocations ON it
	slots  []*vfC07Str
	absent []bool // the model has a stream in this slot, the real host refused it (after an L2 divergence)
	// the application's ONE preference list: a backing array reused by every open of the walk (both dialers);
	// want is what the caller wrote into it, kept apart, so that any write of the library shows
	back, want []protocol.ID
	wantLen    int
	delayed    bool // some closure was told to answer late: let it finish before the bubble ends
	damaged    bool // the library wrote into the array; the application goes on using it until it rewrites it
	t      *testing.T
}

func (r *vfC07Run) rep(cls, what string, exp, got any) {
	r.res.AddMismatch(vfh.Mismatch{Class: cls, What: what, Walk: r.walk, Step: r.step, Expected: exp, Got: got,
		Prefix: append([]vfh.Op(nil), r.prefix...), Cfg: r.cfg})
}

const vfC07Sentinel = protocol.ID("/verif/sentinel")

// vfC07Owned hands a caller-owned copy of list to an API call and returns the check to run after the call:
// the library must not modify arguments the caller owns (L1; for this statement: the bound protocol has to be
// in the list AS THE CALLER WROTE IT, also at the caller's next use of the same array)
func vfC07Owned(rep vfC07Reporter, what string, list []protocol.ID) ([]protocol.ID, func()) {
	arg := append(make([]protocol.ID, 0, len(list)+1), list...)
	arg = append(arg, vfC07Sentinel)[:len(list)] // spare capacity, as append-grown application slices have
	return arg, func() {
		full := arg[:len(list)+1]
		for i, p := range full {
			w := vfC07Sentinel
			if i < len(list) {
				w = list[i]
			}
			if p != w {
				rep("caller-argument-modified", what+" modified the protocol list the caller passed in", append(append([]protocol.ID(nil), list...), vfC07Sentinel), append([]protocol.ID(nil), full...))
				return
			}
		}
	}
}

// reqArg: the slice passed to NewStream for the model's request list.  When the list is a contiguous part
// of what the application's shared preference array already holds (a prefix list[:k] or a window list[i:j]
// of an earlier, longer request), that very sub-slice is passed; otherwise the application rewrites its array.
func (r *vfC07Run) reqArg(req []protocol.ID) []protocol.ID {
	if r.back == nil {
		r.back, r.want = make([]protocol.ID, 4), make([]protocol.ID, 4)
		for i := range r.back {
			r.back[i], r.want[i] = vfC07Sentinel, vfC07Sentinel
		}
	}
	for i := 0; i+len(req) <= r.wantLen; i++ {
		same := true
		for j := range req {
			same = same && r.want[i+j] == req[j]
		}
		if same {
			r.res.Inc("open_args_subslice_of_earlier_list", 1)
			if i == 0 && len(req) < r.wantLen {
				r.res.Inc("open_args_prefix_of_earlier_list", 1)
			}
			return r.back[i : i+len(req)]
		}
	}
	for i := range r.back {
		r.back[i], r.want[i] = vfC07Sentinel, vfC07Sentinel
		if i < len(req) {
			r.back[i], r.want[i] = req[i], req[i]
		}
	}
	r.wantLen, r.damaged = len(req), false
	return r.back[:len(req)]
}

func (r *vfC07Run) checkBack(what string) {
	if r.damaged {
		return
	}
	for i := range r.back {
		if r.back[i] != r.want[i] {
			r.rep("caller-argument-modified", what+" modified the application's preference list (the array it passed a sub-slice of)", append([]protocol.ID(nil), r.want...), append([]protocol.ID(nil), r.back...))
			r.damaged = true // the application goes on with the damaged array: sub-slices of it are what later opens pass
			return
		}
	}
}

func (r *vfC07Run) connect(x, y string) {
	ctx, cancel := context.WithTimeout(context.Background(), 20*time.Second)
	defer cancel()
	a, b := r.nodes[x], r.nodes[y]
	if err := a.h.Connect(ctx, peer.AddrInfo{ID: b.id, Addrs: []ma.Multiaddr{b.addr}}); err != nil {
		r.t.Fatalf("connect: %v", err)
	}
	synctest.Wait()
}

func (r *vfC07Run) peers(x string) []string {
	var out []string
	for _, l := range r.cfg.Links {
		if l[0] == x {
			out = append(out, l[1])
		} else if l[1] == x {
			out = append(out, l[0])
		}
	}
	return out
}

func (r *vfC07Run) setup() {
	hub := newVfC07Hub()
	if r.cfg.Hosts == nil {
		r.cfg.Hosts, r.cfg.Links = []string{"A", "B"}, [][2]string{{"A", "B"}}
	}
	seq := &atomic.Int64{}
	r.nodes, r.ls = map[string]*vfC07Node{}, map[string]*vfC07Ledger{}
	for i, name := range r.cfg.Hosts {
		n, err := vfC07NewNode(hub, fmt.Sprintf("127.0.0.%d", i+1), r.cfg.Host)
		if err != nil {
			r.t.Fatal(err)
		}
		if r.cfg.Host == "basic" && !r.cfg.Push {
			// no host supports identify push: nobody will ever push its protocol changes to it
			n.h.RemoveStreamHandler(identify.IDPush)
		}
		r.nodes[name], r.ls[name] = n, newVfC07Ledger(seq)
	}
	r.a, r.b, r.l = r.nodes["A"], r.nodes["B"], r.ls["B"]
	r.slots = make([]*vfC07Str, r.cfg.Slots)
	r.absent = make([]bool, r.cfg.Slots)
	synctest.Wait()
	// every host advertises the SAME list at this point (identical software, empty application tables)
	for _, l := range r.cfg.Links {
		r.connect(l[0], l[1])
	}
}

func (r *vfC07Run) teardown() {
	for _, x := range r.slots {
		if x != nil {
			x.s.Reset()
		}
	}
	if r.delayed {
		// a closure that was told to answer late may still be asleep when its stream has failed (a bubble must
		// not end with sleepers): let virtual time pass
		time.Sleep(2 * time.Minute)
		synctest.Wait()
	}
	for _, name := range r.cfg.Hosts {
		r.nodes[name].Close()
	}
	synctest.Wait()
}

// knowledge: what host x's peerstore lists for the other host (restricted to the model's ids)
func (r *vfC07Run) knowledge(x, y string) []string {
	arg, check := vfC07Owned(r.rep, "Peerstore.SupportsProtocols", vfC07P)
	sup, _ := r.nodes[x].ps.SupportsProtocols(r.nodes[y].id, arg...)
	sup = append([]protocol.ID(nil), sup...)
	check()
	out := []string{}
	for _, p := range sup {
		out = append(out, string(p))
	}
	sort.Strings(out)
	return out
}

func vfC07CommonNow(l *vfC07Ledger, req []protocol.ID) bool {
	s := l.seq.Add(1) // a fresh instant: strictly after every removal that has returned
	return l.commonDuring(req, s, s)
}

// at: the host an add/remove/forget acts on (one-directional files carry no "at": B serves, A forgets)
func vfC07At(op vfh.Op, def string) string {
	if x := op.S("at"); x != "" {
		return x
	}
	return def
}

func (r *vfC07Run) apply(op vfh.Op) {
	switch op.Name() {
	case "add":
		x := vfC07At(op, "B")
		r.ls[x].add(r.nodes[x].h, op.S("n"), op.S("k"))
		synctest.Wait()
	case "remove":
		x := vfC07At(op, "B")
		r.ls[x].remove(r.nodes[x].h, op.S("n"))
		synctest.Wait()
	case "forget":
		x := vfC07At(op, "A")
		arg, check := vfC07Owned(r.rep, "Peerstore.RemoveProtocols", vfC07P)
		of := op.S("of")
		if of == "" {
			of = "B"
		}
		r.nodes[x].ps.RemoveProtocols(r.nodes[of].id, arg...)
		check()
	case "learn":
		for i, x := range r.slots { // the model enables learn only with every slot idle
			if x != nil {
				x.s.Reset()
				r.slots[i] = nil
			}
		}
		lx, ly := op.S("x"), op.S("y")
		if lx == "" {
			lx, ly = "A", "B"
		}
		r.nodes[lx].h.Network().ClosePeer(r.nodes[ly].id)
		synctest.Wait()
		r.connect(lx, ly)
	case "wait":
		time.Sleep(vfC07Dur(op.S("w")))
		synctest.Wait()
		r.res.Inc("wait_"+op.S("w"), 1)
	case "open":
		r.open(op)
	case "use":
		r.use(op)
	case "close":
		r.closeOp(op)
	case "finish":
		r.finish(op)
	case "reset":
		r.resetOp(op)
	default:
		r.t.Fatalf("unknown op %q", op.Name())
	}
}

func vfC07Req(op vfh.Op) []protocol.ID {
	var req []protocol.ID
	for _, e := range op.L("req") {
		req = append(req, protocol.ID(e.(string)))
	}
	return req
}

func (r *vfC07Run) open(op vfh.Op) {
	i := op.I("s") - 1
	req := vfC07Req(op)
	if r.slots[i] != nil { // left over from a divergence
		r.slots[i].s.Reset()
		r.slots[i] = nil
		synctest.Wait()
	}
	r.absent[i] = false
	d := op.S("d")
	if d == "" {
		d = "A"
	}
	lname := op.S("l")
	if lname == "" {
		lname = "B"
	}
	dn, ln, ll := r.nodes[d], r.nodes[lname], r.ls[lname]
	noCommon := !vfC07CommonNow(ll, req)
	n0, n0d := ll.nInvs(), r.ls[d].nInvs()
	openSeq := ll.seq.Add(1)
	arg := r.reqArg(req)
	if len(req) > 1 {
		r.res.Inc("open_args_multi", 1)
	}
	s, err := dn.h.NewStream(context.Background(), ln.id, arg...)
	synctest.Wait()
	r.checkBack("NewStream")
	invs := ll.invsFrom(n0)
	if n := r.ls[d].nInvs() - n0d; n != 0 {
		r.rep("wrong-endpoint", "a handler of the DIALING host ran while it opened a stream to the other host", 0, n)
	}
	expRes := op.S("res")
	r.res.Inc("open_"+expRes, 1)
	r.res.Inc("open_by_"+d, 1)
	if len(req) > 1 {
		r.res.Inc("open_multi", 1)
	}
	if err != nil {
		if len(invs) > 0 {
			cls := "L2:handler-ran-on-failed-open"
			if noCommon {
				cls = "handler-ran-without-common-protocol"
			}
			r.rep(cls, fmt.Sprintf("open failed (%v) but %d handler(s) ran", err, len(invs)), 0, len(invs))
		}
		if !noCommon {
			// CommonMeansSuccess: nothing races in the replay, and a negotiated open has no knowledge to blame
			r.rep("common-protocol-open-failed", fmt.Sprintf("the open failed (%v) although the listener's current table accepts one of the requested ids %v", err, req), "success", "fail")
		}
		if expRes != "fail" {
			r.rep("L2:open-result", "the open failed where the model's rule succeeds: "+err.Error(), expRes, "fail")
			r.absent[i] = true
		}
		return
	}
	x := &vfC07Str{s: s, rd: bufio.NewReader(s), req: req, openSeq: openSeq, d: d, l: lname, dn: dn, ll: ll,
		lazy: strings.HasSuffix(fmt.Sprintf("%T", s), "streamWrapper")}
	r.slots[i] = x
	// L1: bound to one of the requested ids
	if !vfC07InReq(s.Protocol(), req) {
		r.rep("bound-to-unrequested-protocol", "the stream returned by the open reports a protocol that was not requested", req, string(s.Protocol()))
	}
	if len(invs) > 1 {
		r.rep("more-than-one-handler", "more than one handler ran for one opened stream", 1, len(invs))
	}
	if len(invs) >= 1 {
		x.inv = invs[0]
		vfC07CheckInv(r.rep, dn, x, x.inv)
	}
	if noCommon && len(invs) > 0 {
		r.rep("handler-ran-without-common-protocol", "a handler ran although no registered matcher accepts any requested id", nil, nil)
	}
	if x.lazy && !ll.ever(s.Protocol()) {
		// the statement allows an optimistic choice "from earlier knowledge" only; this listener never gave any
		r.rep("optimistic-choice-never-advertised", fmt.Sprintf("host %s opened %v to host %s and got a stream bound optimistically to %s, which that listener has never registered nor accepted as listener (a negotiated open was due: success with an accepted id, or failure at the open)", d, req, lname, s.Protocol()), expRes, "lazy "+string(s.Protocol()))
	}
	if noCommon && !x.lazy {
		r.rep("open-succeeded-without-common-protocol", "a negotiated open succeeded although no registered matcher accepts any requested id", "fail", string(s.Protocol()))
	}
	// model's rule (L2)
	got := "est"
	if x.lazy {
		got = "lazy"
	}
	if expRes == "fail" {
		r.rep("L2:open-result", "the open succeeded where the model's rule fails", "fail", got+" "+string(s.Protocol()))
		s.Reset()
		r.slots[i] = nil
		synctest.Wait()
		return
	}
	if got != expRes {
		r.rep("L2:open-path", "optimistic vs negotiated path differs from the model", expRes, got)
	}
	if string(s.Protocol()) != op.S("p") {
		r.rep("L2:open-protocol", "another of the requested protocols was bound than the model's rule selects", op.S("p"), string(s.Protocol()))
	}
	if expRes == "est" && x.inv != nil {
		if h := op.M("h"); h["n"] != x.inv.h.n || h["k"] != x.inv.h.k {
			r.rep("L2:handler-order", "another accepting handler ran than the first in table order", h, x.inv.h.n+"/"+x.inv.h.k)
		}
	}
	if expRes == "est" && x.inv == nil && !x.lazy {
		r.rep("L2:no-handler-after-negotiation", "a negotiated open returned but no handler had started at rest", 1, 0)
	}
}

func (r *vfC07Run) use(op vfh.Op) {
	i := op.I("s") - 1
	x := r.slots[i]
	if x == nil {
		if !r.absent[i] {
			r.t.Fatalf("walk %d step %d: use on an empty slot", r.walk, r.step)
		}
		r.res.Inc("skipped_after_divergence", 1)
		if op.S("res") == "fail" {
			r.absent[i] = false
		}
		return
	}
	defer func() { x.used = true }()
	if !x.used {
		r.res.Inc("first_op_"+op.S("m")+"_on_"+map[bool]string{true: "optimistic", false: "negotiated"}[x.lazy], 1)
	}
	if op.S("m") == "rd" {
		r.readFirst(op, i, x)
		return
	}
	first := x.inv == nil
	n0 := x.ll.nInvs()
	noCommon := !x.ll.commonDuring(x.req, x.openSeq, x.ll.seq.Load())
	nonce := fmt.Sprintf("N%d-%d-%d-%d", vfh.Seed(), r.walk, r.step, i)
	tok := ""
	if q := op.S("q"); q != "" {
		tok = string(rune(len(q)+1)) + q + "\n" // <uvarint length><id><newline>: a well-formed multistream token
	}
	ok, serial, wrote, err := vfC07Echo2(r.rep, x.ll, x, nonce, tok)
	synctest.Wait()
	invs := x.ll.invsFrom(n0)
	r.res.Inc("use_"+op.S("res"), 1)
	if !ok && wrote && first {
		r.res.Inc("refused_first_use_write_alone_succeeded", 1) // documented behaviour of the lazy client (see assumptions)
	}
	if first {
		r.res.Inc("use_first_"+op.S("res"), 1)
	}
	if !ok {
		stray := op.M("stray")
		switch {
		case len(invs) == 1 && tok != "" && string(invs[0].proto) == op.S("q") && string(x.s.Protocol()) != op.S("q"):
			// B refused the optimistic id, went on negotiating on the application's bytes and started the acceptor of q
			r.res.Inc("stray_handler_ran", 1)
			cls := "L2:payload-parsed-as-proposal"
			if noCommon {
				cls = "payload-parsed-as-proposal"
			}
			r.rep(cls, fmt.Sprintf("the dialer asked for %v only, its optimistic choice %s was refused and its first use failed (%v), yet the listener's handler %s/%s ran on that stream as protocol %s and received the application's bytes", x.req, x.s.Protocol(), err, invs[0].h.n, invs[0].h.k, invs[0].proto), 0, 1)
			if stray["n"] != invs[0].h.n || stray["k"] != invs[0].h.k {
				r.rep("L2:stray-handler", "another handler was started by the application's bytes than the model's rule selects", stray, invs[0].h.n+"/"+invs[0].h.k)
			}
		case len(invs) > 0:
			cls := "L2:handler-ran-on-failed-use"
			if noCommon {
				cls = "handler-ran-without-common-protocol"
			}
			r.rep(cls, fmt.Sprintf("first use failed (%v) but %d handler(s) ran", err, len(invs)), 0, len(invs))
		case stray["n"] != "":
			r.rep("L2:stray-handler", "the model's rule starts a handler on the application's bytes after the refusal; none ran", stray, nil)
		}
		r.mustReach(x, "write+read", err)
		if first && vfC07CommonNow(x.ll, x.req) && !x.ll.ever(x.s.Protocol()) {
			// CommonMeansSuccess: the statement excuses a failed first use only when the id was "chosen
			// optimistically from EARLIER KNOWLEDGE"; the listener never advertised nor accepted this id
			r.rep("optimistic-choice-never-advertised", fmt.Sprintf("host %s opened %v to a listener whose current table accepts one of them; the stream was bound optimistically to %s, which the listener has never registered nor accepted as listener, and the first use failed (%v)", x.d, x.req, x.s.Protocol(), err), "success", "fail")
		}
		if op.S("res") != "fail" {
			r.rep("L2:use-result", "the round trip failed where the model's rule succeeds: "+err.Error(), "ok", "fail")
			r.absent[i] = true
		}
		x.s.Reset()
		r.slots[i] = nil
		synctest.Wait()
		return
	}
	if first {
		if len(invs) != 1 {
			r.rep("more-than-one-handler", "the number of handlers that ran at the first use of a stream is not one", 1, len(invs))
		}
		if len(invs) >= 1 {
			x.inv = invs[0]
			vfC07CheckInv(r.rep, x.dn, x, x.inv)
		}
		if noCommon {
			r.rep("established-without-common-protocol", "the first use succeeded although no registered matcher accepted any requested id since the open began", "fail", "ok")
		}
	} else if len(invs) != 0 {
		r.rep("more-than-one-handler", "another handler ran for an already established stream", 0, len(invs))
	}
	if x.inv != nil && serial != x.inv.serial {
		r.rep("echo-misrouted", "the echo was produced by another handler invocation than the one serving this stream", x.inv.serial, serial)
	}
	if op.S("res") == "fail" {
		r.rep("L2:use-result", "the round trip succeeded where the model's rule fails", "fail", "ok")
		x.s.Reset()
		r.slots[i] = nil
		synctest.Wait()
		return
	}
	if first && x.inv != nil {
		if h := op.M("h"); h["n"] != x.inv.h.n || h["k"] != x.inv.h.k {
			r.rep("L2:handler-order", "another accepting handler ran than the first in table order", h, x.inv.h.n+"/"+x.inv.h.k)
		}
	}
}

// mustReach (L1): the id the dialer's stream is bound to has been accepted by the listener's table since
// before the open and nothing changed, so - whatever the dialer's first operation was - the handler has to
// run and the exchange has to work; a failure here is not excused by stale knowledge.  A deadline that
// expires where an error was due is the "silent hang".
func (r *vfC07Run) mustReach(x *vfC07Str, how string, err error) {
	if x.ll.acceptedThroughout(x.s.Protocol(), x.openSeq) {
		r.rep("accepted-protocol-not-served", fmt.Sprintf("host %s holds a stream bound to %s, which the listener's table has accepted since before the open; %s failed: %v", x.d, x.s.Protocol(), how, err), "handler runs and answers", fmt.Sprint(err))
	} else if vfC07IsTimeout(err) {
		r.rep("silent-hang-on-refused-stream", fmt.Sprintf("host %s: %s on a stream bound to %s, which the listener does not accept, neither failed nor fell back: %v", x.d, how, x.s.Protocol(), err), "an error", fmt.Sprint(err))
	}
}

// firstInv: bookkeeping common to every first operation that makes the listener negotiate
func (r *vfC07Run) firstInv(op vfh.Op, x *vfC07Str, invs []*vfC07Inv, noCommon bool, how string) {
	if len(invs) != 1 {
		r.rep("more-than-one-handler", "the number of handlers that ran at the first operation ("+how+") of a stream is not one", 1, len(invs))
	}
	if len(invs) >= 1 {
		x.inv = invs[0]
		vfC07CheckInv(r.rep, x.dn, x, x.inv)
		if h := op.M("h"); h["n"] != x.inv.h.n || h["k"] != x.inv.h.k {
			r.rep("L2:handler-order", "another accepting handler ran than the first in table order", h, x.inv.h.n+"/"+x.inv.h.k)
		}
	}
	if noCommon {
		r.rep("established-without-common-protocol", "the first operation ("+how+") reached a handler although no registered matcher accepted any requested id since the open began", "fail", "ok")
	}
}

func vfC07IsTimeout(err error) bool {
	if err == nil {
		return false
	}
	var ne net.Error
	if errors.As(err, &ne) && ne.Timeout() {
		return true
	}
	return errors.Is(err, os.ErrDeadlineExceeded) || strings.Contains(err.Error(), "deadline")
}

func (r *vfC07Run) drop(i int, x *vfC07Str) {
	x.s.Reset()
	r.slots[i] = nil
	synctest.Wait()
}

// readFirst: the dialer reads (with a short deadline, virtual time) before it has written anything.  The
// lazy handshake has to complete and the handler to start; the replay's handler says nothing until it gets
// a line, so the read ends at its deadline.
func (r *vfC07Run) readFirst(op vfh.Op, i int, x *vfC07Str) {
	first := x.inv == nil
	n0 := x.ll.nInvs()
	noCommon := !x.ll.commonDuring(x.req, x.openSeq, x.ll.seq.Load())
	x.s.SetReadDeadline(time.Now().Add(5 * time.Millisecond))
	_, err := x.rd.ReadString('\n')
	x.s.SetReadDeadline(time.Time{})
	synctest.Wait()
	invs := x.ll.invsFrom(n0)
	r.res.Inc("use_rd_"+op.S("res"), 1)
	timedOut := vfC07IsTimeout(err)
	reached := timedOut && (!first || len(invs) >= 1)
	if !reached {
		if first && len(invs) > 0 {
			cls := "L2:handler-ran-on-failed-use"
			if noCommon {
				cls = "handler-ran-without-common-protocol"
			}
			r.rep(cls, fmt.Sprintf("reading first failed (%v) but %d handler(s) ran", err, len(invs)), 0, len(invs))
		}
		if x.ll.acceptedThroughout(x.s.Protocol(), x.openSeq) {
			r.rep("accepted-protocol-not-served", fmt.Sprintf("host %s holds a stream bound to %s, which the listener's table has accepted since before the open; it read first: %v, handlers started: %d", x.d, x.s.Protocol(), err, len(invs)), "handler runs", fmt.Sprint(err))
		} else if timedOut {
			r.rep("silent-hang-on-refused-stream", fmt.Sprintf("host %s read first on a stream bound to %s, which the listener does not accept: neither an error nor a fallback, the read ran into its deadline", x.d, x.s.Protocol()), "an error", fmt.Sprint(err))
		}
		if op.S("res") != "fail" {
			r.rep("L2:use-result", fmt.Sprintf("reading first did not reach a handler where the model's rule does: %v", err), "ok", "fail")
			r.absent[i] = true
		}
		r.drop(i, x)
		return
	}
	if first {
		r.res.Inc("use_rd_first_ok", 1)
		r.firstInv(op, x, invs, noCommon, "read")
	} else if len(invs) != 0 {
		r.rep("more-than-one-handler", "another handler ran for an already established stream", 0, len(invs))
	}
	if op.S("res") == "fail" {
		r.rep("L2:use-result", "reading first reached a handler where the model's rule fails", "fail", "ok")
		r.drop(i, x)
	}
}

// finish: half-close as the first operation ("cw") or after one line ("wcw"), read the handler's answer up
// to EOF, close.  The handler must have seen exactly the lines written and then EOF.
func (r *vfC07Run) finish(op vfh.Op) {
	i := op.I("s") - 1
	x := r.slots[i]
	if x == nil {
		if !r.absent[i] {
			r.t.Fatalf("walk %d step %d: finish on an empty slot", r.walk, r.step)
		}
		r.absent[i] = false
		r.res.Inc("skipped_after_divergence", 1)
		return
	}
	m := op.S("m")
	first := x.inv == nil
	n0 := x.ll.nInvs()
	noCommon := !x.ll.commonDuring(x.req, x.openSeq, x.ll.seq.Load())
	nonce := fmt.Sprintf("F%d-%d-%d-%d", vfh.Seed(), r.walk, r.step, i)
	before := 0
	if x.inv != nil {
		x.inv.mu.Lock()
		before = len(x.inv.nonces)
		x.inv.mu.Unlock()
	}
	var err error
	var echo, fin string
	dl := vfC07Dur(op.S("dl"))
	x.ll.delay.Store(int64(dl))
	defer x.ll.delay.Store(0)
	r.delayed = r.delayed || dl > 0
	// the APPLICATION's own deadline: far beyond the responder's delay, so only a hang gets there (virtual time)
	x.s.SetDeadline(time.Now().Add(dl + 30*time.Second))
	if m == "wcw" {
		_, err = x.s.Write([]byte(nonce + "\n"))
	}
	if err == nil {
		err = x.s.CloseWrite()
	}
	if err == nil && m == "wcw" {
		echo, err = x.rd.ReadString('\n')
	}
	if err == nil {
		fin, err = x.rd.ReadString('\n')
	}
	if err == nil {
		if rest, e2 := x.rd.ReadString('\n'); e2 != io.EOF || rest != "" {
			err = fmt.Errorf("no end of stream after the handler's answer: %q %v", rest, e2)
		}
	}
	synctest.Wait()
	invs := x.ll.invsFrom(n0)
	r.res.Inc("finish_"+m+"_"+op.S("res"), 1)
	if dl > 0 {
		r.res.Inc("finish_delay_"+op.S("dl")+map[bool]string{true: "_optimistic", false: "_negotiated"}[x.lazy], 1)
	}
	if first {
		r.res.Inc("finish_"+m+"_first_"+op.S("res"), 1)
	}
	if !x.used {
		r.res.Inc("first_op_"+m+"_on_"+map[bool]string{true: "optimistic", false: "negotiated"}[x.lazy], 1)
	}
	if err != nil {
		if first && len(invs) > 0 {
			cls := "L2:handler-ran-on-failed-use"
			if noCommon {
				cls = "handler-ran-without-common-protocol"
			}
			r.rep(cls, fmt.Sprintf("half-close first failed (%v) but %d handler(s) ran", err, len(invs)), 0, len(invs))
		}
		if dl > 0 && vfC07IsTimeout(err) && x.ll.acceptedThroughout(x.s.Protocol(), x.openSeq) {
			r.rep("late-answer-cut-by-library-deadline", fmt.Sprintf("host %s half-closed (%s) a stream bound to %s and read; the handler answered after %v; the application's deadline is %v away, yet the read ended with %v", x.d, m, x.s.Protocol(), dl, dl+30*time.Second, err), "the answer", fmt.Sprint(err))
		} else {
			r.mustReach(x, "half-close ("+m+") then read", err)
		}
		if op.S("res") != "fail" {
			r.rep("L2:use-result", "the half-close exchange failed where the model's rule succeeds: "+err.Error(), "ok", "fail")
		}
		r.drop(i, x)
		return
	}
	if first {
		r.firstInv(op, x, invs, noCommon, "half-close "+m)
	} else if len(invs) != 0 {
		r.rep("more-than-one-handler", "another handler ran for an already established stream", 0, len(invs))
	}
	// the answer: E:<invocation>:<closure>:<lines seen before EOF>, preceded by the echo of the line (wcw)
	want := before
	if m == "wcw" {
		want++
	}
	if x.inv != nil {
		if exp := fmt.Sprintf("E:%d:%d:%d\n", x.inv.serial, x.inv.h.id, want); fin != exp {
			r.rep("echo-misrouted", "the answer to the half-close does not come from the invocation serving this stream with the lines it was sent", exp, fin)
		}
		if m == "wcw" {
			if exp := fmt.Sprintf("%d:%d:%s\n", x.inv.serial, x.inv.h.id, nonce); echo != exp {
				r.rep("echo-mismatch", "the bytes read back are not the echo of the line written before the half-close", exp, echo)
			}
		}
		x.inv.mu.Lock()
		done, clean := x.inv.done, x.inv.clean
		x.inv.mu.Unlock()
		if !done || !clean {
			r.rep("half-close-not-seen-as-eof", "the handler did not see the dialer's half-close as the end of the stream", "EOF", fmt.Sprintf("done=%v clean=%v", done, clean))
		}
	}
	if op.S("res") == "fail" {
		r.rep("L2:use-result", "the half-close exchange succeeded where the model's rule fails", "fail", "ok")
	}
	x.s.SetDeadline(time.Time{})
	x.s.Close()
	r.slots[i] = nil
	synctest.Wait()
}

func (r *vfC07Run) resetOp(op vfh.Op) {
	i := op.I("s") - 1
	x := r.slots[i]
	r.absent[i] = false
	if x == nil {
		r.res.Inc("skipped_after_divergence", 1)
		return
	}
	n0 := x.ll.nInvs()
	wasLazy := x.inv == nil
	x.s.Reset()
	synctest.Wait()
	r.slots[i] = nil
	r.res.Inc("reset_"+op.S("ph"), 1)
	if n := len(x.ll.invsFrom(n0)); n != 0 {
		cls := "L2:handler-ran-after-reset"
		if wasLazy && !x.ll.commonDuring(x.req, x.openSeq, x.ll.seq.Load()) {
			cls = "handler-ran-without-common-protocol"
		}
		r.rep(cls, "a handler started when the dialer reset the stream", 0, n)
	}
}

func (r *vfC07Run) closeOp(op vfh.Op) {
	i := op.I("s") - 1
	x := r.slots[i]
	r.absent[i] = false
	if x == nil {
		r.res.Inc("skipped_after_divergence", 1)
		return
	}
	n0 := x.ll.nInvs()
	noCommon := !x.ll.commonDuring(x.req, x.openSeq, x.ll.seq.Load())
	unused := x.inv == nil
	x.s.Close()
	synctest.Wait()
	r.slots[i] = nil
	invs := x.ll.invsFrom(n0)
	r.res.Inc("close", 1)
	if unused {
		r.res.Inc("close_unused", 1)
		if len(invs) > 1 {
			r.rep("more-than-one-handler", "more than one handler ran when a never-used stream was closed", 1, len(invs))
		}
		if len(invs) >= 1 {
			r.res.Inc("close_unused_handler_ran", 1)
			vfC07CheckInv(r.rep, x.dn, x, invs[0])
			if noCommon {
				r.rep("handler-ran-without-common-protocol", "a handler ran at the close of a never-used stream although no registered matcher accepted any requested id", nil, nil)
			}
		}
		exp := op.M("h")
		switch {
		case len(invs) == 0 && x.ll.acceptedThroughout(x.s.Protocol(), x.openSeq):
			r.rep("accepted-protocol-not-served", fmt.Sprintf("host %s closed a never-used stream bound to %s, which the listener's table has accepted since before the open; no handler ran", x.d, x.s.Protocol()), "handler runs", "none")
		case len(invs) == 0 && exp["n"] != "":
			r.rep("L2:close-flush", "the model's rule runs a handler when the unused lazy stream is closed", exp, nil)
		case len(invs) >= 1 && (exp["n"] != invs[0].h.n || exp["k"] != invs[0].h.k):
			r.rep("L2:handler-order", "another handler ran at the flushing close than the model's rule selects", exp, invs[0].h.n+"/"+invs[0].h.k)
		}
		return
	}
	if len(invs) != 0 {
		r.rep("more-than-one-handler", "another handler ran when an established stream was closed", 0, len(invs))
	}
	x.inv.mu.Lock()
	done := x.inv.done
	x.inv.mu.Unlock()
	if !done {
		r.rep("L2:handler-did-not-see-eof", "the serving handler has not seen the end of the stream after the dialer closed it", true, false)
	}
}

// audit after every step: resource scopes against the live streams (L1), then the model state (L2)
func (r *vfC07Run) audit(raw json.RawMessage) {
	var m vfC07ModelState
	if err := json.Unmarshal(raw, &m); err != nil {
		r.t.Fatalf("state: %v", err)
	}
	// L1: every live stream is counted in the scope of the protocol it reports on its dialer (outbound);
	// every established one also on its listener (inbound); nothing else is counted
	for _, h := range r.cfg.Hosts {
		expOut, expIn := map[protocol.ID]int{}, map[protocol.ID]int{}
		live, liveIn, served := 0, 0, 0
		for _, x := range r.slots {
			if x == nil {
				continue
			}
			if x.d == h {
				expOut[x.s.Protocol()]++
				live++
			} else if x.l == h {
				liveIn++
				if x.inv != nil {
					expIn[x.s.Protocol()]++
				}
			}
		}
		rm := r.nodes[h].rm
		for _, p := range vfC07P {
			g := vfC07Stat(rm, p)
			if g.NumStreamsOutbound < expOut[p] {
				r.rep("scope-not-charged-dialer", fmt.Sprintf("host %s: the protocol scope %s does not show the streams it opened", h, p), expOut[p], g)
			} else if g.NumStreamsOutbound > expOut[p] {
				r.rep("scope-residue-dialer", fmt.Sprintf("host %s: the protocol scope %s shows outbound streams that are not open", h, p), expOut[p], g)
			}
			if g.NumStreamsInbound < expIn[p] {
				r.rep("scope-not-charged-listener", fmt.Sprintf("host %s: the protocol scope %s does not show the established streams it serves", h, p), expIn[p], g)
			} else if g.NumStreamsInbound > expIn[p] {
				r.rep("scope-residue-listener", fmt.Sprintf("host %s: the protocol scope %s shows inbound streams that are not established", h, p), expIn[p], g)
			}
			if m.Out[h][string(p)] != g.NumStreamsOutbound || m.Inn[h][string(p)] != g.NumStreamsInbound {
				r.rep("L2:scope-counts", fmt.Sprintf("host %s: protocol scope counts of %s differ from the model", h, p),
					[]int{m.Out[h][string(p)], m.Inn[h][string(p)]}, []int{g.NumStreamsOutbound, g.NumStreamsInbound})
			}
		}
		// L2: system-wide stream residue (failed opens must not leave streams behind; C04 territory)
		for _, inv := range r.ls[h].invsFrom(0) {
			inv.mu.Lock()
			if !inv.done {
				served++
			}
			inv.mu.Unlock()
		}
		if sy := vfC07Sys(rm); sy.NumStreamsOutbound != live {
			r.rep("L2:stream-residue-dialer", fmt.Sprintf("host %s: the system scope counts outbound streams other than the open ones at rest", h), live, sy)
		} else if sy.NumStreamsInbound < served || sy.NumStreamsInbound > liveIn {
			r.rep("L2:stream-residue-listener", fmt.Sprintf("host %s: the system scope counts inbound streams other than the open ones at rest", h), liveIn, sy)
		}
		// L2: table (names in the muxer's order)
		var names, mnames []string
		for _, p := range r.nodes[h].h.Mux().Protocols() {
			if strings.HasPrefix(string(p), "/v/") {
				names = append(names, string(p))
			}
		}
		for _, e := range m.Tbl[h] {
			mnames = append(mnames, e["n"])
		}
		if strings.Join(names, ",") != strings.Join(mnames, ",") {
			r.rep("L2:table", fmt.Sprintf("host %s: the muxer's handler names/order differ from the model", h), mnames, names)
		}
		// L2: knowledge: equal to the model, and never an id the other host has not advertised or accepted
		// as listener - whatever streams the other host opened towards this one
		// - and whatever this host learned about any THIRD host: one book per peer
		for _, o := range r.peers(h) {
			k := r.knowledge(h, o)
			mk := append([]string(nil), m.K[h][o]...)
			sort.Strings(mk)
			if strings.Join(k, ",") != strings.Join(mk, ",") {
				r.rep("L2:knowledge", fmt.Sprintf("host %s's peerstore lists other protocols of host %s than that host's history implies (the model)", h, o), mk, k)
			}
			for _, p := range k {
				if !r.ls[o].ever(protocol.ID(p)) {
					r.rep("L2:knowledge-never-advertised", fmt.Sprintf("host %s's peerstore lists %s for host %s, which never registered it nor accepted it as listener", h, p, o), nil, p)
				}
			}
		}
	}
	for i, x := range r.slots {
		if i >= len(m.St) {
			break
		}
		ph := "idle"
		if x != nil {
			ph = "lazy"
			if x.inv != nil {
				ph = "est"
			}
		}
		if ph != m.St[i].Ph && !r.absent[i] {
			r.rep("L2:slot-phase", fmt.Sprintf("slot %d", i+1), m.St[i].Ph, ph)
		}
	}
}

func vfC07RunWalk(t *testing.T, res *vfh.Result, cfg vfC07Cfg, w vfh.Walk) {
	r := &vfC07Run{cfg: cfg, res: res, walk: w.Walk, t: t}
	r.setup()
	defer r.teardown()
	prev := string(w.Init)
	for i, st := range w.Steps {
		r.step = i
		r.prefix = append(r.prefix, st.Op)
		r.apply(st.Op)
		r.audit(st.State)
		res.Case(cfg.File + "|" + prev + "|" + vfh.Canon(st.Op) + "|" + string(st.State))
		prev = string(st.State)
	}
	res.Count(1, len(w.Steps))
}

func TestVerifC07Replay(t *testing.T) {
	res := vfh.NewResult()
	defer func() {
		if err := res.Write(); err != nil {
			t.Fatal(err)
		}
	}()
	res.Rule = "one step = one public call on two real hosts in a synctest bubble followed by synctest.Wait(); distinct = (instance, op with expected results, target state)"
	files, _ := filepath.Glob(filepath.Join(vfh.In(), "*.jsonl"))
	sort.Strings(files)
	if len(files) == 0 {
		t.Fatal("no behaviour files")
	}
	type job struct {
		cfg vfC07Cfg
		w   vfh.Walk
	}
	var jobs []job
	for _, f := range files {
		hdr, walks, err := vfh.LoadWalks(f)
		if err != nil {
			t.Fatal(err)
		}
		cfg := vfC07Cfg{Host: fmt.Sprint(hdr["host"]), Push: hdr["push"] == true, Slots: int(hdr["slots"].(float64)), File: filepath.Base(f)}
		if hs, ok := hdr["hosts"].([]any); ok {
			for _, h := range hs {
				cfg.Hosts = append(cfg.Hosts, h.(string))
			}
			for _, l := range hdr["links"].([]any) {
				cfg.Links = append(cfg.Links, [2]string{l.([]any)[0].(string), l.([]any)[1].(string)})
			}
		}
		for _, w := range walks {
			jobs = append(jobs, job{cfg, w})
		}
	}
	shards := vfh.EnvInt("VERIF_C07_SHARDS", 8)
	t.Run("shards", func(t *testing.T) {
		for sh := 0; sh < shards; sh++ {
			t.Run(fmt.Sprintf("s%d", sh), func(t *testing.T) {
				t.Parallel()
				for j := sh; j < len(jobs); j += shards {
					jb := jobs[j]
					synctest.Test(t, func(t *testing.T) { vfC07RunWalk(t, res, jb.cfg, jb.w) })
				}
			})
		}
	})
	if s := os.Getenv("VERIF_C07_SAMPLE"); s == "" && len(jobs) > 0 {
		w := jobs[0].w
		n := len(w.Steps)
		if n > 6 {
			n = 6
		}
		var ops []vfh.Op
		for _, st := range w.Steps[:n] {
			ops = append(ops, st.Op)
		}
		res.Sample(map[string]any{"instance": jobs[0].cfg.File, "first_steps_of_walk_0": ops})
	}
}
