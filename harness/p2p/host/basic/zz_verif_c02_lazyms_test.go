//go:build verif

package basichost_test

// Conformance harness for C02, BasicHost stream layer: the behaviours of spec/C02_LazyMS.tla on streams that
// BasicHost.NewStream opens on the optimistic path (streamWrapper around go-multistream's lazy client)
// between two in-memory hosts: first call being a Write (also an empty one), a Read or a CloseWrite, reads
// outstanding while other calls go on, half-close in both directions followed by further reads.
// The multistream handshake shares the byte stream with the user's data; the L1 ledger of each direction
// decides: bytes returned by Read are a prefix of the bytes handed to Write (no handshake byte ever reaches the
// user, nothing is lost behind it), EOF only after everything written before CloseWrite, everything delivered
// at the end.  Writes and CloseWrite run on one goroutine per endpoint (the in-memory stream hands data over
// synchronously).

import (
	"context"
	"fmt"
	"io"
	"os"
	"path/filepath"
	"runtime/debug"
	"sort"
	"strings"
	"sync"
	"sync/atomic"
	"testing"
	"time"

	"github.com/libp2p/go-libp2p"
	"github.com/libp2p/go-libp2p/core/host"
	"github.com/libp2p/go-libp2p/core/network"
	"github.com/libp2p/go-libp2p/core/peer"
	"github.com/libp2p/go-libp2p/core/protocol"
	"github.com/libp2p/go-libp2p/internal/vfc02"
	"github.com/libp2p/go-libp2p/internal/vfh"
	basichost "github.com/libp2p/go-libp2p/p2p/host/basic"
	"github.com/libp2p/go-libp2p/p2p/muxer/yamux"
	mocknet "github.com/libp2p/go-libp2p/p2p/net/mock"
	"github.com/libp2p/go-libp2p/p2p/protocol/identify"
	"github.com/libp2p/go-libp2p/p2p/security/noise"
	libp2ptls "github.com/libp2p/go-libp2p/p2p/security/tls"
	libp2pquic "github.com/libp2p/go-libp2p/p2p/transport/quic"
	"github.com/libp2p/go-libp2p/p2p/transport/tcp"
	libp2pwebrtc "github.com/libp2p/go-libp2p/p2p/transport/webrtc"
	"github.com/libp2p/go-libp2p/p2p/transport/websocket"
	webtransport "github.com/libp2p/go-libp2p/p2p/transport/webtransport"
)

type vfC02Job struct {
	data  []byte
	close bool
}

// one direction of the stream
type vfC02Dir struct {
	name     string
	led      *vfc02.Ledger
	unit     int // real bytes per model unit
	unitsDel int
	jobs     chan vfC02Job
	mu       sync.Mutex
	werr     []string
	closed   bool
	eof      bool
}

type vfC02ReadRes struct {
	buf []byte
	n   int
	err error
}

type vfC02LazyRun struct {
	res    *vfh.Result
	pick   vfc02.Picker
	file   string
	w      vfh.Walk
	h1, h2 host.Host
	proto  protocol.ID
	accept chan network.Stream
	label  string
	// largest unit (real bytes per model unit) the stack's flow control can hold unread for every stream of the
	// connection at once; 0 = any (see vfC02Stacks)
	maxUnit   int
	sleep     func(class string) time.Duration // nil: time is not a dimension of this harness
	abandoned atomic.Bool
	mu        sync.Mutex
	log       []any
}

func (r *vfC02LazyRun) note(m map[string]any) { r.mu.Lock(); r.log = append(r.log, m); r.mu.Unlock() }

func (r *vfC02LazyRun) mismatch(step int, class, what string, exp, got any) {
	if r.abandoned.Load() && class != "lazyms-stall" {
		return // the watchdog tore the streams down: what the walk sees from then on is the harness's doing
	}
	r.mu.Lock()
	pre := append([]any(nil), r.log...)
	r.mu.Unlock()
	r.res.AddMismatch(vfh.Mismatch{Class: class, What: fmt.Sprintf("[lazyms/%s %s walk %d] %s", r.label, filepath.Base(r.file), r.w.Walk, what),
		Walk: r.w.Walk, Step: step, Expected: exp, Got: got, Prefix: pre,
		Cfg: map[string]any{"layer": "lazyms", "stack": r.label, "round": r.pick.Round}})
}

func (r *vfC02LazyRun) run(watchdog time.Duration) (stalled bool) {
	done := make(chan struct{})
	var closers []func()
	var cmu sync.Mutex
	addCloser := func(f func()) { cmu.Lock(); closers = append(closers, f); cmu.Unlock() }
	go func() {
		defer close(done)
		defer func() {
			if p := recover(); p != nil {
				// calls into the code under test run on this goroutine too; the stack tells them apart
				st := string(debug.Stack())
				if i := strings.Index(st, "panic("); i >= 0 {
					st = st[i:]
				}
				first := ""
				for _, ln := range strings.Split(st, "\n") {
					if strings.HasPrefix(ln, "\t") && !strings.Contains(ln, "/runtime/") {
						first = ln
						break
					}
				}
				if strings.Contains(first, "zz_verif_") || strings.Contains(first, "internal/vf") {
					r.mismatch(len(r.log), "MACHINERY", fmt.Sprintf("panic in the harness: %v at %s", p, first), nil, nil)
				} else {
					r.mismatch(len(r.log), "lazyms-panic", fmt.Sprintf("panic in the channel code: %v at %s", p, strings.TrimSpace(first)), "no panic", fmt.Sprint(p))
				}
			}
		}()
		r.body(addCloser)
	}()
	select {
	case <-done:
	case <-time.After(watchdog):
		stalled = true
		r.abandoned.Store(true)
	}
	cmu.Lock()
	for _, f := range closers {
		f()
	}
	cmu.Unlock()
	<-done
	return stalled
}

var (
	// 36 = length of the client's handshake for the harness protocol id: sizes around the 4096-byte write buffer
	vfC02LazyCUnit = []int{1, 2, 255, 4059, 4060, 4061, 4096, 16384, 32768, 65536}
	vfC02LazySUnit = []int{1, 2, 255, 256, 257, 4096, 16384, 32768, 65536}
)

func (r *vfC02LazyRun) body(addCloser func(func())) {
	ctx, cancel := context.WithCancel(context.Background())
	addCloser(cancel)
	// drop streams of an abandoned earlier walk
	for len(r.accept) > 0 {
		(<-r.accept).Reset()
	}
	cs, err := r.h1.NewStream(ctx, r.h2.ID(), r.proto)
	if err != nil {
		r.mismatch(0, "MACHINERY", "NewStream: "+err.Error(), nil, nil)
		return
	}
	addCloser(func() { cs.Reset() })
	if tn := fmt.Sprintf("%T", cs); tn != "*basichost.streamWrapper" {
		_ = basichost.DefaultNegotiationTimeout
		r.mismatch(0, "MACHINERY", "NewStream did not take the optimistic path: "+tn, nil, nil)
		return
	}
	var ss network.Stream
	server := func() network.Stream {
		if ss == nil {
			select {
			case ss = <-r.accept:
				s := ss
				addCloser(func() { s.Reset() })
			case <-ctx.Done():
			}
		}
		return ss
	}
	units := func(all []int) []int {
		var out []int
		for _, u := range all {
			if r.maxUnit == 0 || u <= r.maxUnit {
				out = append(out, u)
			}
		}
		return out
	}
	c2s := &vfC02Dir{name: "client->server", led: vfc02.NewLedger("lazyms", vfc02.Content(0), false),
		unit: r.pick.Pick(units(vfC02LazyCUnit), r.w.Walk, 1), jobs: make(chan vfC02Job, 16)}
	s2c := &vfC02Dir{name: "server->client", led: vfc02.NewLedger("lazyms", vfc02.Content(1), false),
		unit: r.pick.Pick(units(vfC02LazySUnit), r.w.Walk, 2), jobs: make(chan vfC02Job, 16)}
	var wg sync.WaitGroup
	writer := func(d *vfC02Dir, get func() network.Stream) {
		defer wg.Done()
		for j := range d.jobs {
			s := get()
			if s == nil {
				return
			}
			var err error
			n := len(j.data)
			if j.close {
				err = s.CloseWrite()
			} else {
				n, err = s.Write(j.data)
			}
			if n != len(j.data) || err != nil {
				d.mu.Lock()
				d.werr = append(d.werr, fmt.Sprintf("close=%v Write(%d) = (%d, %v)", j.close, len(j.data), n, err))
				d.mu.Unlock()
			}
		}
	}
	wg.Add(2)
	var sOnce sync.Once
	var sStream network.Stream
	sReady := make(chan struct{})
	// the server stream is taken by whoever needs it first; the main goroutine publishes it
	go writer(c2s, func() network.Stream { return cs })
	go writer(s2c, func() network.Stream {
		select {
		case <-sReady:
			return sStream
		case <-ctx.Done():
			return nil
		}
	})
	needServer := func() network.Stream {
		s := server()
		sOnce.Do(func() { sStream = s; close(sReady) })
		return s
	}
	l1 := func(si int, d *vfC02Dir, p *vfc02.Problem) bool {
		if p == nil {
			return false
		}
		r.mismatch(si, p.Class, d.name+": "+p.What, p.Expected, p.Got)
		return true
	}
	var buf []byte
	check := func(si int, d *vfC02Dir, b []byte, n int, err error, target int) bool {
		r.note(map[string]any{"op": "read", "dir": d.name, "real": len(b), "n": n, "err": fmt.Sprint(err)})
		if err == io.EOF && d.led.Delivered+n < target {
			r.mismatch(si, "lazyms-early-eof", fmt.Sprintf("%s: EOF after %d bytes, %d were written", d.name, d.led.Delivered+n, d.led.Written), d.led.Written, d.led.Delivered+n)
			return false
		}
		if err == io.EOF && d.closed && d.led.Delivered+n == d.led.Written {
			// the last bytes and the end of the stream in one call (io.Reader allows it; QUIC streams do it)
			d.eof = true
			err = nil
		}
		if l1(si, d, d.led.OnRead(b, n, err, false)) {
			return false
		}
		return err == nil
	}
	readTo := func(si int, d *vfC02Dir, s network.Stream, target, class int) bool {
		for it := 0; d.led.Delivered < target; it++ {
			b := r.bufLen(d, class, si, it)
			if b > target-d.led.Delivered {
				b = target - d.led.Delivered
			}
			if cap(buf) < b {
				buf = make([]byte, b+4096)
			}
			n, err := s.Read(buf[:b:b])
			if !check(si, d, buf[:b], n, err, target) {
				return false
			}
		}
		return true
	}
	expectEOF := func(si int, d *vfC02Dir, n int, err error, b []byte) bool {
		r.note(map[string]any{"op": "read-eof", "dir": d.name, "n": n, "err": fmt.Sprint(err)})
		if n > 0 {
			l1(si, d, d.led.OnRead(b, n, nil, true))
			r.mismatch(si, "lazyms-bytes", fmt.Sprintf("%s: %d bytes delivered after everything written had been read", d.name, n), 0, n)
			return false
		}
		if err != io.EOF {
			r.mismatch(si, "lazyms-eof-missing", fmt.Sprintf("%s: read after the writer's CloseWrite and all data: %v", d.name, err), "EOF", fmt.Sprint(err))
			return false
		}
		d.eof = true
		return true
	}
	var pending chan vfC02ReadRes // the client's outstanding Read
	steps := 0
	ok := true
	for si, st := range r.w.Steps {
		if !ok {
			break
		}
		op := st.Op
		steps++
		switch op.Name() {
		case "ctok", "sneg":
		case "wait":
			// (virtual) time passes between two operations; only the harness that runs in a synctest bubble sleeps
			if r.sleep != nil {
				d := r.sleep(op.S("c"))
				r.note(map[string]any{"op": "wait", "class": op.S("c"), "slept": d.String(), "after_closewrite": op.B("afterclose")})
				r.res.Case(fmt.Sprintf("wait/%s/%v/%v", op.S("c"), op.B("afterclose"), op.B("readpending")))
			}
		case "cwrite", "swrite":
			d := c2s
			if op.Name() == "swrite" {
				d = s2c
				if needServer() == nil {
					return
				}
			}
			k := op.I("k")
			K := k * d.unit
			if d.led.Written+K > len(d.led.Data) {
				r.mismatch(si, "MACHINERY", "payload exhausted", nil, nil)
				return
			}
			data := d.led.Next(K)
			d.led.OnWrite(K, K, nil) // handed to Write; completion is checked at the end
			d.jobs <- vfC02Job{data: data}
			r.note(map[string]any{"op": op.Name(), "k": k, "real": K, "first": op.B("first")})
			r.res.Case(fmt.Sprintf("%s/%d/%v", op.Name(), k, op.B("first")))
		case "cclosewrite", "sclosewrite":
			d := c2s
			if op.Name() == "sclosewrite" {
				d = s2c
				if needServer() == nil {
					return
				}
			}
			d.closed = true
			d.jobs <- vfC02Job{close: true}
			r.note(map[string]any{"op": op.Name(), "first": op.B("first")})
			r.res.Case(fmt.Sprintf("%s/%v", op.Name(), op.B("first")))
		case "creadbegin":
			b := r.bufLen(s2c, op.I("b"), si, 0)
			rb := make([]byte, b)
			pending = make(chan vfC02ReadRes, 1)
			go func(ch chan vfC02ReadRes) {
				n, err := cs.Read(rb)
				ch <- vfC02ReadRes{rb, n, err}
			}(pending)
			r.note(map[string]any{"op": "creadbegin", "real": b, "first": op.B("first")})
			r.res.Case(fmt.Sprintf("creadbegin/%d/%v", op.I("b"), op.B("first")))
		case "creadend":
			var rr vfC02ReadRes
			select {
			case rr = <-pending:
			case <-ctx.Done():
				return
			}
			pending = nil
			r.res.Case(fmt.Sprintf("creadend/%v/%v", op.B("eof"), op.B("halfclosed")))
			if op.B("eof") {
				ok = expectEOF(si, s2c, rr.n, rr.err, rr.buf)
				break
			}
			s2c.unitsDel += op.I("n")
			target := s2c.unitsDel * s2c.unit
			if ok = check(si, s2c, rr.buf, rr.n, rr.err, target); ok {
				ok = readTo(si, s2c, cs, target, op.I("n"))
			}
		case "sread":
			s := needServer()
			if s == nil {
				return
			}
			r.res.Case(fmt.Sprintf("sread/%d/%v/%v", op.I("b"), op.B("eof"), op.B("halfclosed")))
			if op.B("eof") {
				if cap(buf) < 4096 {
					buf = make([]byte, 8192)
				}
				n, err := s.Read(buf[:4096])
				ok = expectEOF(si, c2s, n, err, buf[:4096])
				break
			}
			c2s.unitsDel += op.I("n")
			ok = readTo(si, c2s, s, c2s.unitsDel*c2s.unit, op.I("b"))
		default:
			r.mismatch(si, "MACHINERY", "unknown op "+op.Name(), nil, nil)
			return
		}
	}
	// the end: everything handed to Write arrives in both directions, then EOF where the writer closed.
	// (The server stream exists as soon as the client's handshake went out, which any client call causes;
	// a walk without client call has no server side.)
	if ok && pending != nil {
		// an outstanding client Read: it takes part in the drain
		if s2c.led.Written > s2c.led.Delivered || s2c.closed {
			rr := <-pending
			pending = nil
			if s2c.led.Written > s2c.led.Delivered {
				ok = check(len(r.w.Steps), s2c, rr.buf, rr.n, rr.err, s2c.led.Written)
			} else {
				ok = expectEOF(len(r.w.Steps), s2c, rr.n, rr.err, rr.buf)
			}
		}
	}
	clientActed := c2s.led.Written > 0 || c2s.closed || s2c.unitsDel > 0 || pending != nil || r.clientCalled()
	if ok && pending == nil && (s2c.led.Written > s2c.led.Delivered) {
		ok = readTo(len(r.w.Steps), s2c, cs, s2c.led.Written, 2)
	}
	if ok && pending == nil && s2c.closed && !s2c.eof {
		if cap(buf) < 4096 {
			buf = make([]byte, 8192)
		}
		n, err := cs.Read(buf[:4096])
		ok = expectEOF(len(r.w.Steps), s2c, n, err, buf[:4096])
	}
	if ok && clientActed && (c2s.led.Written > c2s.led.Delivered || (c2s.closed && !c2s.eof)) {
		if s := needServer(); s != nil {
			ok = readTo(len(r.w.Steps), c2s, s, c2s.led.Written, 2)
			if ok && c2s.closed && !c2s.eof {
				if cap(buf) < 4096 {
					buf = make([]byte, 8192)
				}
				n, err := s.Read(buf[:4096])
				ok = expectEOF(len(r.w.Steps), c2s, n, err, buf[:4096])
			}
		}
	}
	close(c2s.jobs)
	close(s2c.jobs)
	if ok {
		sOnce.Do(func() { close(sReady) })
		wg.Wait()
		for _, d := range []*vfC02Dir{c2s, s2c} {
			if len(d.werr) > 0 {
				r.mismatch(len(r.w.Steps), "lazyms-write-failed", fmt.Sprintf("%s: %v on a healthy stream", d.name, d.werr), "nil", d.werr)
			}
			l1(len(r.w.Steps), d, d.led.AtEnd())
		}
	}
	r.res.Count(1, steps)
	if ok && len(r.log) >= 8 {
		r.mu.Lock()
		r.res.Sample(map[string]any{"layer": "lazyms", "walk": r.w.Walk, "executed": append([]any(nil), r.log...)})
		r.mu.Unlock()
	}
}

func (r *vfC02LazyRun) clientCalled() bool {
	for _, st := range r.w.Steps {
		switch st.Op.Name() {
		case "cwrite", "creadbegin", "cclosewrite":
			return true
		}
	}
	return false
}

// bufLen: class 1 = at most one unit, class 2 = more than one and at most two units
func (r *vfC02LazyRun) bufLen(d *vfC02Dir, class, si, it int) int {
	u := d.unit
	var c []int
	if class <= 1 {
		for _, x := range []int{1, 2, u / 2, u - 1, u} {
			if x >= 1 && x <= u {
				c = append(c, x)
			}
		}
	} else {
		for _, x := range []int{u + 1, u + u/2, 2*u - 1, 2 * u} {
			if x > u && x <= 2*u {
				c = append(c, x)
			}
		}
	}
	return r.pick.Pick(c, r.w.Walk, si, it)
}

func TestVerifC02LazyMS(t *testing.T) {
	res := vfh.NewResult()
	res.Rule = "distinct = (operation, size class, first call, eof, after own CloseWrite) combinations executed on real BasicHost streams"
	defer func() {
		if err := res.Write(); err != nil {
			t.Fatal(err)
		}
	}()
	files, _ := filepath.Glob(filepath.Join(vfh.In(), "lazy_*.jsonl"))
	sort.Strings(files)
	if len(files) == 0 {
		t.Fatal("no lazy behaviour files")
	}
	mn, err := mocknet.FullMeshConnected(2)
	if err != nil {
		t.Fatal(err)
	}
	defer mn.Close()
	h1, h2 := mn.Hosts()[0], mn.Hosts()[1]
	for _, c := range h1.Network().ConnsToPeer(h2.ID()) {
		<-h1.(*basichost.BasicHost).IDService().IdentifyWait(c)
	}
	if err := vfC02LazyReplay(res, files, h1, h2, "mocknet", 1, vfh.EnvInt("VERIF_C02_LAZY_PAR", 8), 0); err != nil {
		t.Fatal(err)
	}
}

var (
	vfC02Stalled atomic.Bool
	vfC02Stalls  atomic.Int64
)

// vfC02LazyReplay runs the walks (one in `share`) on streams from h1 to h2.
func vfC02LazyReplay(res *vfh.Result, files []string, h1, h2 host.Host, label string, share, par, maxUnit int, sleep ...func(string) time.Duration) error {
	rounds := vfh.EnvInt("VERIF_C02_ROUNDS", 1)
	w1, w2 := 20*time.Second, 40*time.Second
	var sleepFn func(string) time.Duration
	if len(sleep) > 0 {
		// virtual time (synctest bubble): the watchdogs only fire when every goroutine is blocked for good
		sleepFn = sleep[0]
		w1, w2 = 10000*time.Hour, 10000*time.Hour
	}
	type job struct {
		f  string
		w  vfh.Walk
		rd int
	}
	ch := make(chan job)
	var wg sync.WaitGroup
	for i := 0; i < par; i++ {
		proto := protocol.ID(fmt.Sprintf("/vfc02/%d/1.0.0", i))
		accept := make(chan network.Stream, 64)
		h2.SetStreamHandler(proto, func(s network.Stream) { accept <- s })
		// the optimistic path needs the protocol to be known for the peer
		if err := h1.Peerstore().AddProtocols(h2.ID(), proto); err != nil {
			return err
		}
		wg.Add(1)
		go func() {
			defer wg.Done()
			for j := range ch {
				mk := func() *vfC02LazyRun {
					return &vfC02LazyRun{res: res, file: j.f, w: j.w, h1: h1, h2: h2, proto: proto, accept: accept, label: label, maxUnit: maxUnit, sleep: sleepFn,
						pick: vfc02.Picker{Seed: uint64(vfh.Seed()), Round: j.rd}}
				}
				if vfC02Stalled.Load() {
					continue // a reproduced stall has been reported: the rest would only wait for watchdogs
				}
				if mk().run(w1) {
					res.Inc("lazyms_stalls", 1)
					if vfC02Stalls.Add(1) > 3 && !vfC02Stalled.Swap(true) {
						// stalls that do not reproduce are no verdict; more of them would only burn watchdog time
						res.AddMismatch(vfh.Mismatch{Class: "MACHINERY", What: "lazyms: more than 3 walks stalled once without stalling again when repeated", Walk: j.w.Walk})
						continue
					}
					r2 := mk()
					if r2.run(w2) && !vfC02Stalled.Swap(true) {
						r2.mismatch(len(j.w.Steps), "lazyms-stall", "bytes handed to Write did not reach the reader (the walk stalled twice)", "delivery", "stall")
					}
				}
				res.Inc("walks_"+label, 1)
			}
		}()
	}
	for _, f := range files {
		_, walks, err := vfh.LoadWalks(f)
		if err != nil {
			return err
		}
		for rd := 0; rd < rounds; rd++ {
			for _, w := range walks {
				if share > 1 && (uint64(w.Walk)+uint64(vfh.Seed())+uint64(rd))%uint64(share) != 0 {
					continue
				}
				ch <- job{f, w, rd}
			}
		}
	}
	close(ch)
	wg.Wait()
	return nil
}

// Real stacks over loopback: the same walks on streams between two libp2p nodes configured with one
// transport x security x muxer combination each (L1 ledger only; the operating system carries the bytes).
// The walks read one direction of one stream at a time, so data of the other direction and of the other
// streams on the connection waits unread meanwhile.  Transports with CONNECTION-level flow control stop
// every stream once the unread total exceeds their window (QUIC: connection window, some 768 kB at the
// start; WebRTC: one SCTP receive buffer of 10 x 16 kB for the whole connection, a documented limit of that
// transport for "dependent streams").  That is not a loss of bytes and not what the property is about, so
// the harness keeps the unread total below the window: par streams at a time, units of at most maxUnit
// bytes (a direction carries at most 3 units).
var vfC02Stacks = map[string]struct {
	addr    string
	par     int
	maxUnit int
	opts    func() []libp2p.Option
}{
	"tcp-noise-yamux": {"/ip4/127.0.0.1/tcp/0", 4, 65536, func() []libp2p.Option {
		return []libp2p.Option{libp2p.Transport(tcp.NewTCPTransport), libp2p.Security(noise.ID, noise.New), libp2p.Muxer(yamux.ID, yamux.DefaultTransport)}
	}},
	"tcp-tls-yamux": {"/ip4/127.0.0.1/tcp/0", 4, 65536, func() []libp2p.Option {
		return []libp2p.Option{libp2p.Transport(tcp.NewTCPTransport), libp2p.Security(libp2ptls.ID, libp2ptls.New), libp2p.Muxer(yamux.ID, yamux.DefaultTransport)}
	}},
	"tcp-psk-noise-yamux": {"/ip4/127.0.0.1/tcp/0", 4, 65536, func() []libp2p.Option {
		psk := make([]byte, 32)
		for i := range psk {
			psk[i] = byte(i * 3)
		}
		return []libp2p.Option{libp2p.Transport(tcp.NewTCPTransport), libp2p.Security(noise.ID, noise.New), libp2p.Muxer(yamux.ID, yamux.DefaultTransport), libp2p.PrivateNetwork(psk)}
	}},
	"ws-noise-yamux": {"/ip4/127.0.0.1/tcp/0/ws", 4, 65536, func() []libp2p.Option {
		return []libp2p.Option{libp2p.Transport(websocket.New), libp2p.Security(noise.ID, noise.New), libp2p.Muxer(yamux.ID, yamux.DefaultTransport)}
	}},
	"quic": {"/ip4/127.0.0.1/udp/0/quic-v1", 2, 32768, func() []libp2p.Option {
		return []libp2p.Option{libp2p.Transport(libp2pquic.NewTransport)}
	}},
	"webtransport": {"/ip4/127.0.0.1/udp/0/quic-v1/webtransport", 2, 32768, func() []libp2p.Option {
		return []libp2p.Option{libp2p.Transport(webtransport.New)}
	}},
	"webrtc-direct": {"/ip4/127.0.0.1/udp/0/webrtc-direct", 1, 16384, func() []libp2p.Option {
		return []libp2p.Option{libp2p.Transport(libp2pwebrtc.New)}
	}},
}

func TestVerifC02Stack(t *testing.T) {
	res := vfh.NewResult()
	res.Rule = "distinct = (operation, size class, first call, eof, after own CloseWrite) combinations executed on streams between real libp2p nodes over loopback"
	defer func() {
		if err := res.Write(); err != nil {
			t.Fatal(err)
		}
	}()
	files, _ := filepath.Glob(filepath.Join(vfh.In(), "lazy_*.jsonl"))
	sort.Strings(files)
	if len(files) == 0 {
		t.Fatal("no lazy behaviour files")
	}
	share := vfh.EnvInt("VERIF_C02_STACK_SHARE", 8)
	names := strings.Split(os.Getenv("VERIF_C02_STACKS"), ",")
	if os.Getenv("VERIF_C02_STACKS") == "" {
		names = []string{"tcp-noise-yamux"}
	}
	for _, name := range names {
		st, ok := vfC02Stacks[name]
		if !ok {
			t.Fatalf("unknown stack %q", name)
		}
		mk := func(listen bool) (host.Host, error) {
			opts := append(st.opts(), libp2p.DisableRelay(), libp2p.ResourceManager(&network.NullResourceManager{}))
			if listen {
				opts = append(opts, libp2p.ListenAddrStrings(st.addr))
			} else {
				opts = append(opts, libp2p.NoListenAddrs)
			}
			return libp2p.New(opts...)
		}
		h2, err := mk(true)
		if err != nil {
			res.Set("stack_unavailable_"+name, err.Error())
			continue
		}
		h1, err := mk(false)
		if err != nil {
			h2.Close()
			res.Set("stack_unavailable_"+name, err.Error())
			continue
		}
		ctx, cancel := context.WithTimeout(context.Background(), 30*time.Second)
		err = h1.Connect(ctx, peer.AddrInfo{ID: h2.ID(), Addrs: h2.Addrs()})
		cancel()
		if err != nil {
			// an environment that cannot carry this transport is not a verdict about the code
			res.Set("stack_unavailable_"+name, err.Error())
			h1.Close()
			h2.Close()
			continue
		}
		if ids, ok := h1.(interface{ IDService() identify.IDService }); ok {
			for _, c := range h1.Network().ConnsToPeer(h2.ID()) {
				<-ids.IDService().IdentifyWait(c)
			}
		}
		if err := vfC02LazyReplay(res, files, h1, h2, name, share, st.par, st.maxUnit); err != nil {
			t.Fatal(err)
		}
		h1.Close()
		h2.Close()
	}
}
