//go:build verif

package basichost_test

// C04, family 4: two REAL BasicHosts (real Swarm, real upgrader with Noise + yamux, real identify, REAL
// resource managers) connected through the in-memory TCP-shaped transport of internal/vfc04, inside a
// synctest bubble.  BasicHost.NewStream / newStreamHandler are stopped at every stage: unsupported
// protocol (negotiation fails: deferred ResetWithError), SetProtocol refused on either side, OpenStream
// refused, and every I/O operation index k of the raw connection (counted in a fault-free dry run of the
// NewStream + echo) x {err, eof, stall} x end, plus Host.Close() racing at operation k.  Afterwards both
// hosts are closed: usage must be zero in every scope, no connection, no listener, no goroutine.  The
// ledgers are validated by TLC against spec/C04_Obs.tla.

import (
	"context"
	"crypto/rand"
	"encoding/json"
	"fmt"
	"io"
	"os"
	"path/filepath"
	"sort"
	"sync"
	"testing"
	"testing/synctest"
	"time"

	"github.com/libp2p/go-libp2p/core/crypto"
	"github.com/libp2p/go-libp2p/core/network"
	"github.com/libp2p/go-libp2p/core/peer"
	"github.com/libp2p/go-libp2p/core/peerstore"
	"github.com/libp2p/go-libp2p/core/protocol"
	"github.com/libp2p/go-libp2p/core/sec"
	"github.com/libp2p/go-libp2p/internal/vfc04"
	"github.com/libp2p/go-libp2p/internal/vfh"
	basichost "github.com/libp2p/go-libp2p/p2p/host/basic"
	"github.com/libp2p/go-libp2p/p2p/host/eventbus"
	"github.com/libp2p/go-libp2p/p2p/host/peerstore/pstoremem"
	rcmgr "github.com/libp2p/go-libp2p/p2p/host/resource-manager"
	"github.com/libp2p/go-libp2p/p2p/muxer/yamux"
	"github.com/libp2p/go-libp2p/p2p/net/swarm"
	"github.com/libp2p/go-libp2p/p2p/net/upgrader"
	"github.com/libp2p/go-libp2p/p2p/security/noise"
	ma "github.com/multiformats/go-multiaddr"
)

const (
	vfC04Echo = protocol.ID("/vf/echo/1")
	vfC04Nope = protocol.ID("/vf/nope/1")
)

type vfC04HostPlan struct {
	Kind string `json:"kind"` // none | lazy | unsupported | setprotocol-a | setprotocol-b | openstream-a | openstream-b | err | eof | stall | hclose
	Side  string `json:"side"`  // a | b
	K     int    `json:"k"`
	Phase string `json:"phase"` // "" = during NewStream | connect = from the first byte of the connection (upgrade + identify)
	// kind "gate": the remote stays healthy at connection level but never answers its StallFrom-th and later
	// inbound streams (1 = identify, 2 = the caller's stream), and the caller's context ends while the call
	// is blocked there
	StallFrom int    `json:"stall_from"`
	Ctx       string `json:"ctx"`  // cancel (1 s after the call) | deadline (5 s) | negtimeout (no deadline: the host's own)
	Mode      string `json:"mode"` // connected (Connect first) | netdial (swarm-level dial, then NewStream at once) | fresh (no connection yet)
	Lazy      bool   `json:"lazy"` // the caller believes the remote speaks the protocol (lazy negotiation)
}

func (p vfC04HostPlan) String() string {
	if p.Kind == "gate" {
		return fmt.Sprintf("gate/stall-from-%d/%s/%s/lazy=%v", p.StallFrom, p.Ctx, p.Mode, p.Lazy)
	}
	if p.K > 0 {
		ph := ""
		if p.Phase != "" {
			ph = p.Phase + ":"
		}
		return fmt.Sprintf("%s@%s%s%d", p.Kind, ph, p.Side, p.K)
	}
	return p.Kind
}

type vfC04HostOut struct {
	OpsA, OpsB int
	ConnA      int // operations of the connect phase (upgrade + identify)
	ConnB      int
	Hit        bool
	Op         string
	Err        string
	Deadlock   string
	Hung       string
	Leaked     []string
}

var vfC04HostKeys struct {
	once         sync.Once
	privA, privB crypto.PrivKey
	idA, idB     peer.ID
}

type vfC04H struct {
	spy *vfc04.MuxSpy
	h  *basichost.BasicHost
	rm network.ResourceManager
	sw *swarm.Swarm
}

func vfC04MkHost(t *testing.T, net *vfc04.MemNet, priv crypto.PrivKey, id peer.ID, port int, mod func(c *rcmgr.PartialLimitConfig)) *vfC04H {
	rm, err := vfc04.NewRM(mod)
	if err != nil {
		t.Fatal(err)
	}
	ps, err := pstoremem.NewPeerstore()
	if err != nil {
		t.Fatal(err)
	}
	ps.AddPrivKey(id, priv)
	ps.AddPubKey(id, priv.GetPublic())
	bus := eventbus.NewBus()
	sw, err := swarm.NewSwarm(id, ps, bus, swarm.WithResourceManager(rm))
	if err != nil {
		t.Fatal(err)
	}
	spy := &vfc04.MuxSpy{Multiplexer: yamux.DefaultTransport}
	muxers := []upgrader.StreamMuxer{{ID: yamux.ID, Muxer: spy}}
	st, err := noise.New(noise.ID, priv, muxers)
	if err != nil {
		t.Fatal(err)
	}
	u, err := upgrader.New([]sec.SecureTransport{st}, muxers, nil, rm, nil)
	if err != nil {
		t.Fatal(err)
	}
	if err := sw.AddTransport(&vfc04.MemTransport{Net: net, U: u, RM: rm}); err != nil {
		t.Fatal(err)
	}
	if err := sw.Listen(ma.StringCast(fmt.Sprintf("/ip4/127.0.0.1/tcp/%d", port))); err != nil {
		t.Fatal(err)
	}
	h, err := basichost.NewHost(sw, &basichost.HostOpts{EventBus: bus})
	if err != nil {
		t.Fatal(err)
	}
	h.Start()
	return &vfC04H{h: h, rm: rm, sw: sw, spy: spy}
}

func vfC04HostScenario(t *testing.T, plan vfC04HostPlan, tr *vfh.Trace, out *vfC04HostOut) {
	led := &vfc04.Ledger{T: tr}
	var emu sync.Mutex
	ended := map[string]bool{}
	var stageOf func(o string) string
	endOnce := func(o, why string) {
		emu.Lock()
		was := ended[o]
		ended[o] = true
		emu.Unlock()
		if !was {
			led.End(o, why, stageOf(o))
		}
	}
	net := vfc04.NewMemNet()
	var endA, endB *vfc04.End
	net.OnPipe = func(d, l *vfc04.End) {
		d.Name, l.Name = "ca", "cb"
		endA, endB = d, l
		for _, e := range []*vfc04.End{d, l} {
			e.OnClose = func(e *vfc04.End, first bool) {
				if first {
					led.RawClose(e.Name)
				}
			}
			e.OnFire = func(e *vfc04.End, k int, op string) {
				out.Hit, out.Op = true, op
				st := "newstream"
				if plan.Phase != "" {
					st = plan.Phase
				}
				tr.Emit("fault", "o", e.Name, "k", k, "op", op, "kind", plan.Kind, "stage", st)
			}
		}
		if plan.Phase == "connect" && plan.K > 0 {
			e := d
			if plan.Side == "b" {
				e = l
			}
			e.SetFault(&vfc04.Fault{Kind: plan.Kind, K: plan.K})
		}
		led.RawOpen("ca")
	}
	net.OnAccept = func(l *vfc04.End) { led.RawOpen(l.Name) }
	modA := func(c *rcmgr.PartialLimitConfig) {}
	modB := func(c *rcmgr.PartialLimitConfig) {}
	block := rcmgr.ResourceLimits{Streams: rcmgr.BlockAllLimit, StreamsInbound: rcmgr.BlockAllLimit, StreamsOutbound: rcmgr.BlockAllLimit}
	switch plan.Kind {
	case "setprotocol-a":
		modA = func(c *rcmgr.PartialLimitConfig) { c.Protocol = map[protocol.ID]rcmgr.ResourceLimits{vfC04Echo: block} }
	case "setprotocol-b":
		modB = func(c *rcmgr.PartialLimitConfig) { c.Protocol = map[protocol.ID]rcmgr.ResourceLimits{vfC04Echo: block} }
	case "openstream-a": // identify's stream is gone by then; the harness keeps one stream open, the next is refused
		modA = func(c *rcmgr.PartialLimitConfig) { c.PeerDefault.StreamsOutbound = 1 }
	case "openstream-b":
		modB = func(c *rcmgr.PartialLimitConfig) { c.PeerDefault.StreamsInbound = 1 }
	}
	A := vfC04MkHost(t, net, vfC04HostKeys.privA, vfC04HostKeys.idA, 7001, modA)
	B := vfC04MkHost(t, net, vfC04HostKeys.privB, vfC04HostKeys.idB, 7002, modB)
	stageOf = func(o string) string {
		switch o {
		case "ca":
			return A.spy.Stage(endA)
		case "cb":
			return B.spy.Stage(endB)
		}
		return ""
	}
	var hmu sync.Mutex
	handled := map[string]bool{}
	pendingIn := []string{}
	B.h.SetStreamHandler(vfC04Echo, func(s network.Stream) {
		hmu.Lock()
		var o string
		if len(pendingIn) > 0 {
			o, pendingIn = pendingIn[0], pendingIn[1:]
			handled[o] = true
		}
		hmu.Unlock()
		if o != "" {
			led.Live(o)
		}
		b := make([]byte, 4)
		s.SetDeadline(time.Now().Add(20 * time.Second))
		if _, err := io.ReadFull(s, b); err == nil {
			s.Write(b)
		}
		if o != "" && plan.Kind == "openstream-b" && o == "t1" {
			<-time.After(30 * time.Second) // keep the first inbound stream open for a while
		}
		s.Close()
		if o != "" {
			endOnce(o, "handler-closed")
		}
	})
	gate := plan.Kind == "gate"
	if plan.StallFrom > 0 {
		// B stays a healthy peer at connection level (yamux keep-alives are answered) but its StallFrom-th and
		// later inbound streams are never answered: the handler only reads until the stream is reset or closed
		orig := B.sw.StreamHandler()
		var nIn int
		B.sw.SetStreamHandler(func(s network.Stream) {
			hmu.Lock()
			nIn++
			n := nIn
			hmu.Unlock()
			if n >= plan.StallFrom {
				out.Hit = true
				tr.Emit("note", "what", "remote-stalls-stream", "n", n)
				io.Copy(io.Discard, s)
				s.Reset()
				return
			}
			orig(s)
		})
	}
	// connect
	led.Begin("ca", "conn", "out", "a", true)
	led.Begin("cb", "conn", "in", "b", true)
	addrB := []ma.Multiaddr{ma.StringCast("/ip4/127.0.0.1/tcp/7002")}
	var err error
	switch plan.Mode {
	case "netdial":
		A.h.Peerstore().AddAddrs(vfC04HostKeys.idB, addrB, peerstore.PermanentAddrTTL)
		ctx, cancel := context.WithTimeout(context.Background(), 30*time.Second)
		_, err = A.sw.DialPeer(ctx, vfC04HostKeys.idB)
		cancel()
		if err != nil {
			t.Fatalf("swarm-level dial failed: %v", err)
		}
	case "fresh":
		A.h.Peerstore().AddAddrs(vfC04HostKeys.idB, addrB, peerstore.PermanentAddrTTL)
	default:
		ctx, cancel := context.WithTimeout(context.Background(), 30*time.Second)
		err = A.h.Connect(ctx, peer.AddrInfo{ID: vfC04HostKeys.idB, Addrs: addrB})
		cancel()
		if err != nil && plan.Phase != "connect" && !gate {
			t.Fatalf("connect failed: %v", err)
		}
		synctest.Wait()
		if plan.Phase == "connect" {
			time.Sleep(3 * time.Minute) // identify time-outs, keep-alive of a stalled connection
		} else {
			time.Sleep(2 * time.Second) // identify in both directions has completed
		}
	}
	synctest.Wait()
	connLive := map[string]bool{}
	markConns := func(final bool) (bool, bool) {
		upA, upB := len(A.sw.ConnsToPeer(vfC04HostKeys.idB)) == 1, len(B.sw.ConnsToPeer(vfC04HostKeys.idA)) == 1
		for o, up := range map[string]bool{"ca": upA, "cb": upB} {
			emu.Lock()
			done := ended[o]
			emu.Unlock()
			if up && !connLive[o] && !done {
				connLive[o] = true
				led.Live(o)
			} else if !up && final {
				endOnce(o, "connect-failed")
			}
		}
		return upA, upB
	}
	upA, upB := markConns(plan.Mode != "fresh")
	if plan.Phase != "connect" && !gate && !(upA && upB) {
		t.Fatalf("hosts are not connected")
	}
	audit := func(final bool, gor int) {
		synctest.Wait()
		led.Audit("a", final, vfc04.ReadUsage(A.rm), gor)
		led.Audit("b", final, vfc04.ReadUsage(B.rm), 0)
	}
	if plan.Mode != "netdial" && !(gate && plan.StallFrom == 1) {
		audit(false, 0) // (not while identify's own streams, which the ledger does not know, may be in flight)
	}
	if endA != nil {
		out.ConnA, out.ConnB = endA.NOps(), endB.NOps()
	}

	proto := vfC04Echo
	switch plan.Kind {
	case "unsupported":
		proto = vfC04Nope
	case "lazy":
		// A knows from identify that B speaks the protocol: lazy negotiation
	default:
		A.h.Peerstore().RemoveProtocols(vfC04HostKeys.idB, vfC04Echo) // force a real negotiation
	}
	if gate && plan.Lazy {
		A.h.Peerstore().AddProtocols(vfC04HostKeys.idB, vfC04Echo)
	}
	var closeWG sync.WaitGroup
	closedA := false
	base := [2]int{}
	if endA != nil {
		base = [2]int{endA.NOps(), endB.NOps()}
	}
	if plan.K > 0 && plan.Phase == "" {
		e := endA
		if plan.Side == "b" {
			e = endB
		}
		switch plan.Kind {
		case "err", "eof", "stall":
			e.SetFault(&vfc04.Fault{Kind: plan.Kind, K: e.NOps() + plan.K})
		case "hclose":
			e.SetFault(&vfc04.Fault{Kind: "trig", K: e.NOps() + plan.K, Trig: func() {
				closedA = true
				closeWG.Add(1)
				go func() {
					defer closeWG.Done()
					tr.Emit("note", "what", "host_close_race")
					A.h.Close()
				}()
			}})
		}
	}
	nStreams := 1
	if plan.Kind == "openstream-a" || plan.Kind == "openstream-b" {
		nStreams = 2
	}
	if !(upA && upB) && plan.Mode != "fresh" {
		nStreams = 0
	}
	var kept []network.Stream
	for i := 1; i <= nStreams; i++ {
		so, to := fmt.Sprintf("s%d", i), fmt.Sprintf("t%d", i)
		led.Begin(so, "stream", "out", "a", false)
		led.Begin(to, "stream", "in", "b", false)
		hmu.Lock()
		pendingIn = append(pendingIn, to)
		hmu.Unlock()
		var ctx context.Context
		var cancel context.CancelFunc
		switch plan.Ctx {
		case "cancel":
			ctx, cancel = context.WithCancel(context.Background())
			go func() { time.Sleep(time.Second); cancel() }()
		case "negtimeout":
			ctx, cancel = context.WithCancel(context.Background()) // no deadline: the host applies its negotiation time-out
		default:
			ctx, cancel = context.WithTimeout(context.Background(), 5*time.Second)
		}
		s, err := A.h.NewStream(ctx, vfC04HostKeys.idB, proto)
		cancel()
		if plan.Mode == "fresh" {
			synctest.Wait()
			upA, upB = markConns(false)
		}
		ok := err == nil
		if ok {
			led.Live(so)
			s.SetDeadline(time.Now().Add(20 * time.Second))
			if _, err = s.Write([]byte("ping")); err == nil {
				b := make([]byte, 4)
				_, err = io.ReadFull(s, b)
			}
			if err != nil {
				out.Err = err.Error()
				s.Reset()
				endOnce(so, "io-error")
			} else if i < nStreams {
				kept = append(kept, s)
			} else {
				s.Close()
				endOnce(so, "closed")
			}
		} else {
			out.Err = err.Error()
			endOnce(so, "newstream-error")
		}
		synctest.Wait()
		if i < nStreams {
			audit(false, 0)
		}
	}
	if plan.Kind == "none" || plan.Kind == "lazy" {
		synctest.Wait()
		out.OpsA, out.OpsB = endA.NOps()-base[0], endB.NOps()-base[1]
	}
	// let every natural timeout play out (negotiation timeout, keep-alive of a stalled connection)
	time.Sleep(3 * time.Minute)
	synctest.Wait()
	upA, upB = markConns(true)
	for i, s := range kept {
		s.Close()
		endOnce(fmt.Sprintf("s%d", i+1), "closed")
	}
	synctest.Wait()
	// inbound stream attempts that never reached the handler can no longer do so
	hmu.Lock()
	for i := 1; i <= nStreams; i++ {
		to := fmt.Sprintf("t%d", i)
		if !handled[to] {
			endOnce(to, "never-handled")
		}
	}
	pendingIn = nil
	hmu.Unlock()
	closeWG.Wait()
	if !closedA {
		// the connection may have died from the injected fault
		if len(A.sw.ConnsToPeer(vfC04HostKeys.idB)) == 0 {
			endOnce("ca", "gone")
		}
		if len(B.sw.ConnsToPeer(vfC04HostKeys.idA)) == 0 {
			endOnce("cb", "gone")
		}
		audit(false, 0)
	}
	A.h.Close()
	synctest.Wait()
	tr.Emit("swarm_closed", "rm", "a", "conns", len(A.sw.Conns()), "listeners", len(A.sw.ListenAddresses()))
	synctest.Wait()
	time.Sleep(2 * time.Minute) // B notices (EOF or keep-alive)
	synctest.Wait()
	if len(B.sw.ConnsToPeer(vfC04HostKeys.idA)) == 0 {
		endOnce("cb", "gone")
	}
	audit(false, 0)
	B.h.Close()
	synctest.Wait()
	tr.Emit("swarm_closed", "rm", "b", "conns", len(B.sw.Conns()), "listeners", len(B.sw.ListenAddresses()))
	for _, e := range net.Unclaimed() {
		e.OnClose = nil
		e.Close()
	}
	for _, e := range []*vfc04.End{endA, endB} {
		if e != nil && !e.ClosedByCode() {
			e.OnClose = nil
			e.Close()
		}
	}
	synctest.Wait()
	out.Leaked = vfc04.Census()
	switch plan.Kind {
	case "none", "err", "eof", "stall", "hclose", "gate":
	case "lazy":
		out.Hit = true
	default:
		out.Hit = out.Err != ""
	}
	audit(true, len(out.Leaked))
}

func vfC04HostRun(t *testing.T, plan vfC04HostPlan, tr *vfh.Trace) vfC04HostOut {
	out := &vfC04HostOut{}
	dl, hung := vfc04.RunBubble(t, 40*time.Second, func(t *testing.T) { vfC04HostScenario(t, plan, tr, out) })
	if dl != "" {
		out.Deadlock = dl
		tr.Emit("deadlock", "msg", dl)
	}
	o := *out
	o.Hung = hung
	return o
}

func TestVerifC04Host(t *testing.T) {
	vfC04HostKeys.once.Do(func() {
		vfC04HostKeys.privA, _, _ = crypto.GenerateEd25519Key(rand.Reader)
		vfC04HostKeys.privB, _, _ = crypto.GenerateEd25519Key(rand.Reader)
		vfC04HostKeys.idA, _ = peer.IDFromPrivateKey(vfC04HostKeys.privA)
		vfC04HostKeys.idB, _ = peer.IDFromPrivateKey(vfC04HostKeys.privB)
	})
	_ = peerstore.PermanentAddrTTL
	res := vfh.NewResult()
	defer func() {
		if err := res.Write(); err != nil {
			t.Fatal(err)
		}
	}()
	res.Rule = "one evaluation = BasicHost.NewStream (+ echo) between two real hosts over an in-memory raw connection with one fault: a stage special (unsupported protocol, SetProtocol refused on either side, OpenStream refused on either side, lazy negotiation) or I/O operation index k of the raw connection during NewStream (dry-run count) x {err, eof, stall, Host.Close racing} x end; then both hosts are closed; non-trivial = the fault fired / the stage refused; distinct = distinct (kind, end, read|write) tuples that fired"
	path := ""
	if vfh.Out() != "" {
		path = filepath.Join(vfh.Out(), "c04_host.ndjson")
		os.Remove(path)
	}
	evals, hits, idx := 0, 0, 0
	exits := map[string]bool{}
	stuck := 0
	run := func(plan vfC04HostPlan) vfC04HostOut {
		if stuck >= 4 {
			res.Inc("skipped_after_stuck", 1)
			return vfC04HostOut{}
		}
		tr := vfh.NewTrace(fmt.Sprintf("h%d", idx))
		idx++
		out := vfC04HostRun(t, plan, tr)
		evals++
		res.Count(1, tr.Len())
		if out.Hit {
			hits++
			res.Case(fmt.Sprintf("%s|%s|%s|%s|%s", plan.Phase, plan.Kind, plan.Side, out.Op, plan.String()[:min(len(plan.String()), 60)]))
			exits["host|"+plan.Phase+"|"+plan.Kind] = true
		}
		if path != "" {
			if err := tr.AppendTo(path, map[string]any{"family": "host", "cfg": "noise/early/nopsk", "plan": plan.String(), "kind": plan.Kind,
				"side": plan.Side, "k": plan.K, "hit": out.Hit, "stage": "newstream", "p": plan, "hang": out.Hung}); err != nil {
				t.Fatal(err)
			}
		}
		if out.Deadlock != "" || len(out.Leaked) > 0 || out.Hung != "" {
			res.Sample(map[string]any{"plan": plan.String(), "deadlock": out.Deadlock, "leaked": out.Leaked, "hung": out.Hung})
		}
		if out.Hung != "" {
			res.Inc("hangs", 1)
		}
		if out.Hung != "" || out.Deadlock != "" {
			stuck++
		}
		return out
	}
	if only := os.Getenv("VERIF_C04_ONLY"); only != "" {
		var plan vfC04HostPlan
		if err := json.Unmarshal([]byte(only), &plan); err != nil {
			t.Fatal(err)
		}
		for r := 0; r < vfh.EnvInt("VERIF_C04_REPEAT", 1); r++ {
			out := run(plan)
			t.Logf("%s -> %+v", plan, out)
		}
		res.Set("evaluations", evals)
		res.Traces = []string{path}
		return
	}
	dry := run(vfC04HostPlan{Kind: "none"})
	if dry.Deadlock != "" && dry.Err == "" {
		// even the fault-free scenario cannot finish: its ledger (with the deadlock line) is the evidence
		res.Inc("skipped_after_stuck", 1)
		res.Set("evaluations", evals)
		res.Traces = []string{path}
		return
	}
	if dry.Err != "" || dry.OpsA == 0 || dry.Hung != "" {
		t.Fatalf("host dry run failed: %+v", dry)
	}
	res.Set("ops/host", []int{dry.OpsA, dry.OpsB})
	res.Set("ops/host-connect", []int{dry.ConnA, dry.ConnB})
	for _, k := range []string{"lazy", "unsupported", "setprotocol-a", "setprotocol-b", "openstream-a", "openstream-b"} {
		run(vfC04HostPlan{Kind: k})
	}
	stride := 1
	for _, side := range []string{"a", "b"} {
		n := dry.OpsA
		if side == "b" {
			n = dry.OpsB
		}
		for k := 1; k <= n+1; k++ {
			for ki, kind := range []string{"err", "eof", "stall", "hclose"} {
				if kind == "hclose" && side == "b" {
					continue
				}
				if stride > 1 && (k+ki)%stride != int(vfh.Seed())%stride {
					continue
				}
				run(vfC04HostPlan{Kind: kind, Side: side, K: k})
			}
		}
	}
	// the caller's context ends at every blocking point of Connect / NewStream while the remote, healthy at
	// connection level, is stalled exactly there: identify never answered (the call waits in Connect's or
	// NewStream's IdentifyWait), the caller's stream never answered (full negotiation blocks, lazy negotiation
	// returns and the first read blocks)
	for _, mode := range []string{"connected", "netdial", "fresh"} {
		for _, sf := range []int{1, 2} {
			for _, cx := range []string{"cancel", "deadline", "negtimeout"} {
				for _, lazy := range []bool{false, true} {
					run(vfC04HostPlan{Kind: "gate", StallFrom: sf, Ctx: cx, Mode: mode, Lazy: lazy})
				}
			}
		}
	}
	// the connect phase: upgrade + identify (real protocol handlers opening and accepting streams)
	cstride := 1
	for _, side := range []string{"a", "b"} {
		n := dry.ConnA
		if side == "b" {
			n = dry.ConnB
		}
		for k := 1; k <= n+1; k++ {
			for ki, kind := range []string{"err", "eof", "stall"} {
				if cstride > 1 && (k+ki)%cstride != int(vfh.Seed())%cstride {
					continue
				}
				run(vfC04HostPlan{Kind: kind, Side: side, K: k, Phase: "connect"})
			}
		}
	}
	tr := vfh.NewTrace("sample")
	vfC04HostRun(t, vfC04HostPlan{Kind: "unsupported"}, tr)
	res.Sample(map[string]any{"plan": "unsupported", "events": tr.Events()})
	res.Set("evaluations", evals)
	res.Set("fired", hits)
	keys := make([]string, 0, len(exits))
	for k := range exits {
		keys = append(keys, k)
	}
	sort.Strings(keys)
	res.Set("exits", keys)
	if path != "" {
		res.Traces = []string{path}
	}
}
