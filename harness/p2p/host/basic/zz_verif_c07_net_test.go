//go:build verif

package basichost_test

// C07 harness, part 1: an in-memory transport so that two REAL hosts (BasicHost or BlankHost on a real
// Swarm with a real resource manager) can be joined inside a testing/synctest bubble.  A connection is
// a pair of buffered in-memory byte pipes carrying the real yamux muxer; there is no security
// handshake (the transport asserts the identities, like the insecure transport), which is outside
// C07.  Everything above the muxed connection is the repository's code: swarm.Conn / swarm.Stream,
// the resource manager's stream and protocol scopes, identify, and the host's negotiation.

import (
	"context"
	"errors"
	"fmt"
	"io"
	"net"
	"sync"
	"time"

	ic "github.com/libp2p/go-libp2p/core/crypto"
	"github.com/libp2p/go-libp2p/core/network"
	"github.com/libp2p/go-libp2p/core/peer"
	"github.com/libp2p/go-libp2p/core/transport"
	"github.com/libp2p/go-libp2p/p2p/muxer/yamux"
	ma "github.com/multiformats/go-multiaddr"
	manet "github.com/multiformats/go-multiaddr/net"
)

// one direction of a pipe: unbounded buffer, blocking reads (sync.Cond: durably blocking under synctest)
type vfC07Half struct {
	mu     sync.Mutex
	cond   *sync.Cond
	buf    []byte
	closed bool
}

func newVfC07Half() *vfC07Half {
	h := &vfC07Half{}
	h.cond = sync.NewCond(&h.mu)
	return h
}

func (h *vfC07Half) read(p []byte) (int, error) {
	h.mu.Lock()
	defer h.mu.Unlock()
	for len(h.buf) == 0 && !h.closed {
		h.cond.Wait()
	}
	if len(h.buf) == 0 {
		return 0, io.EOF
	}
	n := copy(p, h.buf)
	h.buf = h.buf[n:]
	return n, nil
}

func (h *vfC07Half) write(p []byte) (int, error) {
	h.mu.Lock()
	defer h.mu.Unlock()
	if h.closed {
		return 0, io.ErrClosedPipe
	}
	h.buf = append(h.buf, p...)
	h.cond.Broadcast()
	return len(p), nil
}

func (h *vfC07Half) close() {
	h.mu.Lock()
	h.closed = true
	h.cond.Broadcast()
	h.mu.Unlock()
}

type vfC07NetConn struct {
	r, w   *vfC07Half
	la, ra net.Addr
}

func (c *vfC07NetConn) Read(p []byte) (int, error)       { return c.r.read(p) }
func (c *vfC07NetConn) Write(p []byte) (int, error)      { return c.w.write(p) }
func (c *vfC07NetConn) Close() error                     { c.r.close(); c.w.close(); return nil }
func (c *vfC07NetConn) LocalAddr() net.Addr              { return c.la }
func (c *vfC07NetConn) RemoteAddr() net.Addr             { return c.ra }
func (c *vfC07NetConn) SetDeadline(time.Time) error      { return nil }
func (c *vfC07NetConn) SetReadDeadline(time.Time) error  { return nil }
func (c *vfC07NetConn) SetWriteDeadline(time.Time) error { return nil }

// vfC07Hub is the "wire": listeners by address.
type vfC07Hub struct {
	mu        sync.Mutex
	listeners map[string]*vfC07Listener
	keys      map[peer.ID]ic.PubKey
	nextPort  int
}

func newVfC07Hub() *vfC07Hub {
	return &vfC07Hub{listeners: map[string]*vfC07Listener{}, keys: map[peer.ID]ic.PubKey{}, nextPort: 40000}
}

type vfC07Transport struct {
	hub   *vfC07Hub
	self  peer.ID
	rcmgr network.ResourceManager
	ip    string
}

type vfC07Listener struct {
	t      *vfC07Transport
	addr   ma.Multiaddr
	ch     chan transport.CapableConn
	closed chan struct{}
	once   sync.Once
}

func (l *vfC07Listener) Accept() (transport.CapableConn, error) {
	select {
	case c := <-l.ch:
		return c, nil
	case <-l.closed:
		return nil, transport.ErrListenerClosed
	}
}
func (l *vfC07Listener) Close() error {
	l.once.Do(func() {
		close(l.closed)
		l.t.hub.mu.Lock()
		delete(l.t.hub.listeners, l.addr.String())
		l.t.hub.mu.Unlock()
	})
	return nil
}
func (l *vfC07Listener) Addr() net.Addr {
	a, _ := manet.ToNetAddr(l.addr)
	return a
}
func (l *vfC07Listener) Multiaddr() ma.Multiaddr { return l.addr }

func (t *vfC07Transport) CanDial(a ma.Multiaddr) bool {
	_, err := a.ValueForProtocol(ma.P_TCP)
	return err == nil
}
func (t *vfC07Transport) Protocols() []int { return []int{ma.P_TCP} }
func (t *vfC07Transport) Proxy() bool      { return false }
func (t *vfC07Transport) Listen(laddr ma.Multiaddr) (transport.Listener, error) {
	t.hub.mu.Lock()
	defer t.hub.mu.Unlock()
	if _, dup := t.hub.listeners[laddr.String()]; dup {
		return nil, errors.New("verif: address in use")
	}
	l := &vfC07Listener{t: t, addr: laddr, ch: make(chan transport.CapableConn, 16), closed: make(chan struct{})}
	t.hub.listeners[laddr.String()] = l
	return l, nil
}

func (t *vfC07Transport) Dial(ctx context.Context, raddr ma.Multiaddr, p peer.ID) (transport.CapableConn, error) {
	t.hub.mu.Lock()
	l := t.hub.listeners[raddr.String()]
	t.hub.nextPort++
	laddr := ma.StringCast(fmt.Sprintf("/ip4/%s/tcp/%d", t.ip, t.hub.nextPort))
	rkey, lkey := t.hub.keys[p], t.hub.keys[t.self]
	t.hub.mu.Unlock()
	if l == nil {
		return nil, errors.New("verif: connection refused")
	}
	if l.t.self != p {
		return nil, errors.New("verif: peer id mismatch")
	}
	dscope, err := t.rcmgr.OpenConnection(network.DirOutbound, false, raddr)
	if err != nil {
		return nil, err
	}
	if err := dscope.SetPeer(p); err != nil {
		dscope.Done()
		return nil, err
	}
	lscope, err := l.t.rcmgr.OpenConnection(network.DirInbound, false, laddr)
	if err != nil {
		dscope.Done()
		return nil, err
	}
	if err := lscope.SetPeer(t.self); err != nil {
		dscope.Done()
		lscope.Done()
		return nil, err
	}
	ab, ba := newVfC07Half(), newVfC07Half()
	lna, _ := manet.ToNetAddr(laddr)
	rna, _ := manet.ToNetAddr(raddr)
	dn := &vfC07NetConn{r: ba, w: ab, la: lna, ra: rna}
	ln := &vfC07NetConn{r: ab, w: ba, la: rna, ra: lna}
	dm, err := yamux.DefaultTransport.NewConn(dn, false, dscope.PeerScope())
	if err != nil {
		dscope.Done()
		lscope.Done()
		return nil, err
	}
	lm, err := yamux.DefaultTransport.NewConn(ln, true, lscope.PeerScope())
	if err != nil {
		dm.Close()
		dscope.Done()
		lscope.Done()
		return nil, err
	}
	dc := &vfC07Conn{MuxedConn: dm, lp: t.self, rp: p, rk: rkey, la: laddr, ra: raddr, scope: dscope, t: t}
	lc := &vfC07Conn{MuxedConn: lm, lp: p, rp: t.self, rk: lkey, la: raddr, ra: laddr, scope: lscope, t: l.t}
	select {
	case l.ch <- lc:
	case <-l.closed:
		dc.Close()
		lc.Close()
		return nil, errors.New("verif: connection refused")
	case <-ctx.Done():
		dc.Close()
		lc.Close()
		return nil, ctx.Err()
	}
	return dc, nil
}

type vfC07Conn struct {
	network.MuxedConn
	lp, rp peer.ID
	rk     ic.PubKey
	la, ra ma.Multiaddr
	scope  network.ConnManagementScope
	t      *vfC07Transport
	once   sync.Once
}

func (c *vfC07Conn) Close() error {
	err := c.MuxedConn.Close()
	c.once.Do(c.scope.Done)
	return err
}
func (c *vfC07Conn) CloseWithError(code network.ConnErrorCode) error {
	err := c.MuxedConn.CloseWithError(code)
	c.once.Do(c.scope.Done)
	return err
}
func (c *vfC07Conn) LocalPeer() peer.ID                 { return c.lp }
func (c *vfC07Conn) RemotePeer() peer.ID                { return c.rp }
func (c *vfC07Conn) RemotePublicKey() ic.PubKey         { return c.rk }
func (c *vfC07Conn) ConnState() network.ConnectionState { return network.ConnectionState{StreamMultiplexer: yamux.ID, Transport: "tcp"} }
func (c *vfC07Conn) LocalMultiaddr() ma.Multiaddr       { return c.la }
func (c *vfC07Conn) RemoteMultiaddr() ma.Multiaddr      { return c.ra }
func (c *vfC07Conn) Scope() network.ConnScope           { return c.scope }
func (c *vfC07Conn) Transport() transport.Transport     { return c.t }

var _ transport.CapableConn = (*vfC07Conn)(nil)
