//go:build verif

package basichost

// Conformance harness of the extension engine C17am (spec/C17am_AddrsManager.tla): what the host advertises.
//
// TestVerifC17amReplay executes covering walks of the TLC state graphs on a REAL addrsManager wired to the real
// event bus, a real in-memory peerstore (own addresses + signed peer record) and - in the autonat-v2 instances -
// the REAL addrsReachabilityTracker driven through a stub autonat client, inside a testing/synctest bubble
// (virtual time for the 5 s ticker, the tracker's probe delay and its hourly re-probe).  Everything the manager
// reads is a stub the harness controls: listen-address function, NAT manager, observed-address manager,
// AddrsFactory, the interface-address cache (filled in-package), and the two subscriptions, whose Out() is
// evaluated at the top of every iteration of the background loop: that is the gate at the select (answering a
// nil channel keeps the loop from taking that subscription).  In the Split instances every GetMapping / AddrsFor
// call and the factory call of an update park too, so the environment moves between two reads of one update.
// After every step Addrs(), DirectAddrs(), ConfirmedAddrs(), HolePunchAddrs(), the peerstore entry, the signed
// peer record, the events emitted and who is still blocked in Start / Close / a notification are compared with
// the model, and the clauses A1..A8 are checked by monitors computed from the harness's own ledger of stub
// answers (L1).

import (
	"context"
	"encoding/json"
	"fmt"
	"hash/fnv"
	"os"
	"path/filepath"
	"sort"
	"strings"
	"sync"
	"testing"
	"testing/synctest"
	"time"

	"github.com/libp2p/go-libp2p/core/crypto"
	"github.com/libp2p/go-libp2p/core/event"
	"github.com/libp2p/go-libp2p/core/network"
	"github.com/libp2p/go-libp2p/core/peer"
	"github.com/libp2p/go-libp2p/core/peerstore"
	"github.com/libp2p/go-libp2p/internal/vfh"
	"github.com/libp2p/go-libp2p/p2p/host/eventbus"
	"github.com/libp2p/go-libp2p/p2p/host/peerstore/pstoremem"
	"github.com/libp2p/go-libp2p/p2p/protocol/autonatv2"
	ma "github.com/multiformats/go-multiaddr"
	manet "github.com/multiformats/go-multiaddr/net"
)

// ---------------------------------------------------------------------------------------------
// the address universe: every model name is concretised over several families of multiaddrs

var vfC17amLOrder = []string{"Lpriv", "Lpub", "Lun", "Lun6", "Lcirc"}

const vfC17amRelayID = "12D3KooWGyVU3Z7iEFEKnLRWUZSCgZkruxXt9TafKigQv9TUx2N1"

type vfC17amFamily struct {
	addrs  map[string]string
	ifaces []string
}

// Attributes the model relies on (checked once against manet in vfC17amUniverse):
//   public: Lpub Ri2 Npub O1..O5 F1 Rel1     unspecified: Lun Lun6 Nun     bare circuit: Lcirc     no IP: Rel2 Lcirc
// Lun resolves to Ri1, Ri2 through the two interfaces; Lun6 has no interface of its family.  No two public
// addresses share ip + transport port (the tracker would couple them as primary / secondary).
var vfC17amFamilies = []vfC17amFamily{
	{ // ip4, tcp + quic
		addrs: map[string]string{
			"Lpriv": "/ip4/192.168.1.5/tcp/4001", "Lpub": "/ip4/8.8.4.4/tcp/4011", "Lun": "/ip4/0.0.0.0/udp/4021/quic-v1",
			"Lun6": "/ip6/::/tcp/4031", "Lcirc": "/p2p-circuit",
			"Ri1": "/ip4/10.0.0.7/udp/4021/quic-v1", "Ri2": "/ip4/7.7.7.7/udp/4021/quic-v1",
			"Npub": "/ip4/5.5.5.5/tcp/5001", "Npriv": "/ip4/100.64.0.9/tcp/5002", "Nun": "/ip4/0.0.0.0/tcp/5003",
			"O1": "/ip4/9.9.9.1/tcp/6001", "O2": "/ip4/9.9.9.2/tcp/6002", "O3": "/ip4/9.9.9.3/tcp/6003",
			"O4": "/ip4/9.9.9.4/tcp/6004", "O5": "/ip4/9.9.9.5/tcp/6005",
			"F1":   "/ip4/4.4.4.4/tcp/7001",
			"Rel1": "/ip4/3.3.3.3/tcp/8001/p2p/" + vfC17amRelayID + "/p2p-circuit", "Rel2": "/p2p/" + vfC17amRelayID + "/p2p-circuit",
		},
		ifaces: []string{"/ip4/10.0.0.7", "/ip4/7.7.7.7"},
	},
	{ // ip6 (ULA private / global public), quic + webtransport; the unresolvable unspecified one is ip4
		addrs: map[string]string{
			"Lpriv": "/ip6/fd00::5/udp/4001/quic-v1", "Lpub": "/ip6/2607:f8b0::1/udp/4011/quic-v1", "Lun": "/ip6/::/tcp/4021",
			"Lun6": "/ip4/0.0.0.0/tcp/4031", "Lcirc": "/p2p-circuit",
			"Ri1": "/ip6/fd00::7/tcp/4021", "Ri2": "/ip6/2a00:1450::7/tcp/4021",
			"Npub": "/ip6/2a01:4f8::5/udp/5001/quic-v1", "Npriv": "/ip6/fc00::9/udp/5002/quic-v1", "Nun": "/ip6/::/udp/5003/quic-v1",
			"O1": "/ip6/2a02:6b8::1/udp/6001/quic-v1", "O2": "/ip6/2a02:6b8::2/udp/6002/quic-v1/webtransport",
			"O3": "/ip6/2a02:6b8::3/tcp/6003", "O4": "/ip6/2a02:6b8::4/udp/6004/quic-v1", "O5": "/ip6/2a02:6b8::5/tcp/6005",
			"F1":   "/ip6/2a04:4e42::1/udp/7001/quic-v1/webtransport",
			"Rel1": "/ip6/2a03:2880::3/tcp/8001/p2p/" + vfC17amRelayID + "/p2p-circuit", "Rel2": "/p2p/" + vfC17amRelayID + "/p2p-circuit",
		},
		ifaces: []string{"/ip6/fd00::7", "/ip6/2a00:1450::7"},
	},
	{ // mixed transports on one IP where Multiaddr.Compare differs from the order of the names (sorted-merge traps)
		addrs: map[string]string{
			"Lpriv": "/ip4/172.16.0.2/udp/4001/webrtc-direct", "Lpub": "/ip4/1.2.3.4/udp/4011/quic-v1/webtransport",
			"Lun": "/ip4/0.0.0.0/tcp/4021/ws", "Lun6": "/ip6/::/udp/4031/quic-v1", "Lcirc": "/p2p-circuit",
			"Ri1": "/ip4/127.0.0.1/tcp/4021/ws", "Ri2": "/ip4/1.2.3.4/tcp/4021/ws",
			"Npub": "/ip4/1.2.3.4/udp/5001/webrtc-direct", "Npriv": "/ip4/10.255.255.254/udp/5002/webrtc-direct", "Nun": "/ip4/0.0.0.0/udp/5003/quic-v1",
			"O1": "/ip4/1.2.3.4/udp/6001/quic-v1", "O2": "/ip4/1.2.3.4/tcp/6002", "O3": "/ip4/1.2.3.4/udp/6003/webrtc-direct",
			"O4": "/ip4/1.2.3.4/tcp/6004/tls/sni/a.example.net/ws", "O5": "/ip4/1.2.3.4/udp/6005/quic-v1/webtransport",
			"F1":   "/dns4/example.com/tcp/443/wss",
			"Rel1": "/dns4/relay.example.com/tcp/443/wss/p2p/" + vfC17amRelayID + "/p2p-circuit", "Rel2": "/p2p/" + vfC17amRelayID + "/p2p-circuit",
		},
		ifaces: []string{"/ip4/127.0.0.1", "/ip4/1.2.3.4"},
	},
}

var (
	vfC17amPub    = map[string]bool{"Lpub": true, "Ri2": true, "Npub": true, "O1": true, "O2": true, "O3": true, "O4": true, "O5": true, "F1": true, "Rel1": true}
	vfC17amUnspec = map[string]bool{"Lun": true, "Lun6": true, "Nun": true}
	vfC17amNoIP   = map[string]bool{"Rel2": true, "Lcirc": true}
)

type vfC17amUni struct {
	conc   map[string]ma.Multiaddr
	rev    map[string]string
	ifaces []ma.Multiaddr

	mmu     sync.Mutex
	missing []string // /webtransport addresses met without certhash where the manager should have added one
}

// The harness's addCertHashes (the swarm's, in a real host): every address ending in /webtransport gets the
// certificate hash appended, in place.
var vfC17amCert = ma.StringCast("/certhash/uEiAkH5a4DPGKUuOBjYw0CgwjvcJCJMD2K_1aluKR_tpevQ")

func vfC17amLastCode(a ma.Multiaddr) int {
	if len(a) == 0 {
		return -1
	}
	return a[len(a)-1].Protocol().Code
}

func vfC17amAddCertHashes(addrs []ma.Multiaddr) []ma.Multiaddr {
	for i, a := range addrs {
		if vfC17amLastCode(a) == ma.P_WEBTRANSPORT {
			addrs[i] = a.Encapsulate(vfC17amCert)
		}
	}
	return addrs
}

func vfC17amUniverse(variant int) (*vfC17amUni, error) {
	f := vfC17amFamilies[variant%len(vfC17amFamilies)]
	u := &vfC17amUni{conc: map[string]ma.Multiaddr{}, rev: map[string]string{}}
	for n, s := range f.addrs {
		a, err := ma.NewMultiaddr(s)
		if err != nil {
			return nil, fmt.Errorf("%s: %v", s, err)
		}
		if o, dup := u.rev[string(a.Bytes())]; dup {
			return nil, fmt.Errorf("family %d: %s and %s are the same address", variant, o, n)
		}
		u.conc[n] = a
		u.rev[string(a.Bytes())] = n
		if n != "Lcirc" && manet.IsPublicAddr(a) != vfC17amPub[n] {
			return nil, fmt.Errorf("family %d: %s=%s public=%v, the model says %v", variant, n, s, manet.IsPublicAddr(a), vfC17amPub[n])
		}
		if manet.IsIPUnspecified(a) != vfC17amUnspec[n] {
			return nil, fmt.Errorf("family %d: %s=%s unspecified=%v", variant, n, s, manet.IsIPUnspecified(a))
		}
		if hasIPOrDNSComponent(a) == vfC17amNoIP[n] {
			return nil, fmt.Errorf("family %d: %s=%s has an IP/DNS component: %v", variant, n, s, hasIPOrDNSComponent(a))
		}
	}
	for _, s := range f.ifaces {
		a, err := ma.NewMultiaddr(s)
		if err != nil {
			return nil, err
		}
		u.ifaces = append(u.ifaces, a)
	}
	// the resolution the model assumes
	got, err := manet.ResolveUnspecifiedAddresses([]ma.Multiaddr{u.conc["Lun"]}, u.ifaces)
	if err != nil || len(got) != 2 || !got[0].Equal(u.conc["Ri1"]) || !got[1].Equal(u.conc["Ri2"]) {
		return nil, fmt.Errorf("family %d: Lun resolves to %v (%v)", variant, got, err)
	}
	if got, err := manet.ResolveUnspecifiedAddresses([]ma.Multiaddr{u.conc["Lun6"]}, u.ifaces); err == nil {
		return nil, fmt.Errorf("family %d: Lun6 resolves to %v", variant, got)
	}
	return u, nil
}

func (u *vfC17amUni) name(a ma.Multiaddr) string { return u.nameC(a, false) }

// nameC: the model's name of a; needCert: a comes out of the manager, where /webtransport addresses carry a certhash
func (u *vfC17amUni) nameC(a ma.Multiaddr, needCert bool) string {
	if len(a) == 0 {
		return "?nil"
	}
	if vfC17amLastCode(a) == ma.P_CERTHASH {
		a = a[:len(a)-1]
	} else if needCert && vfC17amLastCode(a) == ma.P_WEBTRANSPORT {
		u.mmu.Lock()
		u.missing = append(u.missing, a.String())
		u.mmu.Unlock()
	}
	if n, ok := u.rev[string(a.Bytes())]; ok {
		return n
	}
	return "?" + a.String()
}

func (u *vfC17amUni) takeMissing() []string {
	u.mmu.Lock()
	defer u.mmu.Unlock()
	m := u.missing
	u.missing = nil
	return m
}

// names renders a list that comes out of the manager as a sorted list of names; dup says whether an address occurs twice
func (u *vfC17amUni) names(l []ma.Multiaddr) (out []string, dup bool) { return u.namesC(l, true) }

func (u *vfC17amUni) namesC(l []ma.Multiaddr, needCert bool) (out []string, dup bool) {
	out = make([]string, 0, len(l))
	seen := map[string]bool{}
	for _, a := range l {
		n := u.nameC(a, needCert)
		if seen[n] {
			dup = true
			continue
		}
		seen[n] = true
		out = append(out, n)
	}
	sort.Strings(out)
	return
}

func (u *vfC17amUni) addrs(names []string) []ma.Multiaddr {
	out := make([]ma.Multiaddr, 0, len(names))
	for _, n := range names {
		out = append(out, u.conc[n])
	}
	return out
}

// ---------------------------------------------------------------------------------------------
// the harness around one manager

type vfC17amCfg struct {
	Name     string
	Listen   []string // InitListen
	Tracker  bool
	HasNAT   bool
	HasObs   bool
	PubOnly  bool
	Split    bool
	NatKeys  []string
	ObsKeys  []string
	Variants int
}

type vfC17amDecision struct{ relay, reach bool }

type vfC17amRead struct {
	Kind string   `json:"kind"`
	Key  string   `json:"key"`
	Ans  []string `json:"ans"`
}

// one run of updateAddrs as seen through the stubs
type vfC17amUpdate struct {
	ls         []string
	reads      []vfC17amRead
	factoryIn  []string
	factoryOut []string
	factoryHit bool
	afterClose bool
}

type vfC17amEvent struct {
	Kind    string   `json:"kind"` // "addrs" | "reach"
	Current []string `json:"current,omitempty"`
	Added   []string `json:"added,omitempty"`
	Maint   []string `json:"maintained,omitempty"`
	Removed []string `json:"removed,omitempty"`
	R       []string `json:"r,omitempty"`
	U       []string `json:"u,omitempty"`
	K       []string `json:"k,omitempty"`
	RecAddr []string `json:"record,omitempty"`
	RecSeq  uint64   `json:"seq,omitempty"`
	HasRec  bool     `json:"hasrec,omitempty"`
	Dup     bool     `json:"dup,omitempty"`
	Diffs   bool     `json:"diffs,omitempty"`
}

type vfC17amH struct {
	mu  sync.Mutex
	cfg vfC17amCfg
	u   *vfC17amUni

	// inputs
	listen map[string]bool
	nat    map[string]string
	obs    map[string][]string
	fmode  string
	truth  map[string]string
	constF []ma.Multiaddr

	// real objects
	bus     event.Bus
	am      *addrsManager
	ps      peerstore.Peerstore
	cab     peerstore.CertifiedAddrBook
	pid     peer.ID
	evSub   event.Subscription
	relayEm event.Emitter
	reachEm event.Emitter
	subs    map[string]*vfC17amSub

	// gating
	free    bool
	pos     string // "off" | "init" | "idle" | "read" | "commit" | "running" | "exited"
	posKind string
	posKey  string
	gate    chan vfC17amDecision
	dec     vfC17amDecision
	inQuery bool

	// ledger
	upd        *vfC17amUpdate   // update in progress
	done       []*vfC17amUpdate // completed and not yet digested by the monitors
	natClosed  int
	probes     []string
	privProbes []string
	strayProbes []string
	lastDirect map[string]bool // DirectAddrs() at the last look (the tracker is told at every change)
	heldTrig   bool
	relaySent  [][]string // accepted by the manager's subscription, in order
	reachSent  []string
	relayTaken int
	reachTaken int

	startCalled, startDone bool
	startErr               error
	closeCalled, closeDone bool
	notifyStarted          int
	notifyDone             int
	lastAdv                []string // Current of the last EvtLocalAddressesUpdated
	lastSeq                uint64
	readsAfterClose        int
	closedOK               bool
	held                   []vfC17amHeld
}

var (
	vfC17amKeyOnce sync.Once
	vfC17amKey     crypto.PrivKey
	vfC17amPid     peer.ID
)

func vfC17amIdentity() (crypto.PrivKey, peer.ID) {
	vfC17amKeyOnce.Do(func() {
		seed := make([]byte, 64)
		for j := range seed {
			seed[j] = byte(31*j + 7)
		}
		priv, _, err := crypto.GenerateEd25519Key(strings.NewReader(string(seed)))
		if err != nil {
			panic(err)
		}
		vfC17amKey = priv
		vfC17amPid, err = peer.IDFromPrivateKey(priv)
		if err != nil {
			panic(err)
		}
	})
	return vfC17amKey, vfC17amPid
}

// vfC17amNew builds the manager (not started). Must be called inside the bubble.
func vfC17amNew(cfg vfC17amCfg, variant int, free bool) (*vfC17amH, error) {
	u, err := vfC17amUniverse(variant)
	if err != nil {
		return nil, err
	}
	h := &vfC17amH{cfg: cfg, u: u, listen: map[string]bool{}, nat: map[string]string{}, obs: map[string][]string{}, fmode: "id",
		truth: map[string]string{}, subs: map[string]*vfC17amSub{}, pos: "off", gate: make(chan vfC17amDecision), free: free,
		dec: vfC17amDecision{relay: true, reach: true}}
	h.constF = []ma.Multiaddr{u.conc["F1"]}
	for _, l := range cfg.Listen {
		h.listen[l] = true
	}
	ps, err := pstoremem.NewPeerstore()
	if err != nil {
		return nil, err
	}
	h.ps = ps
	h.cab, _ = peerstore.GetCertifiedAddrBook(ps)
	key, pid := vfC17amIdentity()
	h.pid = pid
	h.bus = eventbus.NewBus()
	h.evSub, err = h.bus.Subscribe([]any{new(event.EvtLocalAddressesUpdated), new(event.EvtHostReachableAddrsChanged)}, eventbus.BufSize(4096))
	if err != nil {
		return nil, err
	}
	if h.relayEm, err = h.bus.Emitter(new(event.EvtAutoRelayAddrsUpdated), eventbus.Stateful); err != nil {
		return nil, err
	}
	if h.reachEm, err = h.bus.Emitter(new(event.EvtLocalReachabilityChanged), eventbus.Stateful); err != nil {
		return nil, err
	}
	var natm NATManager
	if cfg.HasNAT {
		natm = &vfC17amNat{h: h}
	}
	var obsm ObservedAddrsManager
	if cfg.HasObs {
		obsm = &vfC17amObs{h: h}
	}
	var client autonatv2Client
	if cfg.Tracker {
		client = &vfC17amClient{h: h}
	}
	am, err := newAddrsManager(&vfC17amBus{Bus: h.bus, h: h}, natm, h.factory, h.listenAddrs,
		vfC17amAddCertHashes, obsm, client, false, nil, false, cfg.PubOnly, key, ps, pid)
	if err != nil {
		return nil, err
	}
	// the interface addresses: fill the cache and keep it from expiring
	am.interfaceAddrs.all = append([]ma.Multiaddr(nil), u.ifaces...)
	am.interfaceAddrs.lastUpdated = time.Now().Add(1000000 * time.Hour)
	h.am = am
	return h, nil
}

// ---- stubs

func (h *vfC17amH) park(pos, kind, key string) vfC17amDecision {
	h.mu.Lock()
	if h.free {
		h.pos = "running"
		h.mu.Unlock()
		return vfC17amDecision{relay: true, reach: true}
	}
	h.pos, h.posKind, h.posKey = pos, kind, key
	h.mu.Unlock()
	d := <-h.gate
	h.mu.Lock()
	h.pos, h.posKind, h.posKey = "running", "", ""
	h.mu.Unlock()
	return d
}

func (h *vfC17amH) where() (string, string, string) {
	h.mu.Lock()
	defer h.mu.Unlock()
	return h.pos, h.posKind, h.posKey
}

func (h *vfC17amH) parked() bool {
	p, _, _ := h.where()
	return p == "init" || p == "idle" || p == "read" || p == "commit"
}

func (h *vfC17amH) grant(d vfC17amDecision) bool {
	if !h.parked() {
		return false
	}
	h.gate <- d
	synctest.Wait()
	return true
}

func (h *vfC17amH) listenAddrs() []ma.Multiaddr {
	h.mu.Lock()
	defer h.mu.Unlock()
	up := &vfC17amUpdate{afterClose: h.closedOK}
	var out []ma.Multiaddr
	for _, l := range vfC17amLOrder {
		if h.listen[l] {
			up.ls = append(up.ls, l)
			out = append(out, h.u.conc[l])
		}
	}
	if h.closedOK {
		h.readsAfterClose++
	}
	h.upd = up
	return out
}

func (h *vfC17amH) noteRead(kind, key string, ans []string) {
	if h.upd == nil {
		h.upd = &vfC17amUpdate{}
	}
	h.upd.reads = append(h.upd.reads, vfC17amRead{Kind: kind, Key: key, Ans: append([]string(nil), ans...)})
	if h.closedOK {
		h.readsAfterClose++
	}
}

type vfC17amNat struct{ h *vfC17amH }

func (n *vfC17amNat) GetMapping(a ma.Multiaddr) ma.Multiaddr {
	h := n.h
	key := h.u.name(a)
	if h.cfg.Split {
		h.park("read", "nat", key)
	}
	h.mu.Lock()
	defer h.mu.Unlock()
	v := h.nat[key]
	if v == "" || v == "-" {
		h.noteRead("nat", key, nil)
		return nil
	}
	h.noteRead("nat", key, []string{v})
	return h.u.conc[v]
}
func (n *vfC17amNat) HasDiscoveredNAT() bool { return true }
func (n *vfC17amNat) Close() error {
	n.h.mu.Lock()
	n.h.natClosed++
	n.h.mu.Unlock()
	return nil
}

type vfC17amObs struct{ h *vfC17amH }

func (o *vfC17amObs) AddrsFor(a ma.Multiaddr) []ma.Multiaddr {
	h := o.h
	key := h.u.name(a)
	if h.cfg.Split {
		h.park("read", "obs", key)
	}
	h.mu.Lock()
	defer h.mu.Unlock()
	seq := h.obs[key]
	h.noteRead("obs", key, seq)
	return h.u.addrs(seq) // a fresh slice
}

// Addrs(minObservers): everything any AddrsFor answer holds (used by HolePunchAddrs only)
func (o *vfC17amObs) Addrs(int) []ma.Multiaddr {
	h := o.h
	h.mu.Lock()
	defer h.mu.Unlock()
	var out []ma.Multiaddr
	keys := make([]string, 0, len(h.obs))
	for k := range h.obs {
		keys = append(keys, k)
	}
	sort.Strings(keys)
	for _, k := range keys {
		out = append(out, h.u.addrs(h.obs[k])...)
	}
	return out
}

// factory is the user's AddrsFactory. Called by the loop (the end of an update: a gate in Split instances) and,
// flagged by inQuery, by the harness's own Addrs() / HolePunchAddrs() queries.
func (h *vfC17amH) factory(in []ma.Multiaddr) []ma.Multiaddr {
	h.mu.Lock()
	query := h.inQuery
	var up *vfC17amUpdate
	if !query {
		if h.upd == nil {
			h.upd = &vfC17amUpdate{}
		}
		up = h.upd
		up.factoryIn, _ = h.u.names(in)
		up.factoryHit = true
		if len(up.factoryIn) != len(in) {
			up.factoryIn = append(up.factoryIn, "?duplicate")
		}
	}
	h.mu.Unlock()
	if !query && h.cfg.Split {
		h.park("commit", "", "")
	}
	h.mu.Lock()
	defer h.mu.Unlock()
	var out []ma.Multiaddr
	switch h.fmode {
	case "id":
		out = in
	case "dup":
		out = make([]ma.Multiaddr, 0, 2*len(in))
		out = append(out, in...)
		for i := len(in) - 1; i >= 0; i-- {
			out = append(out, in[i])
		}
	case "droppub": // filters in place, as user code typically does
		out = in[:0]
		for _, a := range in {
			if !manet.IsPublicAddr(a) {
				out = append(out, a)
			}
		}
	case "add":
		out = append(in, h.u.conc["F1"])
	case "const": // its own slice, always the same
		out = h.constF
	case "none":
		out = nil
	default:
		panic("vf: unknown factory mode " + h.fmode)
	}
	if up != nil {
		up.factoryOut, _ = h.u.namesC(out, false)
		h.done = append(h.done, up)
		h.upd = nil
	}
	return out
}

type vfC17amClient struct{ h *vfC17amH }

func (c *vfC17amClient) GetReachability(_ context.Context, reqs []autonatv2.Request) (autonatv2.Result, error) {
	h := c.h
	h.mu.Lock()
	defer h.mu.Unlock()
	n := h.u.name(reqs[0].Addr)
	h.probes = append(h.probes, n)
	for _, rq := range reqs {
		x := h.u.name(rq.Addr)
		if !vfC17amPub[x] {
			h.privProbes = append(h.privProbes, x)
		}
		if h.lastDirect != nil && !h.lastDirect[x] {
			h.strayProbes = append(h.strayProbes, x)
		}
	}
	rch := network.ReachabilityPublic
	if h.truth[n] == "priv" {
		rch = network.ReachabilityPrivate
	}
	return autonatv2.Result{Addr: reqs[0].Addr, Idx: 0, Reachability: rch}, nil
}

type vfC17amSub struct {
	event.Subscription
	h      *vfC17amH
	kind   string
	n      int
	closed bool
}

func (s *vfC17amSub) Out() <-chan any {
	s.n++
	if s.kind == "relay" {
		if s.n == 1 { // the non-blocking read before the loop
			s.h.park("init", "", "")
			return s.Subscription.Out()
		}
		d := s.h.park("idle", "", "")
		s.h.mu.Lock()
		s.h.dec = d
		s.h.mu.Unlock()
		if !d.relay {
			return nil
		}
		return s.Subscription.Out()
	}
	if s.n == 1 {
		return s.Subscription.Out()
	}
	s.h.mu.Lock()
	d := s.h.dec
	s.h.mu.Unlock()
	if !d.reach {
		return nil
	}
	return s.Subscription.Out()
}

func (s *vfC17amSub) Close() error {
	s.h.mu.Lock()
	s.closed = true
	if s.kind == "relay" {
		s.h.pos = "exited"
	}
	s.h.mu.Unlock()
	return s.Subscription.Close()
}

type vfC17amBus struct {
	event.Bus
	h *vfC17amH
}

func (b *vfC17amBus) Subscribe(typ any, opts ...event.SubscriptionOpt) (event.Subscription, error) {
	s, err := b.Bus.Subscribe(typ, opts...)
	if err != nil {
		return nil, err
	}
	kind := ""
	switch typ.(type) {
	case *event.EvtAutoRelayAddrsUpdated:
		kind = "relay"
	case *event.EvtLocalReachabilityChanged:
		kind = "reach"
	default:
		return s, nil
	}
	w := &vfC17amSub{Subscription: s, h: b.h, kind: kind}
	b.h.mu.Lock()
	b.h.subs[kind] = w
	b.h.mu.Unlock()
	return w, nil
}

// ---- environment operations

func (h *vfC17amH) subscribed(kind string) bool {
	h.mu.Lock()
	defer h.mu.Unlock()
	s := h.subs[kind]
	return s != nil && !s.closed
}

func (h *vfC17amH) qlen(kind string) int {
	h.mu.Lock()
	defer h.mu.Unlock()
	s := h.subs[kind]
	if s == nil || s.closed {
		return 0
	}
	return len(s.Subscription.Out())
}

func (h *vfC17amH) emitRelay(names []string) error {
	return h.relayEm.Emit(event.EvtAutoRelayAddrsUpdated{RelayAddrs: h.u.addrs(names)})
}

func vfC17amReach(v string) network.Reachability {
	switch v {
	case "public":
		return network.ReachabilityPublic
	case "private":
		return network.ReachabilityPrivate
	}
	return network.ReachabilityUnknown
}

func vfC17amReachName(r network.Reachability) string {
	switch r {
	case network.ReachabilityPublic:
		return "public"
	case network.ReachabilityPrivate:
		return "private"
	}
	return "unknown"
}

func (h *vfC17amH) startCall() {
	h.startCalled = true
	go func() {
		err := h.am.Start()
		h.mu.Lock()
		h.startDone, h.startErr = true, err
		h.mu.Unlock()
	}()
	synctest.Wait()
}

func (h *vfC17amH) notifyCall() {
	h.notifyStarted++
	k := h.notifyStarted
	go func() {
		switch k % 3 { // the three ways the host reaches updateAddrsSync
		case 0:
			h.am.updateAddrsSync()
		case 1:
			h.am.NetNotifee().Listen(nil, nil)
		default:
			h.am.NetNotifee().ListenClose(nil, nil)
		}
		h.mu.Lock()
		h.notifyDone++
		h.mu.Unlock()
	}()
	synctest.Wait()
}

func (h *vfC17amH) closeCall() {
	h.closeCalled = true
	go func() {
		h.am.Close()
		h.mu.Lock()
		h.closeDone = true
		h.mu.Unlock()
	}()
	synctest.Wait()
}

func (h *vfC17amH) flags() (startWait, closeWait bool, notifyWait int) {
	h.mu.Lock()
	defer h.mu.Unlock()
	return h.startCalled && !h.startDone, h.closeCalled && !h.closeDone, h.notifyStarted - h.notifyDone
}

// holdTrig takes the tracker's signal out of the manager's channel (the loop is parked): the harness decides when
// the loop sees it.
func (h *vfC17amH) holdTrig() {
	if h.free {
		return
	}
	select {
	case <-h.am.triggerReachabilityUpdate:
		h.heldTrig = true
	default:
	}
}

// vfC17amHeld is a list a public call handed out, kept to see that the manager never writes to it afterwards
type vfC17amHeld struct {
	what string
	l    []ma.Multiaddr
	snap string
}

func vfC17amSnap(l []ma.Multiaddr) string {
	var b strings.Builder
	for _, a := range l {
		if a == nil {
			b.WriteString("<nil>;")
		} else {
			b.WriteString(a.String() + ";")
		}
	}
	return b.String()
}

// modified reports the lists handed out by the previous query that have changed since
func (h *vfC17amH) modified() (out []string) {
	for _, x := range h.held {
		if now := vfC17amSnap(x.l); now != x.snap {
			out = append(out, fmt.Sprintf("%s: was [%s], now [%s]", x.what, x.snap, now))
		}
	}
	return
}

func (h *vfC17amH) query() (addrs, direct, r, u, k, hp []string, dup string) {
	h.mu.Lock()
	h.inQuery = true
	h.mu.Unlock()
	a := h.am.Addrs()
	p := h.am.HolePunchAddrs()
	h.mu.Lock()
	h.inQuery = false
	h.mu.Unlock()
	var d bool
	if addrs, d = h.u.names(a); d {
		dup += " Addrs"
	}
	da := h.am.DirectAddrs()
	if direct, d = h.u.names(da); d {
		dup += " DirectAddrs"
	}
	cr, cu, ck := h.am.ConfirmedAddrs()
	h.held = h.held[:0]
	for _, x := range []vfC17amHeld{{what: "Addrs()", l: a}, {what: "DirectAddrs()", l: da}, {what: "ConfirmedAddrs() reachable", l: cr},
		{what: "ConfirmedAddrs() unreachable", l: cu}, {what: "ConfirmedAddrs() unknown", l: ck}, {what: "HolePunchAddrs()", l: p}} {
		x.snap = vfC17amSnap(x.l)
		h.held = append(h.held, x)
	}
	if r, d = h.u.names(cr); d {
		dup += " ConfirmedAddrs.reachable"
	}
	if u, d = h.u.names(cu); d {
		dup += " ConfirmedAddrs.unreachable"
	}
	if k, d = h.u.names(ck); d {
		dup += " ConfirmedAddrs.unknown"
	}
	hp, _ = h.u.namesC(p, false) // observedAddrsManager.Addrs(1) is appended as it is: no certhash, possibly both forms
	h.mu.Lock()
	h.lastDirect = vfC17amSet(direct)
	h.mu.Unlock()
	return
}

func (h *vfC17amH) record() (addrs []string, seq uint64, ok bool) {
	env := h.cab.GetPeerRecord(h.pid)
	if env == nil {
		return nil, 0, false
	}
	rec, err := env.Record()
	if err != nil {
		return []string{"?" + err.Error()}, 0, true
	}
	pr, isPR := rec.(*peer.PeerRecord)
	if !isPR || pr.PeerID != h.pid {
		return []string{"?not the host's peer record"}, 0, true
	}
	addrs, _ = h.u.names(pr.Addrs)
	return addrs, pr.Seq, true
}

func (h *vfC17amH) events() []vfC17amEvent {
	var out []vfC17amEvent
	for {
		select {
		case e, ok := <-h.evSub.Out():
			if !ok {
				return out
			}
			switch ev := e.(type) {
			case event.EvtLocalAddressesUpdated:
				x := vfC17amEvent{Kind: "addrs", Diffs: ev.Diffs}
				var cur, add, mt, rm []ma.Multiaddr
				for _, ua := range ev.Current {
					cur = append(cur, ua.Address)
					switch ua.Action {
					case event.Added:
						add = append(add, ua.Address)
					case event.Maintained:
						mt = append(mt, ua.Address)
					default:
						x.Dup = true // an action that does not belong in Current
					}
				}
				for _, ua := range ev.Removed {
					rm = append(rm, ua.Address)
					if ua.Action != event.Removed {
						x.Dup = true
					}
				}
				var d bool
				if x.Current, d = h.u.names(cur); d {
					x.Dup = true
				}
				x.Added, _ = h.u.names(add)
				x.Maint, _ = h.u.names(mt)
				if x.Removed, d = h.u.names(rm); d {
					x.Dup = true
				}
				if ev.SignedPeerRecord != nil {
					x.HasRec = true
					if rec, err := ev.SignedPeerRecord.Record(); err == nil {
						if pr, ok := rec.(*peer.PeerRecord); ok && pr.PeerID == h.pid {
							x.RecAddr, _ = h.u.names(pr.Addrs)
							x.RecSeq = pr.Seq
						} else {
							x.RecAddr = []string{"?not the host's peer record"}
						}
					} else {
						x.RecAddr = []string{"?" + err.Error()}
					}
				}
				out = append(out, x)
			case event.EvtHostReachableAddrsChanged:
				x := vfC17amEvent{Kind: "reach"}
				var d1, d2, d3 bool
				x.R, d1 = h.u.names(ev.Reachable)
				x.U, d2 = h.u.names(ev.Unreachable)
				x.K, d3 = h.u.names(ev.Unknown)
				x.Dup = d1 || d2 || d3
				out = append(out, x)
			}
		default:
			return out
		}
	}
}

// finish ends a walk whatever state it is in
func (h *vfC17amH) finish(rep func(cls, what string)) {
	h.mu.Lock()
	h.free = true
	h.mu.Unlock()
	if h.parked() {
		h.gate <- vfC17amDecision{relay: true, reach: true}
	}
	synctest.Wait()
	if !h.closeCalled {
		h.closeCall()
	}
	for i := 0; i < 3 && h.parked(); i++ { // a park entered before `free` was seen
		h.gate <- vfC17amDecision{relay: true, reach: true}
		synctest.Wait()
	}
	sw, cw, nw := h.flags()
	if cw {
		rep("am-close-does-not-return", "Close still blocked after the loop was left alone")
	}
	if sw {
		rep("am-start-does-not-return", "Start still blocked after Close")
	}
	if nw > 0 {
		rep("am-notify-does-not-return", fmt.Sprintf("%d notification call(s) still blocked after Close", nw))
	}
	if cw || sw || nw > 0 {
		for _, s := range h.subs { // last resort, so that the bubble can end
			s.Subscription.Close()
		}
	}
	if tr := h.am.addrsReachabilityTracker; tr != nil && tr.ctx.Err() == nil {
		rep("am-tracker-not-closed", "Close returned and the reachability tracker is still running")
		tr.Close() // so that the bubble can end
	}
	h.evSub.Close()
	h.relayEm.Close()
	h.reachEm.Close()
	h.ps.Close()
	synctest.Wait()
}

// ---------------------------------------------------------------------------------------------
// reference functions over names (for the monitors)

func vfC17amSet(l []string) map[string]bool {
	m := map[string]bool{}
	for _, x := range l {
		m[x] = true
	}
	return m
}

func vfC17amSorted(m map[string]bool) []string {
	out := make([]string, 0, len(m))
	for k, v := range m {
		if v {
			out = append(out, k)
		}
	}
	sort.Strings(out)
	return out
}

func vfC17amEq(a, b []string) bool {
	if len(a) != len(b) {
		return false
	}
	for i := range a {
		if a[i] != b[i] {
			return false
		}
	}
	return true
}

func vfC17amMinus(a, b []string) []string {
	bs := vfC17amSet(b)
	out := []string{}
	for _, x := range a {
		if !bs[x] {
			out = append(out, x)
		}
	}
	return out
}

func vfC17amResolve(l string) []string {
	switch l {
	case "Lun":
		return []string{"Ri1", "Ri2"}
	case "Lun6":
		return nil
	}
	return []string{l}
}

func vfC17amFactRef(mode string, in []string) []string {
	m := map[string]bool{}
	switch mode {
	case "id", "dup":
		m = vfC17amSet(in)
	case "droppub":
		for _, a := range in {
			if !vfC17amPub[a] {
				m[a] = true
			}
		}
	case "add":
		m = vfC17amSet(in)
		m["F1"] = true
	case "const":
		m["F1"] = true
	}
	return vfC17amSorted(m)
}

func (h *vfC17amH) published(l []string) []string {
	if !h.cfg.PubOnly {
		return append([]string{}, l...)
	}
	out := []string{}
	for _, a := range l {
		if vfC17amPub[a] || vfC17amNoIP[a] {
			out = append(out, a)
		}
	}
	return out
}

// ---------------------------------------------------------------------------------------------
// monitors (L1): from the ledger only

// checkUpdate is called for every completed run of updateAddrs, with what the public calls answer right after it.
func (h *vfC17amH) checkUpdate(up *vfC17amUpdate, direct, r, u []string, relay []string, reach string, rep func(cls, what string)) {
	if up.afterClose {
		rep("am-active-after-close", "updateAddrs ran after Close had returned")
	}
	// A1..A3: DirectAddrs against the answers of this update
	want := map[string]bool{}
	just := map[string]string{}
	lsSet := vfC17amSet(up.ls)
	okKey := map[string]bool{}
	if len(up.ls) > 0 {
		for _, l := range up.ls {
			okKey[l] = true
			for _, x := range vfC17amResolve(l) {
				okKey[x] = true
				want[x] = true
				just[x] = "listen"
			}
		}
		for _, rd := range up.reads {
			if !okKey[rd.Key] {
				rep("am-asked-about-foreign-address", fmt.Sprintf("%s asked about %s, which is neither a listen address of this update (%v) nor its resolution", rd.Kind, rd.Key, up.ls))
				continue
			}
			for i, a := range rd.Ans {
				if rd.Kind == "obs" && i >= 3 {
					break
				}
				want[a] = true
				just[a] = rd.Kind + ":" + rd.Key
			}
		}
	}
	for a := range want {
		if vfC17amUnspec[a] || a == "Lcirc" {
			delete(want, a)
		}
	}
	got := vfC17amSet(direct)
	for _, a := range direct {
		if want[a] {
			continue
		}
		switch {
		case vfC17amUnspec[a]:
			rep("am-unspecified-address-advertised", fmt.Sprintf("DirectAddrs holds the unspecified address %s", a))
		case a == "Lcirc":
			rep("am-bare-circuit-address-advertised", "DirectAddrs holds the bare /p2p-circuit")
		default:
			beyond, stale := false, false
			for _, rd := range up.reads {
				for i, x := range rd.Ans {
					if x == a && rd.Kind == "obs" && i >= 3 {
						beyond = true
					}
				}
			}
			for _, l := range vfC17amLOrder {
				if !lsSet[l] {
					for _, x := range vfC17amResolve(l) {
						stale = stale || x == a
					}
				}
			}
			switch {
			case beyond:
				rep("am-observed-cap-exceeded", fmt.Sprintf("DirectAddrs holds %s, beyond the first three of an AddrsFor answer (reads %v)", a, up.reads))
			case stale:
				rep("am-closed-listen-address-advertised", fmt.Sprintf("DirectAddrs holds %s although the network reported only %v", a, up.ls))
			default:
				rep("am-unreported-address-advertised", fmt.Sprintf("DirectAddrs holds %s, which no stub answered in this update (listen %v, reads %v)", a, up.ls, up.reads))
			}
		}
	}
	for a := range want {
		if !got[a] {
			rep("am-address-dropped:"+strings.SplitN(just[a], ":", 2)[0], fmt.Sprintf("%s (%s) was answered in this update but is not in DirectAddrs %v", a, just[a], direct))
		}
	}
	// A4 / A5: what the factory was given
	if !up.factoryHit {
		rep("am-factory-not-consulted", "an update stored its result without calling the AddrsFactory")
		return
	}
	dial := map[string]bool{}
	if h.cfg.Tracker {
		us := vfC17amSet(u)
		for _, a := range direct {
			if !us[a] {
				dial[a] = true
			}
		}
		if len(r) == 0 {
			for _, a := range relay {
				dial[a] = true
			}
		}
	} else if len(relay) > 0 && reach == "private" {
		for _, a := range direct {
			if !vfC17amPub[a] {
				dial[a] = true
			}
		}
		for _, a := range relay {
			dial[a] = true
		}
	} else {
		dial = vfC17amSet(direct)
	}
	wantIn := vfC17amSorted(dial)
	if !vfC17amEq(wantIn, up.factoryIn) {
		cls := "am-factory-input-differs"
		rs := vfC17amSet(relay)
		fin := vfC17amSet(up.factoryIn)
		for _, a := range relay {
			if dial[a] != fin[a] {
				cls = "am-relay-rule"
			}
		}
		for _, a := range up.factoryIn {
			if !dial[a] && !rs[a] && vfC17amSet(u)[a] {
				cls = "am-unreachable-address-advertised"
			} else if !dial[a] && !rs[a] && vfC17amPub[a] && !h.cfg.Tracker {
				cls = "am-public-address-kept-when-private"
			}
		}
		rep(cls, fmt.Sprintf("the AddrsFactory was given %v; direct %v, unreachable %v, reachable %v, relay %v, reachability %s call for %v",
			up.factoryIn, direct, u, r, relay, reach, wantIn))
	}
}

// checkEvents: A6 from the events alone plus the factory answers of the updates of this step
func (h *vfC17amH) checkEvents(evs []vfC17amEvent, ups []*vfC17amUpdate, rep func(cls, what string)) {
	ai := 0
	var addrEvs []vfC17amEvent
	for _, e := range evs {
		if e.Kind == "addrs" {
			addrEvs = append(addrEvs, e)
		}
		if h.closedOK {
			rep("am-event-after-close", fmt.Sprintf("event %+v after Close had returned", e))
		}
	}
	for _, up := range ups {
		if !up.factoryHit {
			continue
		}
		if vfC17amEq(up.factoryOut, h.lastAdv) {
			continue // unchanged: no event may belong to this update
		}
		if ai >= len(addrEvs) {
			rep("am-event-missing", fmt.Sprintf("the advertised list changed from %v to %v and no EvtLocalAddressesUpdated followed", h.lastAdv, up.factoryOut))
			h.lastAdv = up.factoryOut
			continue
		}
		e := addrEvs[ai]
		ai++
		if e.Dup || !e.Diffs {
			rep("am-event-malformed", fmt.Sprintf("EvtLocalAddressesUpdated with duplicates, wrong actions or Diffs=false: %+v", e))
		}
		if !vfC17amEq(e.Current, up.factoryOut) {
			rep("am-event-current-differs", fmt.Sprintf("event Current %v, the factory answered %v", e.Current, up.factoryOut))
		}
		if want := vfC17amMinus(h.lastAdv, e.Current); !vfC17amEq(want, e.Removed) {
			rep("am-event-removed-differs", fmt.Sprintf("event Removed %v, previous list %v minus Current %v is %v", e.Removed, h.lastAdv, e.Current, want))
		}
		if want := vfC17amMinus(e.Current, h.lastAdv); !vfC17amEq(want, e.Added) {
			rep("am-event-added-differs", fmt.Sprintf("event marks %v as Added, Current %v minus previous list %v is %v", e.Added, e.Current, h.lastAdv, want))
		}
		if want := vfC17amMinus(e.Current, e.Added); !vfC17amEq(want, e.Maint) {
			rep("am-event-added-differs", fmt.Sprintf("event marks %v as Maintained, expected %v", e.Maint, want))
		}
		if !e.HasRec {
			// the peerstore keeps no record for a peer without addresses
			if len(h.published(e.Current)) > 0 {
				rep("am-event-without-record", "EvtLocalAddressesUpdated without signed peer record")
			}
		} else {
			if want := h.published(e.Current); !vfC17amEq(want, e.RecAddr) {
				rep("am-record-differs", fmt.Sprintf("the event's signed peer record lists %v, Current (published part) is %v", e.RecAddr, want))
			}
			if e.RecSeq <= h.lastSeq {
				rep("am-record-seq-not-increasing", fmt.Sprintf("signed peer record seq %d after %d", e.RecSeq, h.lastSeq))
			}
			h.lastSeq = e.RecSeq
		}
		h.lastAdv = e.Current
	}
	for ; ai < len(addrEvs); ai++ {
		e := addrEvs[ai]
		if len(e.Added) == 0 && len(e.Removed) == 0 {
			rep("am-event-without-change", fmt.Sprintf("EvtLocalAddressesUpdated without Added / Removed: %+v", e))
		} else {
			rep("am-event-spurious", fmt.Sprintf("EvtLocalAddressesUpdated %+v although no update changed the advertised list (%v)", e, h.lastAdv))
		}
		h.lastAdv = e.Current
	}
}

// ---------------------------------------------------------------------------------------------
// replay

type vfC17amState struct {
	Listen      []string            `json:"listen"`
	Fmode       string              `json:"fmode"`
	RelayQ      [][]string          `json:"relayQ"`
	ReachQ      []string            `json:"reachQ"`
	Notify      int                 `json:"notify"`
	Nwait       int                 `json:"nwait"`
	TickReady   bool                `json:"tickReady"`
	ReachTrig   bool                `json:"reachTrig"`
	Pc          string              `json:"pc"`
	StartWait   bool                `json:"startWait"`
	CloseCalled bool                `json:"closeCalled"`
	CloseWait   bool                `json:"closeWait"`
	HostReach   string              `json:"hostReach"`
	RelayLoop   []string            `json:"relayLoop"`
	Local       []string            `json:"local"`
	R           []string            `json:"r"`
	U           []string            `json:"u"`
	K           []string            `json:"k"`
	Crelay      []string            `json:"crelay"`
	Caddrs      []string            `json:"caddrs"`
	Ls          []string            `json:"ls"`
	Rk          int                 `json:"rk"`
	Acc         []string            `json:"acc"`
	Next        map[string]string   `json:"next"`
	TrkR        []string            `json:"trkR"`
	TrkU        []string            `json:"trkU"`
	TrkK        []string            `json:"trkK"`
	AddrsOut    []string            `json:"addrsOut"`
	Hp          []string            `json:"hp"`
	Ps          []string            `json:"ps"`
	Dirty       bool                `json:"dirty"`
	XNat        json.RawMessage     `json:"nat"`
	XObs        json.RawMessage     `json:"obs"`
}

func vfC17amStrs(l []any) []string {
	out := make([]string, 0, len(l))
	for _, e := range l {
		out = append(out, fmt.Sprint(e))
	}
	return out
}

func vfC17amSortedCopy(l []string) []string {
	out := append([]string{}, l...)
	sort.Strings(out)
	return out
}

func vfC17amHash(parts ...[]byte) string {
	f := fnv.New64a()
	for _, p := range parts {
		f.Write(p)
		f.Write([]byte{0})
	}
	return fmt.Sprintf("%016x", f.Sum64())
}

// vfC17amWalk executes one walk in its own bubble.
func vfC17amWalk(t *testing.T, res *vfh.Result, cfg vfC17amCfg, w vfh.Walk, variant int) {
	synctest.Test(t, func(t *testing.T) {
		h, err := vfC17amNew(cfg, variant, false)
		if err != nil {
			t.Fatalf("harness: %v", err)
		}
		var prefix []vfh.Op
		step := -1
		mism := func(cls, what string, exp, got any) {
			res.AddMismatch(vfh.Mismatch{Class: cls, What: fmt.Sprintf("[%s/f%d] %s", cfg.Name, variant%len(vfC17amFamilies), what), Walk: w.Walk, Step: step,
				Expected: exp, Got: got, Prefix: append([]vfh.Op(nil), prefix...),
				Cfg: map[string]any{"instance": cfg.Name, "family": variant % len(vfC17amFamilies), "tracker": cfg.Tracker, "split": cfg.Split, "nat": cfg.HasNAT, "obs": cfg.HasObs, "pubonly": cfg.PubOnly}})
		}
		rep := func(cls, what string) { mism(cls, what, nil, nil) }
		prevRaw := []byte(w.Init)
		steps := 0
		aborted := false
		firstTick := true
		var relayCur []string // what the loop holds (ledger): last relay set / reachability it has taken
		reachCur := "unknown"
		var storedSeq uint64
		for si, st := range w.Steps {
			step = si
			op := st.Op
			prefix = append(prefix, op)
			var want vfC17amState
			if err := json.Unmarshal(st.State, &want); err != nil {
				t.Fatalf("state: %v", err)
			}
			ok := true
			switch op.Name() {
			case "listen":
				h.mu.Lock()
				h.listen[op.S("a")] = true
				h.mu.Unlock()
			case "unlisten":
				h.mu.Lock()
				h.listen[op.S("a")] = false
				h.mu.Unlock()
			case "setnat":
				h.mu.Lock()
				h.nat[op.S("a")] = op.S("v")
				h.mu.Unlock()
			case "setobs":
				h.mu.Lock()
				h.obs[op.S("a")] = vfC17amStrs(op.L("seq"))
				h.mu.Unlock()
			case "setfmode":
				h.mu.Lock()
				h.fmode = op.S("v")
				h.mu.Unlock()
			case "emitrelay":
				v := vfC17amSortedCopy(vfC17amStrs(op.L("v")))
				pos, _, _ := h.where()
				if pos == "off" {
					h.relaySent = [][]string{v} // stateful: the subscription made by Start receives the last one
				} else if h.subscribed("relay") {
					h.relaySent = append(h.relaySent, v)
				}
				if err := h.emitRelay(v); err != nil {
					t.Fatalf("emit: %v", err)
				}
				synctest.Wait()
			case "emitreach":
				pos, _, _ := h.where()
				if pos == "off" {
					h.reachSent = []string{op.S("v")}
				} else if h.subscribed("reach") {
					h.reachSent = append(h.reachSent, op.S("v"))
				}
				if err := h.reachEm.Emit(event.EvtLocalReachabilityChanged{Reachability: vfC17amReach(op.S("v"))}); err != nil {
					t.Fatalf("emit: %v", err)
				}
				synctest.Wait()
			case "start":
				h.startCall()
			case "loopinit":
				if pos, _, _ := h.where(); pos != "init" {
					ok = false
				} else {
					nr, nq := h.qlen("relay"), h.qlen("reach")
					ok = h.grant(vfC17amDecision{relay: true, reach: true})
					if nr > 0 && h.qlen("relay") < nr {
						relayCur = h.relaySent[h.relayTaken]
						h.relayTaken++
					}
					if nq > 0 && h.qlen("reach") < nq {
						reachCur = h.reachSent[h.reachTaken]
						h.reachTaken++
					}
				}
			case "notify":
				h.notifyCall()
			case "close":
				h.closeCall()
			case "tick", "hour":
				h.mu.Lock()
				for _, a := range vfC17amStrs(op.L("pub")) {
					h.truth[a] = "pub"
				}
				for _, a := range vfC17amStrs(op.L("priv")) {
					h.truth[a] = "priv"
				}
				h.mu.Unlock()
				d := 5 * time.Second
				if op.Name() == "hour" {
					d = 4200 * time.Second
				}
				if firstTick {
					d += time.Millisecond
					firstTick = false
				}
				time.Sleep(d)
				synctest.Wait()
			case "take", "update":
				if pos, _, _ := h.where(); pos != "idle" {
					ok = false
					break
				}
				d := vfC17amDecision{}
				switch op.S("trig") {
				case "relay":
					d.relay = true
					if h.relayTaken < len(h.relaySent) {
						relayCur = h.relaySent[h.relayTaken]
						h.relayTaken++
					}
				case "reach":
					d.reach = true
					if h.reachTaken < len(h.reachSent) {
						reachCur = h.reachSent[h.reachTaken]
						h.reachTaken++
					}
				case "reachtrig":
					if !h.heldTrig {
						mism("L2:tracker-signal", "the model takes the tracker's signal, the real tracker has not signalled", nil, nil)
					}
					h.heldTrig = false
					select {
					case h.am.triggerReachabilityUpdate <- struct{}{}:
					default:
					}
				}
				ok = h.grant(d)
			case "read":
				pos, kind, key := h.where()
				if pos != "read" || kind != op.S("kind") || key != op.S("key") {
					ok = false
				} else {
					ok = h.grant(vfC17amDecision{})
				}
			case "commit":
				if pos, _, _ := h.where(); pos != "commit" {
					ok = false
				} else {
					ok = h.grant(vfC17amDecision{})
				}
			case "exit":
				if pos, _, _ := h.where(); pos != "idle" {
					ok = false
				} else {
					ok = h.grant(vfC17amDecision{})
				}
			default:
				t.Fatalf("unknown op %q", op.Name())
			}
			steps++
			h.holdTrig()
			pos, pkind, pkey := h.where()
			if !ok {
				mism("L2:position", fmt.Sprintf("before %s the loop is not where the model has it", op.Name()), op, pos+"/"+pkind+"/"+pkey)
				aborted = true
			}
			// ---- what the step did, from the ledger
			h.mu.Lock()
			ups := h.done
			h.done = nil
			natClosed := h.natClosed
			h.mu.Unlock()
			evs := h.events()
			for _, m := range h.modified() {
				rep("am-returned-list-modified-later", fmt.Sprintf("%s: a list handed out before this step was written to by the manager: %s", op.Name(), m))
			}
			addrs, direct, r, u, k, hp, dup := h.query()
			if dup != "" {
				rep("am-duplicate-address", "an address occurs twice in"+dup)
			}
			if m := h.u.takeMissing(); len(m) > 0 {
				rep("am-certhash-missing", fmt.Sprintf("after %s: /webtransport addresses without certhash in what the manager hands out: %v", op.Name(), m))
			}
			for _, up := range ups {
				h.checkUpdate(up, direct, r, u, relayCur, reachCur, rep)
			}
			h.checkEvents(evs, ups, rep)
			sw, cw, nw := h.flags()
			if h.closeDone && !h.closedOK {
				h.closedOK = true
				if pos != "exited" && pos != "off" {
					rep("am-close-returned-before-loop-ended", "Close returned while the background loop had not finished (position "+pos+")")
				}
				if cfg.HasNAT && natClosed != 1 {
					rep("am-nat-manager-not-closed", fmt.Sprintf("Close returned and the NAT manager was closed %d times", natClosed))
				}
			}
			// ---- observables against the model
			modelPc := want.Pc
			gotPc := pos
			if pos == "read" || pos == "commit" {
				gotPc = "upd"
			}
			if !aborted && gotPc != modelPc {
				mism("L2:position", fmt.Sprintf("after %s the loop is at %s/%s/%s, model %s", op.Name(), pos, pkind, pkey, modelPc), modelPc, pos)
				aborted = true
			}
			if !aborted && pos == "read" && (want.Next["kind"] != pkind || want.Next["key"] != pkey) {
				mism("L2:read-plan", fmt.Sprintf("after %s the loop is about to read %s/%s, model %v", op.Name(), pkind, pkey, want.Next), want.Next, pkind+"/"+pkey)
				aborted = true
			}
			if !aborted && pos == "commit" && want.Next["kind"] != "-" {
				mism("L2:read-plan", fmt.Sprintf("after %s the loop is at the factory call, the model still reads %v", op.Name(), want.Next), want.Next, "commit")
				aborted = true
			}
			cmp := func(cls, what string, wantL, gotL []string) {
				ws := vfC17amSortedCopy(wantL)
				if !vfC17amEq(ws, gotL) {
					mism(cls, fmt.Sprintf("after %s: %s is %v, model %v", op.Name(), what, gotL, ws), ws, gotL)
					aborted = true
				}
			}
			cmp("am-direct-addrs-differ", "DirectAddrs()", want.Local, direct)
			cmp("am-addrs-differ", "Addrs()", want.AddrsOut, addrs)
			cmp("am-confirmed-differ:reachable", "ConfirmedAddrs() reachable", want.R, r)
			cmp("am-confirmed-differ:unreachable", "ConfirmedAddrs() unreachable", want.U, u)
			cmp("am-confirmed-differ:unknown", "ConfirmedAddrs() unknown", want.K, k)
			cmp("am-holepunch-addrs-differ", "HolePunchAddrs()", want.Hp, hp)
			psl, _ := h.u.names(h.ps.Addrs(h.pid))
			cmp("am-peerstore-differs", "the host's own peerstore entry", want.Ps, psl)
			ra, rseq, has := h.record()
			if has || len(want.Ps) > 0 {
				cmp("am-record-differs", "the stored signed peer record", want.Ps, ra)
			}
			// A6: the record is rewritten exactly when an EvtLocalAddressesUpdated is emitted
			nAddrEv := 0
			for _, e := range evs {
				if e.Kind == "addrs" {
					nAddrEv++
				}
			}
			if has && rseq != storedSeq && nAddrEv == 0 {
				rep("am-record-rewritten-without-change", fmt.Sprintf("%s: the stored signed peer record went from seq %d to %d and no EvtLocalAddressesUpdated was emitted", op.Name(), storedSeq, rseq))
			}
			if has && rseq == storedSeq && nAddrEv > 0 {
				rep("am-record-not-rewritten", fmt.Sprintf("%s: EvtLocalAddressesUpdated emitted and the stored signed peer record still has seq %d", op.Name(), rseq))
			}
			if has {
				storedSeq = rseq
			}
			if sw != want.StartWait {
				cls := "am-start-returned-early"
				if sw {
					cls = "am-start-does-not-return"
				}
				mism(cls, fmt.Sprintf("after %s: Start blocked: %v, model %v", op.Name(), sw, want.StartWait), want.StartWait, sw)
				aborted = true
			}
			if cw != want.CloseWait {
				cls := "am-close-returned-before-loop-ended"
				if cw {
					cls = "am-close-does-not-return"
				}
				mism(cls, fmt.Sprintf("after %s: Close blocked: %v, model %v", op.Name(), cw, want.CloseWait), want.CloseWait, cw)
				aborted = true
			}
			wantNW := want.Nwait
			if nw != wantNW {
				cls := "am-notify-returned-early"
				if nw > wantNW {
					cls = "am-notify-does-not-return"
				}
				mism(cls, fmt.Sprintf("after %s: %d notification calls blocked, model %d", op.Name(), nw, wantNW), wantNW, nw)
				aborted = true
			}
			// internal
			if !aborted {
				h.am.addrsMx.RLock()
				ca, _ := h.u.names(h.am.currentAddrs.addrs)
				cr, _ := h.u.names(h.am.currentAddrs.relayAddrs)
				h.am.addrsMx.RUnlock()
				if ws := vfC17amSortedCopy(want.Caddrs); !vfC17amEq(ws, ca) {
					mism("L2:cached", fmt.Sprintf("after %s: cached advertised list %v, model %v", op.Name(), ca, ws), ws, ca)
				}
				if ws := vfC17amSortedCopy(want.Crelay); !vfC17amEq(ws, cr) {
					mism("L2:cached", fmt.Sprintf("after %s: cached relay list %v, model %v", op.Name(), cr, ws), ws, cr)
				}
				if hr := vfC17amReachName(*h.am.hostReachability.Load()); hr != want.HostReach {
					mism("L2:reachability", fmt.Sprintf("after %s: stored reachability %s, model %s", op.Name(), hr, want.HostReach), want.HostReach, hr)
				}
				if pos == "off" {
					// nobody is subscribed yet: the stateful emitters keep the last event for the subscription Start makes
				} else if got := h.qlen("relay"); got != len(want.RelayQ) {
					mism("L2:queue", fmt.Sprintf("after %s: %d relay events wait, model %d", op.Name(), got, len(want.RelayQ)), len(want.RelayQ), got)
				}
				if got := h.qlen("reach"); pos != "off" && got != len(want.ReachQ) {
					mism("L2:queue", fmt.Sprintf("after %s: %d reachability events wait, model %d", op.Name(), got, len(want.ReachQ)), len(want.ReachQ), got)
				}
				if cfg.Tracker {
					if h.heldTrig != want.ReachTrig {
						mism("L2:tracker-signal", fmt.Sprintf("after %s: tracker signal pending %v, model %v", op.Name(), h.heldTrig, want.ReachTrig), want.ReachTrig, h.heldTrig)
					}
					tr, tu, tk := h.am.addrsReachabilityTracker.ConfirmedAddrs()
					for _, x := range []struct {
						n    string
						w    []string
						g    []ma.Multiaddr
					}{{"reachable", want.TrkR, tr}, {"unreachable", want.TrkU, tu}, {"unknown", want.TrkK, tk}} {
						g, _ := h.u.names(x.g)
						if ws := vfC17amSortedCopy(x.w); !vfC17amEq(ws, g) {
							// noted, the walk goes on: what the manager then reports is checked against the statement
							mism("L2:tracker", fmt.Sprintf("after %s: the tracker's %s set %v, model %v", op.Name(), x.n, g, ws), ws, g)
						}
					}
				}
			}
			// ---- per-op expectations
			switch op.Name() {
			case "update", "commit":
				var ae, re []vfC17amEvent
				order := ""
				for _, e := range evs {
					if e.Kind == "addrs" {
						ae = append(ae, e)
						order += "a"
					} else {
						re = append(re, e)
						order += "r"
					}
				}
				if op.B("evA") != (len(ae) == 1) || len(ae) > 1 {
					cls := "am-event-missing"
					if len(ae) > 0 {
						cls = "am-event-spurious"
					}
					mism(cls, fmt.Sprintf("%s: %d EvtLocalAddressesUpdated, model expects one: %v", op.Name(), len(ae), op.B("evA")), op, evs)
				} else if len(ae) == 1 {
					e := ae[0]
					if w := vfC17amSortedCopy(vfC17amStrs(op.L("current"))); !vfC17amEq(w, e.Current) {
						mism("am-event-current-differs", fmt.Sprintf("event Current %v, model %v", e.Current, w), w, e.Current)
					}
					if w := vfC17amSortedCopy(vfC17amStrs(op.L("removed"))); !vfC17amEq(w, e.Removed) {
						mism("am-event-removed-differs", fmt.Sprintf("event Removed %v, model %v", e.Removed, w), w, e.Removed)
					}
					if w := vfC17amSortedCopy(vfC17amStrs(op.L("added"))); !vfC17amEq(w, e.Added) {
						mism("am-event-added-differs", fmt.Sprintf("event Added %v, model %v", e.Added, w), w, e.Added)
					}
				}
				if op.B("evR") != (len(re) == 1) || len(re) > 1 {
					cls := "am-reachable-event-missing"
					if len(re) > 0 {
						cls = "am-reachable-event-spurious"
					}
					mism(cls, fmt.Sprintf("%s: %d EvtHostReachableAddrsChanged, model expects one: %v", op.Name(), len(re), op.B("evR")), op, evs)
				} else if len(re) == 1 {
					e := re[0]
					wr, wu, wk := vfC17amSortedCopy(vfC17amStrs(op.L("r"))), vfC17amSortedCopy(vfC17amStrs(op.L("u"))), vfC17amSortedCopy(vfC17amStrs(op.L("k")))
					if !vfC17amEq(wr, e.R) || !vfC17amEq(wu, e.U) || !vfC17amEq(wk, e.K) || e.Dup {
						mism("am-reachable-event-differs", fmt.Sprintf("EvtHostReachableAddrsChanged %v/%v/%v, model %v/%v/%v", e.R, e.U, e.K, wr, wu, wk), op, e)
					}
				}
				if order == "ra" {
					rep("am-event-order", "EvtHostReachableAddrsChanged was emitted before the EvtLocalAddressesUpdated of the same update")
				}
				if len(ups) != 1 {
					mism("L2:updates", fmt.Sprintf("%s: %d runs of updateAddrs completed, model 1", op.Name(), len(ups)), 1, len(ups))
				} else {
					if w := vfC17amSortedCopy(vfC17amStrs(op.L("factoryIn"))); !vfC17amEq(w, ups[0].factoryIn) {
						mism("am-factory-input-differs", fmt.Sprintf("%s: the AddrsFactory was given %v, model %v", op.Name(), ups[0].factoryIn, w), w, ups[0].factoryIn)
					}
					if w := vfC17amStrs(op.L("ls")); !vfC17amEq(vfC17amSortedCopy(w), vfC17amSortedCopy(ups[0].ls)) {
						mism("L2:listen-snapshot", fmt.Sprintf("%s: update saw listen addresses %v, model %v", op.Name(), ups[0].ls, w), w, ups[0].ls)
					}
				}
			default:
				if len(evs) > 0 {
					mism("am-event-spurious", fmt.Sprintf("%s: events emitted by a step that stores nothing", op.Name()), nil, evs)
				}
				if len(ups) > 0 && op.Name() != "take" && op.Name() != "read" {
					mism("L2:updates", fmt.Sprintf("%s: %d runs of updateAddrs completed, model none", op.Name(), len(ups)), 0, len(ups))
				}
			}
			if op.Name() == "notify" && op.B("immediate") && nw > wantNW {
				rep("am-notify-does-not-return", "a notification before Start / after Close did not return at once")
			}
			res.Case(vfC17amHash([]byte(cfg.Name), prevRaw, []byte(vfh.Canon(op)), st.State))
			prevRaw = st.State
			if aborted {
				break
			}
		}
		res.Count(1, steps)
		if len(res.Samples) < 2 && len(w.Steps) > 8 {
			res.Sample(map[string]any{"instance": cfg.Name, "walk": w.Walk, "ops": prefix})
		}
		step = len(w.Steps)
		if cfg.Tracker && h.startCalled && !h.closeCalled && h.parked() {
			// epilogue: one more hour with the loop held where it is: the tracker probes again whatever it tracks, and
			// that must be direct addresses of the host (it is told at every change)
			time.Sleep(4200 * time.Second)
			synctest.Wait()
		}
		h.finish(rep)
		h.mu.Lock()
		late := h.readsAfterClose
		probes := len(h.probes)
		priv := h.privProbes
		h.mu.Unlock()
		if len(h.strayProbes) > 0 {
			rep("am-probe-for-address-not-advertised", fmt.Sprintf("the autonat client was asked about %v, not direct addresses of the host at that time", h.strayProbes))
		}
		if len(priv) > 0 {
			rep("am-probe-for-non-public-address", fmt.Sprintf("the autonat client was asked about non-public addresses %v", priv))
		}
		if late > 0 {
			rep("am-active-after-close", fmt.Sprintf("%d stub reads after Close had returned", late))
		}
		if evs := h.events(); len(evs) > 0 && h.closedOK && !aborted {
			// events of the free-running tail before Close are legitimate; after Close returned none may come
			_ = evs
		}
		res.Inc("probes", probes)
	})
}

func vfC17amCfgOf(hdr map[string]any) vfC17amCfg {
	c := vfC17amCfg{Name: fmt.Sprint(hdr["instance"])}
	strs := func(k string) []string {
		l, _ := hdr[k].([]any)
		return vfC17amStrs(l)
	}
	c.Listen, c.NatKeys, c.ObsKeys = strs("initListen"), strs("natKeys"), strs("obsKeys")
	c.Tracker, _ = hdr["tracker"].(bool)
	c.HasNAT, _ = hdr["hasNAT"].(bool)
	c.HasObs, _ = hdr["hasObs"].(bool)
	c.PubOnly, _ = hdr["pubOnly"].(bool)
	c.Split, _ = hdr["split"].(bool)
	return c
}

func TestVerifC17amReplay(t *testing.T) {
	res := vfh.NewResult()
	res.Rule = "distinct = distinct (instance, source state, op, target state) transitions of the printed graphs executed on the real addrsManager"
	files, _ := filepath.Glob(filepath.Join(vfh.In(), "*.jsonl"))
	sort.Strings(files)
	if len(files) == 0 {
		t.Fatal("no behaviour files in VERIF_IN")
	}
	for v := range vfC17amFamilies {
		if _, err := vfC17amUniverse(v); err != nil {
			t.Fatalf("address family: %v", err)
		}
	}
	type job struct {
		cfg vfC17amCfg
		w   vfh.Walk
		v   int
	}
	var jobs []job
	for _, f := range files {
		hdr, walks, err := vfh.LoadWalks(f)
		if err != nil {
			t.Fatal(err)
		}
		cfg := vfC17amCfgOf(hdr)
		for _, w := range walks {
			jobs = append(jobs, job{cfg, w, w.Walk + int(vfh.Seed())})
		}
	}
	shards := 4
	t.Run("walks", func(t *testing.T) {
		for s := 0; s < shards; s++ {
			s := s
			t.Run(fmt.Sprintf("shard%d", s), func(t *testing.T) {
				t.Parallel()
				for i := s; i < len(jobs); i += shards {
					vfC17amWalk(t, res, jobs[i].cfg, jobs[i].w, jobs[i].v)
				}
			})
		}
	})
	if err := res.Write(); err != nil {
		t.Fatal(err)
	}
	fmt.Fprintf(os.Stderr, "C17am replay: %d walks, %d steps, %d mismatches\n", res.Replayed, res.Steps, res.NMismatch())
}
