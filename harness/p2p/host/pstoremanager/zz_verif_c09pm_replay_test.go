//go:build verif

package pstoremanager

// Conformance harness of the extension engine C09pm (spec/C09pm_PstoreManager.tla): who removes a peer's
// data from the peerstore and when.
//
// TestVerifC09pmReplay executes covering walks of the TLC state graphs on a REAL PeerstoreManager wired to
// the real event bus (p2p/host/eventbus) and a real in-memory peerstore with data in every book, inside a
// testing/synctest bubble (virtual time).  Three thin wrappers give the harness its interference points
// without touching /repo:
//   - the event.Subscription handed to the manager: its Out() is evaluated at the top of every iteration of
//     the background loop, so it is a gate at the select (and, by answering a nil channel, lets the harness
//     make the loop take the waiting tick / the cancellation instead of a waiting event);
//   - a stub network.Network whose Connectedness parks before computing the answer and again before
//     returning it (the window between the answer and RemovePeer);
//   - the peerstore, whose RemovePeer is logged and delegated to the real store.
// After every step the projected state (which peer has data in which book, where the loop is, how many
// events wait, whether the publisher / the callers of Close are blocked) is compared with the model, and
// the clauses K1..K8 are checked by monitors computed only from the harness's own ledger of emissions,
// consumptions, answers and RemovePeer calls (L1).

import (
	"encoding/json"
	"errors"
	"fmt"
	"hash/fnv"
	"os"
	"path/filepath"
	"sort"
	"strings"
	"sync"
	"testing"
	"testing/synctest"
	"time"

	"github.com/libp2p/go-libp2p/core/crypto"
	"github.com/libp2p/go-libp2p/core/event"
	"github.com/libp2p/go-libp2p/core/network"
	"github.com/libp2p/go-libp2p/core/peer"
	"github.com/libp2p/go-libp2p/core/peerstore"
	"github.com/libp2p/go-libp2p/core/protocol"
	"github.com/libp2p/go-libp2p/internal/vfh"
	"github.com/libp2p/go-libp2p/p2p/host/eventbus"
	"github.com/libp2p/go-libp2p/p2p/host/peerstore/pstoremem"
	ma "github.com/multiformats/go-multiaddr"
)

const vfC09pmUnit = 10 * time.Second // one model time unit

var vfC09pmBooks = []string{"keys", "protocols", "metadata", "metrics"}

type vfC09pmIdent struct {
	id   peer.ID
	priv crypto.PrivKey
	pub  crypto.PubKey
	addr ma.Multiaddr
}

var (
	vfC09pmIdOnce sync.Once
	vfC09pmIds    map[string]*vfC09pmIdent
)

func vfC09pmIdents() map[string]*vfC09pmIdent {
	vfC09pmIdOnce.Do(func() {
		vfC09pmIds = map[string]*vfC09pmIdent{}
		for i, n := range []string{"p1", "p2", "p3"} {
			seed := make([]byte, 64)
			for j := range seed {
				seed[j] = byte(17*i + j + 1)
			}
			priv, pub, err := crypto.GenerateEd25519Key(strings.NewReader(string(seed)))
			if err != nil {
				panic(err)
			}
			id, err := peer.IDFromPublicKey(pub)
			if err != nil {
				panic(err)
			}
			vfC09pmIds[n] = &vfC09pmIdent{id: id, priv: priv, pub: pub,
				addr: ma.StringCast(fmt.Sprintf("/ip4/10.9.0.%d/tcp/4001", i+1))}
		}
	})
	return vfC09pmIds
}

// ---------------------------------------------------------------------------------------------
// the harness around one manager

type vfC09pmDecision struct{ nilch bool }

type vfC09pmLog struct {
	kind  string // "query" | "remove"
	peer  string
	reply network.Connectedness
	at    time.Duration
}

type vfC09pmEmitted struct {
	peer string
	kind string // "C" | "L" | "N"
	at   time.Duration
}

type vfC09pmPend struct{ tc, te time.Duration }

type vfC09pmH struct {
	mu            sync.Mutex
	ids           map[string]*vfC09pmIdent
	names         map[peer.ID]string
	peers         []string
	t0            time.Time
	grace         time.Duration
	intv          time.Duration
	buf           int // 0: leave the manager's own choice
	atomic        bool
	free          bool
	failSubscribe bool

	ps     peerstore.Peerstore // the real store
	bus    event.Bus           // the real bus
	em     event.Emitter
	m      *PeerstoreManager
	subs   []*vfC09pmSub
	netVal map[string]network.Connectedness
	nRot   int

	pos     string // "off" | "idle" | "scan" | "asked" | "running" | "exited"
	posPeer string
	gate    chan vfC09pmDecision
	passedB []string // peers whose answer was returned to the manager (swept) since the last collection

	logs             []vfC09pmLog
	logSeen          int
	emitted          []vfC09pmEmitted // accepted by the subscription (emitted while subscribed), in order
	consumed         int
	emitStarted      int
	emitDone         int
	closeStart       int
	closeDone        int
	closeDoneAtStart int // Close calls that had returned (doing nothing) before Start
	started          bool
	startAt          time.Duration
	cancelAt         time.Duration
	cancelSet        bool

	// monitors
	pend          map[string]vfC09pmPend
	lastEv        map[string]string
	closedOK      bool                   // a Close issued after Start has returned
	final         bool                   // the walk is over: the loop runs freely, only the end conditions are checked
	asked         map[string]*vfC09pmLog // answer given to the loop and not yet acted upon (stepwise runs)
	lastTickGrant time.Duration
	tickGranted   bool
}

func vfC09pmNew(peers []string, g, i time.Duration, buf int, atomic bool) *vfC09pmH {
	h := &vfC09pmH{ids: vfC09pmIdents(), names: map[peer.ID]string{}, peers: peers, t0: time.Now(), grace: g, intv: i,
		buf: buf, atomic: atomic, netVal: map[string]network.Connectedness{}, pos: "off",
		gate: make(chan vfC09pmDecision), pend: map[string]vfC09pmPend{}, lastEv: map[string]string{}, asked: map[string]*vfC09pmLog{}}
	for n, id := range h.ids {
		h.names[id.id] = n
	}
	for _, p := range peers {
		h.netVal[p] = network.NotConnected
	}
	ps, err := pstoremem.NewPeerstore()
	if err != nil {
		panic(err)
	}
	h.ps = ps
	h.bus = eventbus.NewBus()
	h.em, err = h.bus.Emitter(new(event.EvtPeerConnectednessChanged))
	if err != nil {
		panic(err)
	}
	return h
}

func (h *vfC09pmH) newManager(defaultInterval bool) error {
	opts := []Option{WithGracePeriod(h.grace)}
	if !defaultInterval {
		opts = append(opts, WithCleanupInterval(h.intv))
	}
	m, err := NewPeerstoreManager(&vfC09pmPS{Peerstore: h.ps, h: h}, &vfC09pmBus{Bus: h.bus, h: h}, &vfC09pmNet{h: h}, opts...)
	h.m = m
	return err
}

func (h *vfC09pmH) since() time.Duration { return time.Since(h.t0) }

// concrete Connectedness for a model kind; "N" rotates over everything that is neither Connected nor Limited
func (h *vfC09pmH) concrete(k string) network.Connectedness {
	switch k {
	case "C":
		return network.Connected
	case "L":
		return network.Limited
	}
	h.nRot++
	return []network.Connectedness{network.NotConnected, network.CanConnect, network.CannotConnect, network.Connectedness(7)}[h.nRot%4]
}

func vfC09pmKind(c network.Connectedness) string {
	switch c {
	case network.Connected:
		return "C"
	case network.Limited:
		return "L"
	}
	return "N"
}

// park blocks the calling (manager) goroutine until the harness grants the next step.
func (h *vfC09pmH) park(pos, p string) vfC09pmDecision {
	h.mu.Lock()
	if h.free {
		h.pos = "running"
		h.mu.Unlock()
		return vfC09pmDecision{}
	}
	h.pos, h.posPeer = pos, p
	h.mu.Unlock()
	d := <-h.gate
	h.mu.Lock()
	h.pos, h.posPeer = "running", ""
	h.mu.Unlock()
	return d
}

func (h *vfC09pmH) where() (string, string) {
	h.mu.Lock()
	defer h.mu.Unlock()
	return h.pos, h.posPeer
}

func (h *vfC09pmH) parked() bool {
	p, _ := h.where()
	return p == "idle" || p == "scan" || p == "asked"
}

// grant releases the parked manager goroutine and waits until everything is blocked again.
func (h *vfC09pmH) grant(d vfC09pmDecision) bool {
	if !h.parked() {
		return false
	}
	h.gate <- d
	synctest.Wait()
	return true
}

type vfC09pmSub struct {
	event.Subscription
	h      *vfC09pmH
	closed bool
}

func (s *vfC09pmSub) Out() <-chan any {
	d := s.h.park("idle", "")
	if d.nilch {
		return nil
	}
	return s.Subscription.Out()
}

func (s *vfC09pmSub) Close() error {
	s.h.mu.Lock()
	s.closed = true
	s.h.pos = "exited"
	s.h.mu.Unlock()
	return s.Subscription.Close()
}

type vfC09pmBus struct {
	event.Bus
	h *vfC09pmH
}

func (b *vfC09pmBus) Subscribe(typ any, opts ...event.SubscriptionOpt) (event.Subscription, error) {
	if b.h.failSubscribe {
		return nil, errors.New("vf: subscription refused")
	}
	if b.h.buf > 0 {
		opts = append(opts, eventbus.BufSize(b.h.buf))
	}
	s, err := b.Bus.Subscribe(typ, opts...)
	if err != nil {
		return nil, err
	}
	w := &vfC09pmSub{Subscription: s, h: b.h}
	b.h.mu.Lock()
	b.h.subs = append(b.h.subs, w)
	b.h.mu.Unlock()
	return w, nil
}

type vfC09pmNet struct {
	network.Network
	h *vfC09pmH
}

func (n *vfC09pmNet) Connectedness(p peer.ID) network.Connectedness {
	h := n.h
	name := h.names[p]
	if !h.atomic {
		h.park("scan", name)
	}
	h.mu.Lock()
	r := h.netVal[name]
	h.logs = append(h.logs, vfC09pmLog{kind: "query", peer: name, reply: r, at: h.since()})
	h.mu.Unlock()
	if !h.atomic {
		h.park("asked", name)
	}
	h.mu.Lock()
	h.passedB = append(h.passedB, name)
	h.mu.Unlock()
	return r
}

type vfC09pmPS struct {
	peerstore.Peerstore
	h *vfC09pmH
}

func (w *vfC09pmPS) RemovePeer(p peer.ID) {
	w.Peerstore.RemovePeer(p)
	w.h.mu.Lock()
	w.h.logs = append(w.h.logs, vfC09pmLog{kind: "remove", peer: w.h.names[p], at: w.h.since()})
	w.h.mu.Unlock()
}

// ---------------------------------------------------------------------------------------------
// environment operations

func (h *vfC09pmH) learn(p string) {
	id := h.ids[p]
	h.ps.AddPubKey(id.id, id.pub)
	h.ps.AddPrivKey(id.id, id.priv)
	h.ps.AddProtocols(id.id, protocol.ID("/vf/c09pm/1"), protocol.ID("/vf/c09pm/2"))
	h.ps.Put(id.id, "vf-agent", "c09pm")
	h.ps.RecordLatency(id.id, 5*time.Millisecond)
	h.ps.AddAddr(id.id, id.addr, peerstore.PermanentAddrTTL)
}

// books projects which books hold something about p (no call here has a side effect on the store).
func (h *vfC09pmH) books(p string) map[string]bool {
	id := h.ids[p].id
	out := map[string]bool{}
	for _, q := range h.ps.PeersWithKeys() {
		if q == id {
			out["keys"] = true
		}
	}
	if pr, _ := h.ps.GetProtocols(id); len(pr) > 0 {
		out["protocols"] = true
	}
	if _, err := h.ps.Get(id, "vf-agent"); err == nil {
		out["metadata"] = true
	}
	if h.ps.LatencyEWMA(id) != 0 {
		out["metrics"] = true
	}
	if len(h.ps.Addrs(id)) > 0 {
		out["addrs"] = true
	}
	return out
}

func (h *vfC09pmH) emit(p, kind string) {
	ev := event.EvtPeerConnectednessChanged{Peer: h.ids[p].id, Connectedness: h.concrete(kind)}
	subscribed := h.subscribed()
	h.mu.Lock()
	h.emitStarted++
	if subscribed {
		h.emitted = append(h.emitted, vfC09pmEmitted{peer: p, kind: kind, at: h.since()})
	}
	h.mu.Unlock()
	go func() {
		h.em.Emit(ev)
		h.mu.Lock()
		h.emitDone++
		h.mu.Unlock()
	}()
	synctest.Wait()
}

func (h *vfC09pmH) subscribed() bool {
	h.mu.Lock()
	defer h.mu.Unlock()
	return len(h.subs) > 0 && !h.subs[len(h.subs)-1].closed
}

func (h *vfC09pmH) qlen() int {
	h.mu.Lock()
	defer h.mu.Unlock()
	if len(h.subs) == 0 || h.subs[len(h.subs)-1].closed {
		return 0
	}
	return len(h.subs[len(h.subs)-1].Subscription.Out())
}

func (h *vfC09pmH) stalledEmits() int {
	h.mu.Lock()
	defer h.mu.Unlock()
	return h.emitStarted - h.emitDone
}

func (h *vfC09pmH) closeCall() {
	h.mu.Lock()
	h.closeStart++
	if h.started && !h.cancelSet {
		h.cancelSet, h.cancelAt = true, h.since()
	}
	h.mu.Unlock()
	go func() {
		h.m.Close()
		h.mu.Lock()
		h.closeDone++
		h.mu.Unlock()
	}()
	synctest.Wait()
}

func (h *vfC09pmH) closeWaiting() int {
	h.mu.Lock()
	defer h.mu.Unlock()
	return h.closeStart - h.closeDone
}

// finish ends a walk whatever state it is in; reports what must hold at the very end.
func (h *vfC09pmH) finish(report func(cls, what string)) {
	// everything the harness knew about what the loop remembers is void once the loop runs freely
	h.pend = map[string]vfC09pmPend{}
	h.final = true
	h.mu.Lock()
	h.free = true
	h.mu.Unlock()
	if h.parked() {
		h.gate <- vfC09pmDecision{}
	}
	synctest.Wait()
	if h.m != nil {
		h.closeCall()
	}
	if w := h.closeWaiting(); w > 0 {
		report("pm-close-does-not-return", fmt.Sprintf("%d Close call(s) still blocked after the loop was cancelled and left alone", w))
		h.lastResort() // the loop also ends when its channel is closed
	}
	if n := h.stalledEmits(); n > 0 {
		report("pm-publisher-not-released", fmt.Sprintf("%d Emit call(s) still blocked after Close returned", n))
		h.lastResort()
	}
	h.em.Close()
	h.ps.Close()
	synctest.Wait()
}

// lastResort frees whatever is still blocked on the manager's subscriptions so that the bubble can end: drains the
// channels (a blocked publisher holds the bus node's lock, which Subscription.Close needs) and closes them.
func (h *vfC09pmH) lastResort() {
	for _, s := range h.subs {
		ch := s.Subscription.Out()
		go func() {
			for range ch {
			}
		}()
	}
	synctest.Wait()
	for _, s := range h.subs {
		real := s.Subscription
		go real.Close()
	}
	synctest.Wait()
}

// ---------------------------------------------------------------------------------------------
// monitors (L1): computed from the ledger only

// collect digests what happened during the step just executed; rep reports a clause violation.
func (h *vfC09pmH) collect(rep func(cls, what string)) (queries []vfC09pmLog, removes []vfC09pmLog) {
	nowd := h.since()
	// events consumed in this step (FIFO): everything accepted that is neither waiting nor stalled
	waiting := h.qlen() + h.stalledEmits()
	if !h.subscribed() { // what still waited when the loop unsubscribed was discarded, never consumed
		h.mu.Lock()
		h.emitted = h.emitted[:h.consumed]
		h.mu.Unlock()
		waiting = 0
	}
	target := len(h.emitted) - waiting
	pos, _ := h.where()
	exited := pos == "exited"
	h.mu.Lock()
	logs := append([]vfC09pmLog(nil), h.logs[h.logSeen:]...)
	h.logSeen = len(h.logs)
	passed := h.passedB
	h.passedB = nil
	h.mu.Unlock()
	// a consumption step holds no tick activity and vice versa (the loop handles one case per iteration and the
	// harness grants one iteration per step), except in free mode where monitors are not used
	for ; h.consumed < target; h.consumed++ {
		e := h.emitted[h.consumed]
		if e.kind == "N" {
			if _, ok := h.pend[e.peer]; !ok {
				h.pend[e.peer] = vfC09pmPend{tc: nowd, te: e.at}
			}
		} else {
			delete(h.pend, e.peer)
		}
		h.lastEv[e.peer] = e.kind
	}
	lastQ := map[string]*vfC09pmLog{}
	for i := range logs {
		l := logs[i]
		if h.closedOK {
			rep("pm-active-after-close", fmt.Sprintf("%s of %s at %v after Close had returned", l.kind, l.peer, l.at))
		}
		switch l.kind {
		case "query":
			queries = append(queries, l)
			lastQ[l.peer] = &logs[i]
		case "remove":
			removes = append(removes, l)
			if h.final {
				continue
			}
			pd, remembered := h.pend[l.peer]
			atExit := exited && h.cancelSet && lastQ[l.peer] == nil && h.askedReply(l.peer) == nil
			if !remembered || h.lastEv[l.peer] != "N" {
				rep("pm-removed-without-remembered-disconnect", fmt.Sprintf("RemovePeer(%s) at %v although the last event processed for it is %q (disconnect remembered: %v)",
					l.peer, l.at, h.lastEv[l.peer], remembered))
			}
			if !atExit {
				q := lastQ[l.peer]
				if q == nil {
					q = h.askedReply(l.peer)
				}
				if q == nil {
					rep("pm-removed-without-asking-network", fmt.Sprintf("RemovePeer(%s) at %v in a cleanup run without a Connectedness query", l.peer, l.at))
				} else if q.reply == network.Connected || q.reply == network.Limited {
					rep("pm-removed-while-connected", fmt.Sprintf("RemovePeer(%s) at %v although the network answered %v", l.peer, l.at, q.reply))
				}
				if remembered && !(pd.te+h.grace < l.at) {
					rep("pm-removed-before-grace-period", fmt.Sprintf("RemovePeer(%s) at %v, disconnect event emitted at %v (processed %v), grace period %v",
						l.peer, l.at, pd.te, pd.tc, h.grace))
				}
			}
			delete(h.pend, l.peer)
			lastQ[l.peer] = nil
			h.clearAsked(l.peer)
			// K7
			b := h.books(l.peer)
			for _, bk := range vfC09pmBooks {
				if b[bk] {
					rep("pm-removepeer-left-book:"+bk, fmt.Sprintf("after RemovePeer(%s) the %s book still has an entry", l.peer, bk))
				}
			}
		}
	}
	for p, q := range lastQ { // stepwise mode: the answer is used in a later step
		if q != nil {
			h.setAsked(p, q)
		}
	}
	for _, p := range passed { // the answer was handed to the loop: the disconnect is forgotten either way
		delete(h.pend, p)
		h.clearAsked(p)
	}
	if h.closeDone > h.closeDoneAtStart && h.started && h.cancelSet && !h.closedOK {
		h.closedOK = true
		if !exited {
			rep("pm-close-returned-before-loop-ended", "Close returned while the background loop had not unsubscribed yet (position "+pos+")")
		}
		for p := range h.pend {
			rep("pm-close-left-disconnected-peer", fmt.Sprintf("Close returned but %s (disconnect processed at %v) was not removed", p, h.pend[p].tc))
		}
	}
	if exited {
		for p := range h.pend {
			delete(h.pend, p)
		}
	}
	return
}

func (h *vfC09pmH) setAsked(p string, q *vfC09pmLog) {
	c := *q
	h.asked[p] = &c
}
func (h *vfC09pmH) askedReply(p string) *vfC09pmLog { return h.asked[p] }
func (h *vfC09pmH) clearAsked(p string)             { delete(h.asked, p) }

// tickWaiting says, from the ledger alone, whether an instant of the ticker has passed that the harness has
// not yet let the loop take.
func (h *vfC09pmH) tickWaiting() bool {
	if !h.started {
		return false
	}
	k := (h.since() - h.startAt) / h.intv
	if k < 1 {
		return false
	}
	latest := h.startAt + k*h.intv
	return !h.tickGranted || h.lastTickGrant < latest
}

// timely is K4: called when the loop is parked at the select (or blocked in it) and every instant of the
// ticker that has passed has been offered to the loop.
func (h *vfC09pmH) timely(rep func(cls, what string)) {
	if !h.started || h.tickWaiting() {
		return
	}
	nowd := h.since()
	for p, pd := range h.pend {
		if nowd >= pd.tc+h.grace+h.intv {
			rep("pm-not-cleaned-in-time", fmt.Sprintf("%s: disconnect processed at %v, now %v >= grace %v + interval %v later, loop idle with no tick waiting, yet neither asked about nor removed",
				p, pd.tc, nowd, h.grace, h.intv))
		}
	}
}

// ---------------------------------------------------------------------------------------------
// replay

type vfC09pmState struct {
	Time        int                 `json:"time"`
	Net         map[string]string   `json:"net"`
	Data        map[string]bool     `json:"data"`
	Addr        map[string]bool     `json:"addr"`
	Pc          string              `json:"pc"`
	Sub         bool                `json:"sub"`
	Q           []map[string]string `json:"q"`
	Stalled     bool                `json:"stalled"`
	Disc        map[string]int      `json:"disc"`
	TickPending bool                `json:"tickPending"`
	Todo        []string            `json:"todo"`
	Cur         string              `json:"cur"`
	Cancelled   bool                `json:"cancelled"`
	Ncall       int                 `json:"ncall"`
	Nwait       int                 `json:"nwait"`
}

type vfC09pmCfg struct {
	name       string
	peers      []string
	g, i, buf  int
	atomic     bool
	initData   bool
	defaultInt bool
	monOnly    bool // re-execution of a saved prefix: no model states, monitors only
}

func vfC09pmHash(parts ...[]byte) string {
	f := fnv.New64a()
	for _, p := range parts {
		f.Write(p)
		f.Write([]byte{0})
	}
	return fmt.Sprintf("%016x", f.Sum64())
}

func vfC09pmSetStr(l []any) []string {
	out := []string{}
	for _, e := range l {
		out = append(out, fmt.Sprint(e))
	}
	sort.Strings(out)
	return out
}

// vfC09pmWalk executes one walk in its own bubble.
func vfC09pmWalk(t *testing.T, res *vfh.Result, cfg vfC09pmCfg, w vfh.Walk) {
	synctest.Test(t, func(t *testing.T) {
		h := vfC09pmNew(cfg.peers, time.Duration(cfg.g)*vfC09pmUnit, time.Duration(cfg.i)*vfC09pmUnit, cfg.buf, cfg.atomic)
		if err := h.newManager(cfg.defaultInt); err != nil {
			t.Fatalf("NewPeerstoreManager: %v", err)
		}
		if cfg.initData {
			for _, p := range cfg.peers {
				h.learn(p)
			}
		}
		var prefix []vfh.Op
		step := -1
		mism := func(cls, what string, exp, got any) {
			res.AddMismatch(vfh.Mismatch{Class: cls, What: fmt.Sprintf("[%s] %s", cfg.name, what), Walk: w.Walk, Step: step, Expected: exp, Got: got,
				Prefix: append([]vfh.Op(nil), prefix...), Cfg: map[string]any{"instance": cfg.name, "G": cfg.g, "I": cfg.i, "Buf": cfg.buf, "atomic": cfg.atomic, "peers": cfg.peers, "initData": cfg.initData}})
		}
		rep := func(cls, what string) { mism(cls, what, nil, nil) }
		prevRaw := []byte(w.Init)
		steps := 0
		aborted := false
		for si, st := range w.Steps {
			step = si
			op := st.Op
			prefix = append(prefix, op)
			before := map[string]map[string]bool{}
			for _, p := range cfg.peers {
				before[p] = h.books(p)
			}
			var want vfC09pmState
			if !cfg.monOnly {
				if err := json.Unmarshal(st.State, &want); err != nil {
					t.Fatalf("state: %v", err)
				}
			}
			ok := true
			switch op.Name() {
			case "start":
				h.started, h.startAt, h.closeDoneAtStart = true, h.since(), h.closeDone
				h.m.Start()
				synctest.Wait()
			case "emit":
				h.emit(op.S("p"), op.S("k"))
			case "setnet":
				h.mu.Lock()
				h.netVal[op.S("p")] = h.concrete(op.S("k"))
				h.mu.Unlock()
			case "learn":
				h.learn(op.S("p"))
			case "advance":
				time.Sleep(vfC09pmUnit)
				synctest.Wait()
			case "close":
				h.closeCall()
			case "recv":
				ok = h.grant(vfC09pmDecision{})
			case "tick", "exit":
				if op.Name() == "tick" {
					h.tickGranted, h.lastTickGrant = true, h.since()
				}
				ok = h.grant(vfC09pmDecision{nilch: true})
			case "query":
				pos, pp := h.where()
				if pos != "scan" || pp != op.S("p") {
					ok = false
				} else {
					ok = h.grant(vfC09pmDecision{})
				}
			case "apply":
				pos, _ := h.where()
				if pos != "asked" {
					ok = false
				} else {
					ok = h.grant(vfC09pmDecision{})
				}
			default:
				t.Fatalf("unknown op %q", op.Name())
			}
			steps++
			queries, removes := h.collect(rep)
			if !ok {
				pos, pp := h.where()
				mism("L2:position", fmt.Sprintf("the loop is not where the model has it before %s", op.Name()), op, pos+"/"+pp)
				aborted = true
			}
			pos, pp := h.where()
			if !cfg.monOnly {
				// ---- observables against the model
				if !aborted {
					gotPc := pos
					if gotPc != want.Pc {
						mism("L2:position", fmt.Sprintf("after %s the loop is at %s/%s, model %s", op.Name(), pos, pp, want.Pc), want.Pc, pos+"/"+pp)
						aborted = true
					} else if pos == "asked" && pp != want.Cur {
						mism("L2:position", "network asked about another peer", want.Cur, pp)
						aborted = true
					} else if pos == "scan" {
						found := false
						for _, q := range want.Todo {
							found = found || q == pp
						}
						if !found {
							mism("L2:position", "network about to be asked about a peer that is not overdue in the model", want.Todo, pp)
							aborted = true
						}
					}
				}
				if got := int(h.since() / vfC09pmUnit); got != want.Time {
					t.Fatalf("virtual clock %d, model %d", got, want.Time)
				}
				for _, p := range cfg.peers {
					b := h.books(p)
					for _, bk := range vfC09pmBooks {
						if b[bk] != want.Data[p] {
							mism("pm-data-differs-from-model:"+bk, fmt.Sprintf("after %s: %s in the %s book: %v, model %v", op.Name(), p, bk, b[bk], want.Data[p]), want.Data, b)
							aborted = true
						}
					}
					if b["addrs"] != want.Addr[p] {
						mism("pm-addresses-differ-from-model", fmt.Sprintf("after %s: %s has addresses: %v, model %v", op.Name(), p, b["addrs"], want.Addr[p]), want.Addr, b)
						aborted = true
					}
					// K5: a step that names one peer leaves the others alone
					if q := op.S("p"); q != "" && q != p {
						for k, v := range before[p] {
							if v != b[k] {
								rep("pm-step-for-one-peer-changed-another", fmt.Sprintf("%s(%s) changed the %s book of %s", op.Name(), q, k, p))
							}
						}
					}
					if before[p]["addrs"] && !b["addrs"] {
						rep("pm-addresses-removed", fmt.Sprintf("%s: the permanent address of %s disappeared", op.Name(), p))
					}
				}
				if got := h.qlen(); got != len(want.Q) && !aborted {
					mism("L2:queue", fmt.Sprintf("after %s: %d events wait in the subscription, model %d", op.Name(), got, len(want.Q)), len(want.Q), got)
					aborted = true
				}
				if got := h.stalledEmits() > 0; got != want.Stalled {
					mism("pm-publisher-blocking", fmt.Sprintf("after %s: publisher blocked: %v, model %v (buffer %d, waiting %d)", op.Name(), got, want.Stalled, cfg.buf, h.qlen()), want.Stalled, got)
					aborted = true
				}
				if got := h.closeWaiting(); got != want.Nwait {
					cls := "pm-close-returned-before-loop-ended"
					if got > want.Nwait {
						cls = "pm-close-does-not-return"
					}
					mism(cls, fmt.Sprintf("after %s: %d Close calls waiting, model %d", op.Name(), got, want.Nwait), want.Nwait, got)
					aborted = true
				}
				if got := h.subscribed(); got != want.Sub && !aborted {
					mism("L2:subscription", fmt.Sprintf("after %s: subscribed %v, model %v", op.Name(), got, want.Sub), want.Sub, got)
				}
				// ---- per-op expectations
				switch op.Name() {
				case "tick":
					if cfg.atomic {
						gq, gr := []string{}, []string{}
						for _, l := range queries {
							gq = append(gq, l.peer)
						}
						for _, l := range removes {
							gr = append(gr, l.peer)
						}
						sort.Strings(gq)
						sort.Strings(gr)
						if wq := vfC09pmSetStr(op.L("overdue")); vfh.Canon(wq) != vfh.Canon(gq) {
							mism("L2:asked-set", "cleanup run asked the network about other peers than the model", wq, gq)
						}
						if wr := vfC09pmSetStr(op.L("removed")); vfh.Canon(wr) != vfh.Canon(gr) {
							mism("L2:removed-set", "cleanup run called RemovePeer for other peers than the model", wr, gr)
						}
					}
				case "query":
					if len(queries) != 1 || vfC09pmKind(queries[0].reply) != op.S("reply") {
						mism("L2:query", "the network stub was not asked exactly once with the model's answer", op, fmt.Sprint(queries))
					}
				case "apply":
					if (len(removes) == 1) != op.B("removed") {
						mism("L2:removed-set", "RemovePeer call differs from the model", op, fmt.Sprint(removes))
					}
				case "exit":
					gr := []string{}
					for _, l := range removes {
						gr = append(gr, l.peer)
					}
					sort.Strings(gr)
					if wr := vfC09pmSetStr(op.L("removed")); vfh.Canon(wr) != vfh.Canon(gr) {
						mism("L2:removed-set", "the exiting loop called RemovePeer for other peers than the model", wr, gr)
					}
				}
			}
			// K4 at rest
			if pos == "idle" || pos == "running" {
				h.timely(rep)
			}
			res.Case(vfC09pmHash([]byte(cfg.name), prevRaw, []byte(vfh.Canon(op)), st.State))
			prevRaw = st.State
			if aborted {
				break
			}
		}
		res.Count(1, steps)
		perPeer := map[string]int{}
		for _, l := range h.logs {
			if l.kind == "remove" {
				perPeer[l.peer]++
				if perPeer[l.peer] == 2 {
					res.Inc("second_removals", 1)
				}
			}
		}
		if len(res.Samples) < 2 && len(w.Steps) > 6 {
			res.Sample(map[string]any{"instance": cfg.name, "walk": w.Walk, "ops": prefix})
		}
		step = len(w.Steps)
		h.finish(rep)
		h.collect(rep)
	})
}

func vfC09pmCfgOf(hdr map[string]any) vfC09pmCfg {
	c := vfC09pmCfg{name: fmt.Sprint(hdr["instance"])}
	for _, p := range hdr["peers"].([]any) {
		c.peers = append(c.peers, fmt.Sprint(p))
	}
	num := func(k string) int { f, _ := hdr[k].(float64); return int(f) }
	c.g, c.i, c.buf = num("G"), num("I"), num("Buf")
	c.atomic, _ = hdr["atomic"].(bool)
	c.initData, _ = hdr["initData"].(bool)
	c.defaultInt = c.g == 2*c.i // exercise the manager's own default (gracePeriod / 2)
	c.monOnly, _ = hdr["monitorsOnly"].(bool)
	return c
}

func TestVerifC09pmReplay(t *testing.T) {
	res := vfh.NewResult()
	res.Rule = "distinct = distinct (instance, source state, op, target state) transitions of the printed graphs executed on the real manager"
	files, _ := filepath.Glob(filepath.Join(vfh.In(), "*.jsonl"))
	sort.Strings(files)
	if len(files) == 0 {
		t.Fatal("no behaviour files in VERIF_IN")
	}
	type job struct {
		cfg vfC09pmCfg
		w   vfh.Walk
	}
	var jobs []job
	for _, f := range files {
		hdr, walks, err := vfh.LoadWalks(f)
		if err != nil {
			t.Fatal(err)
		}
		cfg := vfC09pmCfgOf(hdr)
		for _, w := range walks {
			jobs = append(jobs, job{cfg, w})
		}
	}
	shards := 4
	t.Run("walks", func(t *testing.T) {
		for s := 0; s < shards; s++ {
			s := s
			t.Run(fmt.Sprintf("shard%d", s), func(t *testing.T) {
				t.Parallel()
				for i := s; i < len(jobs); i += shards {
					vfC09pmWalk(t, res, jobs[i].cfg, jobs[i].w)
				}
			})
		}
	})
	if err := res.Write(); err != nil {
		t.Fatal(err)
	}
	fmt.Fprintf(os.Stderr, "C09pm replay: %d walks, %d steps, %d mismatches\n", res.Replayed, res.Steps, res.NMismatch())
}
