//go:build verif

package pstoremanager

// Scenario part of C09pm: the production configuration and the calls the bounded model leaves out.
// Everything runs in testing/synctest bubbles; verdicts depend on virtual instants only.

import (
	"encoding/json"
	"fmt"
	"os"
	"path/filepath"
	"testing"
	"testing/synctest"
	"time"

	"github.com/libp2p/go-libp2p/core/network"
	"github.com/libp2p/go-libp2p/internal/vfh"
)

type vfC09pmScen struct {
	res  *vfh.Result
	name string
}

func (s *vfC09pmScen) rep(cls, what string) {
	s.res.AddMismatch(vfh.Mismatch{Class: cls, What: "[" + s.name + "] " + what, Walk: -1, Step: -1})
}

// removalInstant returns the instant of the first RemovePeer of p logged so far (-1: none).
func (h *vfC09pmH) removalInstant(p string) time.Duration {
	h.mu.Lock()
	defer h.mu.Unlock()
	for _, l := range h.logs {
		if l.kind == "remove" && l.peer == p {
			return l.at
		}
	}
	return -1
}

func (h *vfC09pmH) nRemoves() int {
	h.mu.Lock()
	defer h.mu.Unlock()
	n := 0
	for _, l := range h.logs {
		if l.kind == "remove" {
			n++
		}
	}
	return n
}

func (h *vfC09pmH) hasAllBooks(p string) bool {
	b := h.books(p)
	return b["keys"] && b["protocols"] && b["metadata"] && b["metrics"] && b["addrs"]
}

// vfC09pmBoundary: a gate-free manager with grace g and interval i (started at instant 0); a disconnect event at
// instant d, optionally a Connected event at instant c (c < 0: none) and the network reporting `netKind` throughout.
func vfC09pmBoundary(t *testing.T, sc *vfC09pmScen, g, i, d, c time.Duration, netKind string) {
	synctest.Test(t, func(t *testing.T) {
		h := vfC09pmNew([]string{"p1", "p2"}, g, i, 0, true)
		h.free = true
		if err := h.newManager(false); err != nil {
			t.Fatal(err)
		}
		h.learn("p1")
		h.learn("p2")
		h.netVal["p1"] = h.concrete(netKind)
		h.started = true
		h.m.Start()
		synctest.Wait()
		time.Sleep(d)
		h.emit("p1", "N")
		if c >= 0 {
			time.Sleep(c - d)
			h.emit("p1", "C")
		}
		horizon := d + g + 3*i
		time.Sleep(horizon - h.since())
		synctest.Wait()
		got := h.removalInstant("p1")
		// the first instant of the ticker strictly later than d + g
		want := ((d+g)/i + 1) * i
		reconnected := c >= 0 && c < want
		tag := fmt.Sprintf("grace %v interval %v disconnect at %v reconnect at %v network %s", g, i, d, c, netKind)
		switch {
		case reconnected || netKind != "N":
			if got >= 0 {
				cls := "pm-removed-without-remembered-disconnect"
				if !reconnected {
					cls = "pm-removed-while-connected"
				}
				sc.rep(cls, fmt.Sprintf("%s: removed at %v", tag, got))
			}
			if !h.hasAllBooks("p1") {
				sc.rep("pm-data-lost", tag+": data of the peer is gone")
			}
		case got < 0:
			sc.rep("pm-not-cleaned-in-time", fmt.Sprintf("%s: not removed by %v", tag, horizon))
		case got <= d+g:
			sc.rep("pm-removed-before-grace-period", fmt.Sprintf("%s: removed at %v", tag, got))
		case got > d+g+i:
			sc.rep("pm-not-cleaned-in-time", fmt.Sprintf("%s: removed only at %v", tag, got))
		case got != want:
			sc.rep("L2:removal-instant", fmt.Sprintf("%s: removed at %v, model %v", tag, got, want))
		}
		if h.removalInstant("p2") >= 0 || !h.hasAllBooks("p2") {
			sc.rep("pm-step-for-one-peer-changed-another", tag+": the bystander lost data")
		}
		if got >= 0 {
			b := h.books("p1")
			if !b["addrs"] {
				sc.rep("pm-addresses-removed", tag+": the permanent address disappeared with RemovePeer")
			}
		}
		h.finish(sc.rep)
		sc.res.Inc("boundary_cases", 1)
		sc.res.Count(1, 1)
	})
}

func TestVerifC09pmScenarios(t *testing.T) {
	res := vfh.NewResult()
	sc := &vfC09pmScen{res: res}

	// ---- production configuration: grace 1 min, interval grace/2, buffer 16, subscription name
	sc.name = "defaults"
	synctest.Test(t, func(t *testing.T) {
		h := vfC09pmNew([]string{"p1", "p2"}, time.Minute, 30*time.Second, 0, true)
		m, err := NewPeerstoreManager(&vfC09pmPS{Peerstore: h.ps, h: h}, &vfC09pmBus{Bus: h.bus, h: h}, &vfC09pmNet{h: h})
		if err != nil {
			t.Fatal(err)
		}
		h.m = m
		h.learn("p1")
		h.learn("p2")
		h.started = true
		m.Start()
		synctest.Wait()
		if len(h.subs) != 1 {
			t.Fatalf("Start made %d subscriptions", len(h.subs))
		}
		if c := cap(h.subs[0].Subscription.Out()); c != 16 {
			sc.rep("L2:default-buffer", fmt.Sprintf("the manager's subscription holds %d events, model 16", c))
		} else {
			res.Set("default_buffer", c)
		}
		if n := h.subs[0].Name(); n != "pstoremanager" {
			sc.rep("L2:subscription-name", "subscription name "+n)
		}
		// the loop is parked at the select: 16 events are accepted, the 17th blocks its publisher
		for k := 0; k < 16; k++ {
			kind := "N"
			if k%2 == 1 {
				kind = "C"
			}
			h.emit("p1", kind)
			if h.stalledEmits() != 0 {
				sc.rep("pm-publisher-blocking", fmt.Sprintf("Emit %d of 16 blocked", k+1))
			}
		}
		h.emit("p2", "N")
		if h.stalledEmits() != 1 {
			sc.rep("pm-publisher-blocking", "the 17th Emit did not block on the full subscription")
		}
		h.grant(vfC09pmDecision{})
		if h.stalledEmits() != 0 {
			sc.rep("pm-publisher-not-released", "the blocked Emit was not released by the next receive")
		}
		h.mu.Lock()
		h.free = true
		h.mu.Unlock()
		h.gate <- vfC09pmDecision{}
		synctest.Wait()
		// all 17 processed in order: p1 ends connected (kept), p2 is removed at the first tick later than 1 min: 90 s
		time.Sleep(2 * time.Minute)
		synctest.Wait()
		if got := h.removalInstant("p2"); got != 90*time.Second {
			cls := "L2:removal-instant"
			if got >= 0 && got <= time.Minute {
				cls = "pm-removed-before-grace-period"
			} else if got < 0 || got > 90*time.Second {
				cls = "pm-not-cleaned-in-time"
			}
			sc.rep(cls, fmt.Sprintf("default configuration: disconnect at 0, removed at %v, model 1m30s", got))
		}
		if h.removalInstant("p1") >= 0 || !h.hasAllBooks("p1") {
			sc.rep("pm-removed-without-remembered-disconnect", "p1's last event was Connected, yet it was removed (event lost or reordered?)")
		}
		h.finish(sc.rep)
		res.Count(1, 20)
	})

	// ---- removal instants 1 ns around every tick and around tick - grace, gate-free
	sc.name = "boundary"
	for _, gi := range [][2]time.Duration{{10 * time.Second, 4 * time.Second}, {10 * time.Second, 5 * time.Second}, {3 * time.Second, 7 * time.Second}} {
		g, i := gi[0], gi[1]
		seen := map[time.Duration]bool{}
		for k := time.Duration(0); k <= 3; k++ {
			for _, base := range []time.Duration{k * i, (k+3)*i - g} {
				for _, eps := range []time.Duration{-1, 0, 1} {
					d := base + eps
					if d < 0 || seen[d] {
						continue
					}
					seen[d] = true
					vfC09pmBoundary(t, sc, g, i, d, -1, "N")
				}
			}
		}
		// reconnect 1 ns before / at / after the removing tick; network connected without any event
		d := i + 1
		want := ((d+g)/i + 1) * i
		for _, c := range []time.Duration{d + 1, want - 1, want + 1} {
			vfC09pmBoundary(t, sc, g, i, d, c, "N")
		}
		vfC09pmBoundary(t, sc, g, i, d, -1, "C")
		vfC09pmBoundary(t, sc, g, i, d, -1, "L")
	}

	// ---- Close without Start, Close twice, events after Close
	sc.name = "close"
	synctest.Test(t, func(t *testing.T) {
		h := vfC09pmNew([]string{"p1"}, 20*time.Second, 10*time.Second, 0, true)
		h.free = true
		if err := h.newManager(true); err != nil {
			t.Fatal(err)
		}
		h.learn("p1")
		h.closeCall()
		if h.closeWaiting() != 0 {
			sc.rep("pm-close-does-not-return", "Close before Start blocks")
		}
		h.emit("p1", "N")
		time.Sleep(time.Minute)
		synctest.Wait()
		if h.nRemoves() != 0 || len(h.subs) != 0 {
			sc.rep("pm-active-without-start", "a manager that was never started subscribed or removed something")
		}
		res.Set("close_without_start", true)
		// Start still works after that Close; a peer disconnected for less than the grace period goes at Close
		h.started = true
		h.m.Start()
		synctest.Wait()
		h.emit("p1", "N")
		time.Sleep(5 * time.Second)
		h.closeCall()
		h.closeCall()
		if h.closeWaiting() != 0 {
			sc.rep("pm-close-does-not-return", "Close (twice) after Start blocks")
		}
		if h.removalInstant("p1") != h.since() {
			sc.rep("pm-close-left-disconnected-peer", fmt.Sprintf("Close did not remove the disconnected peer (removal instant %v)", h.removalInstant("p1")))
		}
		if h.subscribed() {
			sc.rep("pm-active-after-close", "still subscribed after Close")
		}
		n := h.nRemoves()
		h.learn("p1")
		h.emit("p1", "N")
		time.Sleep(2 * time.Minute)
		synctest.Wait()
		if h.nRemoves() != n || !h.hasAllBooks("p1") || h.stalledEmits() != 0 {
			sc.rep("pm-active-after-close", "something was removed, or a publisher blocked, after Close had returned")
		}
		h.finish(sc.rep)
		res.Count(1, 10)
	})

	// ---- Subscribe fails: Start gives up (logged), Close still returns
	sc.name = "subscribe-fails"
	synctest.Test(t, func(t *testing.T) {
		h := vfC09pmNew([]string{"p1"}, 20*time.Second, 10*time.Second, 0, true)
		h.free = true
		h.failSubscribe = true
		if err := h.newManager(true); err != nil {
			t.Fatal(err)
		}
		h.learn("p1")
		h.m.Start()
		synctest.Wait()
		h.emit("p1", "N")
		time.Sleep(time.Minute)
		h.closeCall()
		if h.closeWaiting() != 0 {
			sc.rep("pm-close-does-not-return", "Close blocks after a Start whose subscription failed")
		}
		if h.nRemoves() != 0 {
			sc.rep("pm-removed-without-remembered-disconnect", "removal without a subscription")
		}
		h.finish(sc.rep)
		res.Count(1, 4)
	})

	// ---- Start twice (not promised; characterised): the first loop cannot be cancelled any more
	sc.name = "start-twice"
	synctest.Test(t, func(t *testing.T) {
		h := vfC09pmNew([]string{"p1"}, 20*time.Second, 10*time.Second, 0, true)
		h.free = true
		if err := h.newManager(true); err != nil {
			t.Fatal(err)
		}
		h.learn("p1")
		h.m.Start()
		h.m.Start()
		synctest.Wait()
		h.closeStart++
		go func() {
			h.m.Close()
			h.mu.Lock()
			h.closeDone++
			h.mu.Unlock()
		}()
		time.Sleep(10 * time.Minute)
		synctest.Wait()
		hangs := h.closeWaiting() > 0
		res.Set("start_twice_close_hangs", hangs)
		if hangs {
			sc.rep("L2:start-twice-close-never-returns", "after two Start calls Close never returns: the first loop's cancel function was overwritten (API misuse, not promised)")
		}
		for _, s := range h.subs { // ends the first loop through its closed channel
			s.Subscription.Close()
		}
		synctest.Wait()
		if h.closeWaiting() > 0 {
			t.Fatal("cannot end the first loop of the start-twice scenario")
		}
		h.em.Close()
		h.ps.Close()
		res.Count(1, 3)
	})
	_ = network.Connected

	b, err := json.MarshalIndent(map[string]any{"replayed": res.Replayed, "steps": res.Steps, "mismatches": res.Mismatches,
		"samples": []any{}, "extra": res.Extra}, "", " ")
	if err != nil {
		t.Fatal(err)
	}
	if vfh.Out() == "" {
		fmt.Println(string(b))
		return
	}
	d := filepath.Join(vfh.Out(), "scenarios")
	os.MkdirAll(d, 0o755)
	if err := os.WriteFile(filepath.Join(d, "result.json"), b, 0o644); err != nil {
		t.Fatal(err)
	}
}
