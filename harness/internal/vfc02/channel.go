package vfc02

import (
	"encoding/json"
	"errors"
	"fmt"
	"io"
	"os"
	"path/filepath"
	"runtime/debug"
	"sort"
	"sync"

	"github.com/libp2p/go-libp2p/internal/vfh"
)

// ---------------------------------------------------------------------------------------------
// Replay of spec/C02_Channel.tla behaviours on a real framed, authenticated channel

// ChanProj is the in-package projection of the reader/writer (L2 only).
type ChanProj struct {
	QLive    bool
	QLen     int
	QSeek    int
	RNonce   uint64
	WNonce   uint64
	Buffered int // bytes the reader holds in front of the decryption (bufio)
}

// ChanSession is one secured pair, one direction under test.
type ChanSession struct {
	W    io.Writer
	R    io.Reader
	Wire *Wire            // the bytes in flight from W to R
	Proj func() *ChanProj // nil: L1 only
	// the reverse direction of the same pair (R's side writes, W's side reads)
	RevW    io.Writer
	RevR    io.Reader
	RevWire *Wire
	// After runs after every step with the real lengths (frame incl. tag) of the frames just handled; the
	// harness of a layer with pooled buffers checks the pool there.  It returns a description of an
	// inconsistency it found (L2), "" otherwise.
	After func(frameLens ...int) string
	Close func()
	Note  string
}

type ChanCfg struct {
	Layer  string
	Scale  Scale
	LenOff []int // header offsets whose alteration breaks the framing ("fliplen")
	Exact  bool  // model frames and real frames correspond one to one (Noise); otherwise L1 only (TLS)
	Share  int   // replay one walk in Share (seeded choice), 0/1 = all
	New    func(walk int) (*ChanSession, error)
}

// model state as printed by C02_MC!St
type chanState struct {
	NSent, WNonce, RNonce int
	Wire                  []chanFrame
	Closed, QLive         bool
	QLen, QSeek           int
	Broken                bool
	NDel                  int
	RdErr                 bool
	Under, NFault, ErrPos int
	StopPos               int
	RG                    string
	WG, Loose             bool
	NGlitch               int
	WDead                 bool
	WR                    bool
}
type chanFrame struct {
	N, Len int
	St     string
}

func decodeChanState(raw json.RawMessage) (chanState, error) {
	var a []json.RawMessage
	var s chanState
	if err := json.Unmarshal(raw, &a); err != nil {
		return s, err
	}
	if len(a) != 21 {
		return s, fmt.Errorf("state has %d fields", len(a))
	}
	ints := []*int{&s.NSent, &s.WNonce, &s.RNonce, nil, nil, nil, &s.QLen, &s.QSeek, nil, &s.NDel, nil, &s.Under, &s.NFault, &s.ErrPos,
		&s.StopPos, nil, nil, nil, &s.NGlitch, nil, nil}
	bools := []*bool{nil, nil, nil, nil, &s.Closed, &s.QLive, nil, nil, &s.Broken, nil, &s.RdErr, nil, nil, nil,
		nil, nil, &s.WG, &s.Loose, nil, &s.WDead, &s.WR}
	for i := range a {
		var err error
		switch {
		case i == 15:
			err = json.Unmarshal(a[i], &s.RG)
		case ints[i] != nil:
			err = json.Unmarshal(a[i], ints[i])
		case bools[i] != nil:
			err = json.Unmarshal(a[i], bools[i])
		case i == 3:
			var fr [][]any
			if err = json.Unmarshal(a[i], &fr); err == nil {
				for _, f := range fr {
					if len(f) != 3 {
						return s, fmt.Errorf("bad frame %v", f)
					}
					n, _ := f[0].(float64)
					l, _ := f[1].(float64)
					st, _ := f[2].(string)
					s.Wire = append(s.Wire, chanFrame{int(n), int(l), st})
				}
			}
		}
		if err != nil {
			return s, err
		}
	}
	return s, nil
}

func minInt(a, b int) int {
	if a < b {
		return a
	}
	return b
}

type chanRun struct {
	cfg    ChanCfg
	res    *vfh.Result
	pick   Picker
	mPT    int // model MaxPT
	file   string
	walk   vfh.Walk
	sess   *ChanSession
	led    *Ledger
	log    []any
	realPT map[int]int // model nonce -> real plaintext length of that frame
	rem    int         // real queued remainder the harness expects
	buf    []byte
	faulty bool
	// real length (plaintext + tag) of the frame the reader took most recently / the writer sent most recently
	lastFrame, lastSent int
	shortWritten        bool
	endLoose            bool
	loose               bool       // a glitch of the connection reached the reader: only L1 from here on
	rev                 *Ledger    // reverse direction of the same pair
	peer                **chanPeer // the worker's second live pair
}

// chanPeer is a second live session pair of the same process (it shares the buffer pool).
type chanPeer struct {
	sess *ChanSession
	led  *Ledger
}

func (r *chanRun) mismatch(step int, class, what string, exp, got any) {
	r.res.AddMismatch(vfh.Mismatch{Class: class, What: fmt.Sprintf("[%s %s walk %d] %s", r.cfg.Layer, filepath.Base(r.file), r.walk.Walk, what),
		Walk: r.walk.Walk, Step: step, Expected: exp, Got: got, Prefix: append([]any(nil), r.log...),
		Cfg: map[string]any{"layer": r.cfg.Layer, "file": filepath.Base(r.file), "round": r.pick.Round, "note": r.sess.Note,
			"scale": fmt.Sprintf("maxpt=%d tag=%d", r.cfg.Scale.MaxPT, r.cfg.Scale.Tag)}})
}

func (r *chanRun) l1(step int, p *Problem) bool {
	if p == nil {
		return false
	}
	r.mismatch(step, p.Class, p.What, p.Expected, p.Got)
	return true
}

func isDry(err error) bool { return errors.Is(err, ErrDry) }

// codePanic marks a panic raised inside a call into the code under test.
type codePanic struct {
	call string
	val  any
}

// Guard runs one call into the code under test; a panic in it is re-raised as codePanic so that the
// walk's recover can tell it from a bug of the harness.
func Guard(call string, f func()) {
	defer func() {
		if p := recover(); p != nil {
			panic(codePanic{call, p})
		}
	}()
	f()
}

// CodePanic reports whether a recovered value comes from Guard, and describes it.
func CodePanic(p any) (string, bool) {
	if cp, ok := p.(codePanic); ok {
		return fmt.Sprintf("panic in %s: %v", cp.call, cp.val), true
	}
	return "", false
}

// framesInFlightPT sums the plaintext carried by the frames in flight from index idx on.
func (r *chanRun) ptOf(frameLen int) int {
	n := frameLen - r.cfg.Scale.Prefix - r.cfg.Scale.Tag
	if n < 0 {
		n = 0
	}
	return n
}

func (r *chanRun) run() {
	cfg, sc := r.cfg, r.cfg.Scale
	w := r.walk
	defer func() {
		if p := recover(); p != nil {
			if r.sess == nil {
				r.sess = &ChanSession{}
			}
			if cp, ok := p.(codePanic); ok {
				// a panic inside Read/Write of the code under test is an observable failure of the channel
				r.mismatch(len(r.log), cfg.Layer+"-panic", fmt.Sprintf("panic in %s: %v", cp.call, cp.val), "no panic", fmt.Sprint(cp.val))
				return
			}
			r.mismatch(len(r.log), "MACHINERY", fmt.Sprintf("panic in the harness: %v\n%s", p, debug.Stack()), nil, nil)
		}
	}()
	for _, st := range w.Steps {
		if st.Op.Name() == "fault" {
			r.faulty = true
		}
	}
	sess, err := cfg.New(w.Walk)
	if err != nil {
		r.res.AddMismatch(vfh.Mismatch{Class: "MACHINERY", What: "cannot build session: " + err.Error(), Walk: w.Walk})
		return
	}
	r.sess = sess
	defer sess.Close()
	wire := sess.Wire
	wire.SetBlocking(false)
	// coalesced segments only where no fault will be applied later (a fault needs the frame still in flight)
	cross := !r.faulty && r.pick.Index(2, w.Walk, 7777) == 0
	wire.SetCross(cross)
	r.led = NewLedger(cfg.Layer, Content(0), true)
	r.realPT = map[int]int{}
	prev, err := decodeChanState(w.Init)
	if err != nil {
		r.res.AddMismatch(vfh.Mismatch{Class: "MACHINERY", What: "bad init state: " + err.Error(), Walk: w.Walk})
		return
	}
	steps := 0
	stop := false
	diverged := false
	for si, st := range w.Steps {
		if stop || diverged || r.endLoose {
			break
		}
		op := st.Op
		next, err := decodeChanState(st.State)
		if err != nil {
			r.res.AddMismatch(vfh.Mismatch{Class: "MACHINERY", What: "bad state: " + err.Error(), Walk: w.Walk, Step: si})
			return
		}
		steps++
		switch op.Name() {
		case "write":
			k := op.I("k")
			K := sc.WriteLen(k, r.mPT, r.pick, w.Walk, si)
			before := wire.Framed()
			beforeBytes := wire.Written
			short := op.B("short")
			if short {
				wire.InjectShortWrite() // the connection takes a part of the next write and times out
			}
			refused := op.B("refused")
			if refused {
				wire.InjectRefuseWrite() // the connection refuses the next write whole: 0 bytes, an error, nothing on the wire
			}
			var n int
			var werr error
			Guard(fmt.Sprintf("Write(%d bytes)", K), func() { n, werr = sess.W.Write(r.led.Next(K)) })
			r.log = append(r.log, map[string]any{"op": "write", "k": k, "real": K, "short": short, "n": n, "err": fmt.Sprint(werr)})
			r.lastSent = minInt(K, sc.MaxPT) + sc.Tag
			if r.l1(si, r.led.OnWrite(K, n, werr)) {
				stop = true
				break
			}
			if refused {
				// Nothing of this Write is on the wire.  The caller goes on; the bytes of the writes that report
				// success from here on arrive unmodified and in order, or the reader fails (an authenticated
				// channel whose frame counter moved on cannot do better than fail): it never gets a wrong byte.
				r.res.Case("write/refused")
				if werr == nil || n != 0 {
					r.mismatch(si, "L2:"+cfg.Layer+"-refused-write", fmt.Sprintf("the refusal of the connection was not reported as (0, error): Write(%d) = (%d, %v)", K, n, werr), "0, error", n)
				}
				r.led.MarkFault(r.led.Written)
				r.shortWritten = true
				break
			}
			if short {
				// what Write reported is what was accepted; a part of a frame (or of a record) is in flight behind
				// it, so the reader can get at most to the end of the accepted bytes and then fails or waits
				r.res.Case("write/short")
				if werr == nil {
					r.mismatch(si, "L2:"+cfg.Layer+"-short-write", fmt.Sprintf("the short write of the connection was not reported: Write(%d) = (%d, nil)", K, n), "error", "nil")
				}
				r.led.MarkFault(r.led.Written)
				r.shortWritten = true
				break
			}
			if (n != K || werr != nil) && !r.shortWritten {
				r.mismatch(si, "L2:"+cfg.Layer+"-write-result", fmt.Sprintf("Write(%d) = (%d, %v) on a healthy connection", K, n, werr), K, n)
			}
			r.res.Case(fmt.Sprintf("write/%d/%d", k/r.mPT, k%r.mPT))
			if cfg.Exact {
				// chunking: q full frames and the partial one, consecutive nonces
				nf := wire.Framed() - before
				want := (K + sc.MaxPT - 1) / sc.MaxPT
				wantBytes := int64(K + want*(sc.Prefix+sc.Tag))
				if nf != want || wire.Written-beforeBytes != wantBytes {
					r.mismatch(si, "L2:"+cfg.Layer+"-chunking", fmt.Sprintf("Write(%d) put %d frames / %d bytes on the wire", K, nf, wire.Written-beforeBytes),
						[]any{want, wantBytes}, []any{nf, wire.Written - beforeBytes})
				}
				for j := 0; j < want; j++ {
					r.realPT[prev.WNonce+j] = minInt(sc.MaxPT, K-j*sc.MaxPT)
				}
			}
		case "short":
			c := sc.ShortCap(op.I("k"), r.pick, w.Walk, si)
			wire.SetCap(c)
			r.log = append(r.log, map[string]any{"op": "short", "k": op.I("k"), "real": c})
			r.res.Case(fmt.Sprintf("short/%d", op.I("k")))
		case "glitch":
			// armed right in front of the call the model lets it hit
			r.log = append(r.log, map[string]any{"op": "glitch", "kind": op.S("kind")})
			r.res.Case("glitch/" + op.S("kind"))
		case "other":
			if !r.other(si, op) {
				stop = true
			}
		case "fault":
			applied, abandon := r.applyFault(si, op, prev)
			if !applied {
				steps--
			}
			if abandon {
				// the real wire no longer matches the model (an L2 divergence was noted): the fault cannot be placed
				// as modelled, the rest of the walk is given up and the run is judged by the drain (L1)
				diverged = true
			}
		case "read":
			if !r.read(si, op, prev, next) {
				stop = true
			}
		default:
			r.res.AddMismatch(vfh.Mismatch{Class: "MACHINERY", What: "unknown op " + op.Name(), Walk: w.Walk, Step: si})
			return
		}
		if sess.After != nil && !stop && (op.Name() == "read" || op.Name() == "write" || op.Name() == "other") {
			if what := sess.After(r.lastFrame, r.lastSent); what != "" {
				r.mismatch(si, "L2:"+cfg.Layer+"-pool", what, nil, nil)
			}
		}
		if cfg.Exact && sess.Proj != nil && !stop && !diverged && !r.loose && !r.shortWritten {
			r.project(si, op, next, cross)
		}
		prev = next
	}
	if !stop {
		r.drain(len(w.Steps))
	}
	r.res.Count(1, steps)
	if (r.faulty && len(r.log) >= 6 && w.Walk%97 == 0) || os.Getenv("VERIF_C02_ONLY") != "" {
		r.res.Sample(map[string]any{"layer": cfg.Layer, "walk": w.Walk, "file": filepath.Base(r.file), "executed": append([]any(nil), r.log...)})
	}
}

// project compares the in-package state with the model (L2).
func (r *chanRun) project(si int, op vfh.Op, m chanState, cross bool) {
	p := r.sess.Proj()
	type proj struct {
		QLive     bool
		Remainder bool
		WNonce    int
		RNonce    int
	}
	got := proj{p.QLive, p.QLive && p.QLen-p.QSeek > 0, int(p.WNonce), int(p.RNonce)}
	want := proj{m.QLive, m.QLive && m.QLen-m.QSeek > 0, m.WNonce, m.RNonce}
	if got != want {
		r.mismatch(si, "L2:"+r.cfg.Layer+"-state", fmt.Sprintf("reader/writer state after %s differs from the model", op.Name()), want, got)
	}
	if p.QLive && !m.Broken && p.QLen-p.QSeek != r.rem {
		r.mismatch(si, "L2:"+r.cfg.Layer+"-remainder", "queued remainder differs from the harness ledger", r.rem, p.QLen-p.QSeek)
	}
	if !cross && !m.Broken && r.sess.Wire.NFrames() != len(m.Wire) {
		r.mismatch(si, "L2:"+r.cfg.Layer+"-wire", "frames in flight differ from the model", len(m.Wire), r.sess.Wire.NFrames())
	}
}

func (r *chanRun) read(si int, op vfh.Op, prev, next chanState) bool {
	cfg, sc, wire := r.cfg, r.cfg.Scale, r.sess.Wire
	path, rel := op.S("path"), op.S("rel")
	keep := 0
	if next.QLive {
		keep = next.QLen - next.QSeek
	}
	var q, wantN int
	wantN = -1
	if cfg.Exact {
		switch path {
		case "queued":
			q = r.rem
		case "inplace", "pooled":
			pt, ok := r.realPT[prev.Wire[0].N]
			if !ok {
				// the writer chunked differently from the model (L2, noted at the write): take the real frame
				if fl := wire.FrameLen(0); fl >= 0 {
					pt = r.ptOf(fl)
				} else {
					pt = 1
				}
			}
			q = pt
			r.lastFrame = pt + sc.Tag
		}
	} else {
		// L1-only layer: relate the buffer to whatever the real reader has next
		if !r.led.Fault && r.led.Written == r.led.Delivered {
			r.res.Inc("reads_skipped_nothing_pending", 1)
			return true
		}
		if fl := wire.FrameLen(0); fl >= 0 && wire.CurLeft() == 0 {
			q = r.ptOf(fl)
		}
		if q <= 0 {
			q = r.led.Written - r.led.Delivered
		}
		if q <= 0 {
			q = 1
		}
		keep = 0
		if rel == "lt" || rel == "lt_pt" {
			keep = 1
		}
		if path == "end" {
			rel = "gt_len"
		}
	}
	var b int
	if path == "end" {
		b = r.pick.Pick([]int{1, sc.Tag, 4096, sc.MaxPT + sc.Tag}, r.walk.Walk, si)
	} else {
		b = sc.BufLen(rel, q, keep, r.pick, r.walk.Walk, si)
	}
	if cfg.Exact && !r.led.Fault && r.sess.Proj != nil && !r.loose {
		// the model enables a Read only when it cannot block; if the real reader has nothing at all the
		// two have drifted apart (L2) and the call is not made (it would block, not fail)
		p := r.sess.Proj()
		if !p.QLive && p.Buffered == 0 && wire.Pending() == 0 {
			r.mismatch(si, "L2:"+cfg.Layer+"-would-block", "the model reads here but nothing is queued or in flight", path, "blocked")
			return true
		}
	}
	if cap(r.buf) < b {
		r.buf = make([]byte, b+4096)
	}
	buf := r.buf[:b:b] // exact capacity: a reader that reaches beyond len(buf) panics instead of scribbling
	for i := 0; i < len(buf) && i < 64; i++ {
		buf[i] = 0xEE
	}
	glitch := op.S("glitch")
	if glitch == "dataerr" || glitch == "temperr" {
		// From here on the reader may swallow the error (io.ReadFull had enough), report it later (bufio keeps
		// it) or lose the bytes it had taken of a frame and fail for good: only the statement is judged -
		// what is delivered is a prefix of what was accepted, errors are allowed, garbling never.
		wire.InjectRead(glitch)
		r.loose = true
		r.led.MarkFault(1 << 61)
	}
	var n int
	var err error
	Guard(fmt.Sprintf("Read(%d bytes)", b), func() { n, err = r.sess.R.Read(buf) })
	r.log = append(r.log, map[string]any{"op": "read", "path": path, "rel": rel, "real": b, "glitch": glitch, "n": n, "err": fmt.Sprint(err)})
	if r.loose {
		r.res.Case("read-loose/" + glitch)
		if r.l1(si, r.led.OnRead(buf, n, err, false)) {
			return false
		}
		if err != nil && !IsGlitch(err) {
			r.endLoose = true // the reader failed for good: the rest of the walk is given up, the drain judges
		}
		return true
	}
	r.res.Case("read/" + path + "/" + rel + "/" + fmt.Sprint(op.B("err")) + "/" + fmt.Sprint(prev.Under))
	if err != nil && isDry(err) && !r.led.Fault {
		// would block: not an error of the channel (completeness is judged at the end)
		r.mismatch(si, "L2:"+cfg.Layer+"-would-block", "Read found nothing in flight where the model delivers", path, "dry")
		if r.l1(si, r.led.OnRead(buf, n, nil, false)) {
			return false
		}
		return true
	}
	if r.l1(si, r.led.OnRead(buf, n, err, false)) {
		return false
	}
	if !cfg.Exact || r.shortWritten {
		return true
	}
	// L2: byte count, error flag, path bookkeeping
	switch {
	case op.B("err"):
		wantN = 0
	case path == "queued":
		wantN = minInt(b, q)
		r.rem = q - wantN
	case path == "inplace":
		wantN = q
		r.rem = 0
	case path == "pooled":
		wantN = minInt(b, q)
		r.rem = q - wantN
	}
	if wantN >= 0 && n != wantN {
		r.mismatch(si, "L2:"+cfg.Layer+"-read-count", fmt.Sprintf("Read(%d) on path %s/%s returned %d bytes", b, path, rel, n), wantN, n)
	}
	if (err != nil) != op.B("err") {
		r.mismatch(si, "L2:"+cfg.Layer+"-read-error", fmt.Sprintf("Read(%d) on path %s/%s: error %v", b, path, rel, err), op.B("err"), err != nil)
	}
	return true
}

// other performs a Write somewhere else in the process between two calls of the direction under test: on
// the reverse direction of the same pair or on the worker's second live pair.  What it writes is read back
// at once under its own ledger (those bytes are covered by the statement too).
func (r *chanRun) other(si int, op vfh.Op) bool {
	sc := r.cfg.Scale
	who, k := op.S("who"), op.I("k")
	var w io.Writer
	var rd io.Reader
	var led *Ledger
	var wire *Wire
	switch who {
	case "rev":
		if r.sess.RevW == nil {
			return true
		}
		if r.rev == nil {
			r.rev = NewLedger(r.cfg.Layer+"-reverse", Content(3), true)
			r.sess.RevWire.SetBlocking(false)
		}
		w, rd, led, wire = r.sess.RevW, r.sess.RevR, r.rev, r.sess.RevWire
	default:
		if r.peer == nil {
			return true
		}
		if *r.peer == nil {
			ps, err := r.cfg.New(-1)
			if err != nil {
				r.res.AddMismatch(vfh.Mismatch{Class: "MACHINERY", What: "cannot build the second session pair: " + err.Error(), Walk: r.walk.Walk})
				return false
			}
			ps.Wire.SetBlocking(false)
			*r.peer = &chanPeer{sess: ps, led: NewLedger(r.cfg.Layer+"-peer", Content(2), true)}
		}
		p := *r.peer
		if p.led.Written+2*sc.MaxPT > len(p.led.Data) {
			p.led.Data = p.led.Data[p.led.Written:] // (the peer lives across walks: wrap the payload window)
			if len(p.led.Data) < 4*sc.MaxPT {
				p.led.Data = Content(2)
			}
			p.led.Written, p.led.Delivered = 0, 0
		}
		w, rd, led, wire = p.sess.W, p.sess.R, p.led, p.sess.Wire
	}
	K := 0
	if k <= 1 {
		K = r.pick.Pick(sc.Small, r.walk.Walk, si, 1)
	} else {
		K = r.pick.Pick(append([]int{sc.MaxPT}, sc.Large...), r.walk.Walk, si, 1)
	}
	if led.Written+K > len(led.Data) {
		led.Data = Content(3)
		led.Written, led.Delivered = 0, 0
	}
	var n int
	var err error
	Guard(fmt.Sprintf("%s Write(%d bytes)", who, K), func() { n, err = w.Write(led.Next(K)) })
	r.lastSent = minInt(K, sc.MaxPT) + sc.Tag
	r.log = append(r.log, map[string]any{"op": "other", "who": who, "real": K, "n": n, "err": fmt.Sprint(err)})
	r.res.Case(fmt.Sprintf("other/%s/%d", who, k))
	if r.l1(si, led.OnWrite(K, n, err)) {
		return false
	}
	// read it back: a big buffer (decrypted in place) or a small one first (pooled, then queued)
	big := 2*(sc.MaxPT+sc.Tag) + 64
	if cap(r.buf) < big {
		r.buf = make([]byte, big)
	}
	first := true
	for it := 0; it < 64 && led.Delivered < led.Written; it++ {
		b := big
		if first && r.pick.Index(2, r.walk.Walk, si, 2) == 1 && K > 1 {
			b = K / 2
		}
		first = false
		buf := r.buf[:b:b]
		var m int
		var rerr error
		Guard(fmt.Sprintf("%s Read(%d bytes)", who, b), func() { m, rerr = rd.Read(buf) })
		if rerr != nil && isDry(rerr) {
			break
		}
		if p := led.OnRead(buf, m, rerr, false); p != nil {
			r.mismatch(si, p.Class, p.What, p.Expected, p.Got)
			if who == "peer" {
				(*r.peer).sess.Close()
				*r.peer = nil
			}
			return false
		}
		if rerr != nil {
			break
		}
	}
	if led.Delivered != led.Written {
		r.mismatch(si, led.Layer+"-incomplete", fmt.Sprintf("%d bytes written on the %s pair, %d delivered after everything in flight was read", led.Written, who, led.Delivered), led.Written, led.Delivered)
		if who == "peer" {
			(*r.peer).sess.Close()
			*r.peer = nil
		}
		return false
	}
	_ = wire
	return true
}

func (r *chanRun) applyFault(si int, op vfh.Op, prev chanState) (applied, abandon bool) {
	cfg, sc, wire := r.cfg, r.cfg.Scale, r.sess.Wire
	kind, i, of := op.S("kind"), op.I("i"), op.I("of")
	n := wire.NFrames()
	idx := i - 1
	if !cfg.Exact {
		switch {
		case n == 0:
			r.res.Inc("faults_skipped_nothing_in_flight", 1)
			return false, false
		case i == 1:
			idx = 0
		case i == of:
			idx = n - 1
		default:
			idx = n / 2
		}
		if kind == "swap" && idx+1 >= n {
			idx = n - 2
			if idx < 0 {
				r.res.Inc("faults_skipped_nothing_in_flight", 1)
				return false, false
			}
		}
	} else if n != of {
		r.mismatch(si, "L2:"+cfg.Layer+"-wire", fmt.Sprintf("fault on frame %d of %d: %d real frames in flight", i, of, n), of, n)
		return false, true
	}
	lens := wire.FrameLens()
	behind := 0
	for j := idx; j < len(lens); j++ {
		behind += r.ptOf(lens[j])
	}
	pos := r.led.Written - behind
	if kind == "dup" {
		pos += r.ptOf(lens[idx])
	}
	fl := lens[idx]
	pt := r.ptOf(fl)
	ok := false
	detail := map[string]any{"op": "fault", "kind": kind, "frame": idx, "of": n, "len": fl}
	masks := []int{0x01, 0x80, 0x10}
	switch kind {
	case "flip":
		offs := clip([]int{sc.Prefix, sc.Prefix + pt/2, sc.Prefix + pt - 1, sc.Prefix + pt, fl - 1, fl - sc.Tag/2}, sc.Prefix, fl-1)
		off := r.pick.Pick(offs, r.walk.Walk, si, 1)
		mask := byte(r.pick.Pick(masks, r.walk.Walk, si, 2))
		ok = wire.Flip(idx, off, mask)
		detail["off"], detail["mask"] = off, mask
	case "fliplen":
		off := r.pick.Pick(cfg.LenOff, r.walk.Walk, si, 1)
		mask := byte(r.pick.Pick(masks, r.walk.Walk, si, 2))
		ok = wire.Flip(idx, off, mask)
		detail["off"], detail["mask"] = off, mask
	case "drop":
		ok = wire.Drop(idx)
	case "dup":
		ok = wire.Dup(idx)
	case "swap":
		ok = wire.Swap(idx)
	case "cut":
		// Bytes missing from a frame make the following bytes slide in (the rest of the frame, the next frame,
		// whatever is written later).  The frame the reader sees differs from the one sent unless every byte
		// from the cut to the end of the frame equals the byte that replaces it: with n pseudo-random bytes
		// behind the cut that happens with probability 2^-8n, so the cut stays at least 9 bytes away from the
		// end of the frame (a cut of the last two bytes went unnoticed once in some 10^4: the next frame
		// happened to start with them, and the damage moved to that frame).
		from := r.pick.Pick(clip([]int{sc.Prefix, sc.Prefix + pt/2, fl - 9, fl - sc.Tag - 1, 1}, 1, fl-9), r.walk.Walk, si, 1)
		sz := r.pick.Pick([]int{1, sc.Tag, 2}, r.walk.Walk, si, 2)
		to := minInt(from+sz, fl)
		for from > 1 && !wire.CutAlters(idx, from, to) {
			from, to = from-1, to-1 // (see CutAlters) move the cut until it really changes this frame
			r.res.Inc("cut_moved_no_change", 1)
		}
		ok = wire.CutAlters(idx, from, to) && wire.Cut(idx, from, to)
		detail["from"], detail["to"] = from, to
	case "cuteof":
		keep := r.pick.Pick(clip([]int{1, sc.Prefix, sc.Prefix + 1, fl / 2, fl - sc.Tag, fl - 1}, 1, fl-1), r.walk.Walk, si, 1)
		ok = wire.CutEOF(idx, keep)
		detail["keep"] = keep
	case "trunc":
		ok = wire.CutEOF(idx, 0)
	}
	detail["errpos"] = pos
	r.log = append(r.log, detail)
	if !ok {
		r.mismatch(si, "L2:"+cfg.Layer+"-wire", fmt.Sprintf("fault %v does not fit the real frames in flight", detail), nil, lens)
		return false, true
	}
	r.led.MarkFault(pos)
	r.res.Case("fault/" + kind)
	r.res.Inc("faults_"+kind, 1)
	return true, false
}

// drain reads everything still in flight with a large buffer and judges the end of the run.
func (r *chanRun) drain(si int) {
	sc, wire := r.cfg.Scale, r.sess.Wire
	big := 2*(sc.MaxPT+sc.Tag) + 64
	if cap(r.buf) < big {
		r.buf = make([]byte, big)
	}
	buf := r.buf[:big]
	wire.SetCap(0)
	if r.led.Fault {
		// the connection ends behind what is in flight: the reader must come to an error (EOF included)
		// without ever delivering a byte that is not the next one written
		wire.CloseWrite()
		for it := 0; it < 64; it++ {
			var n int
			var err error
			Guard("Read (drain)", func() { n, err = r.sess.R.Read(buf) })
			r.log = append(r.log, map[string]any{"op": "drain", "n": n, "err": fmt.Sprint(err)})
			if r.l1(si, r.led.OnRead(buf, n, err, true)) {
				return
			}
			if err != nil {
				return
			}
		}
		if !r.led.ErrSeen {
			r.mismatch(si, r.cfg.Layer+"-tamper-no-error", "the wire was tampered with and closed, yet 64 further reads returned no error", "error", "nil")
		}
		return
	}
	zero := 0
	for it := 0; it < 4096 && r.led.Delivered < r.led.Written; it++ {
		var n int
		var err error
		Guard("Read (drain)", func() { n, err = r.sess.R.Read(buf) })
		r.log = append(r.log, map[string]any{"op": "drain", "n": n, "err": fmt.Sprint(err)})
		if err != nil && isDry(err) {
			break // nothing in flight any more: AtEnd judges
		}
		if r.l1(si, r.led.OnRead(buf, n, err, false)) {
			return
		}
		if err != nil {
			return
		}
		if n == 0 {
			zero++
			if zero > 3 {
				break
			}
		} else {
			zero = 0
		}
	}
	r.l1(si, r.led.AtEnd())
}

// RunChannel replays every behaviour file matching glob (under VERIF_IN) through cfg.
func RunChannel(res *vfh.Result, cfg ChanCfg, glob string, rounds, par int) error {
	files, _ := filepath.Glob(filepath.Join(vfh.In(), glob))
	sort.Strings(files)
	if len(files) == 0 {
		return fmt.Errorf("no behaviour files match %s in %s", glob, vfh.In())
	}
	type job struct {
		file  string
		mPT   int
		walk  vfh.Walk
		round int
	}
	var jobs []job
	for _, f := range files {
		hdr, walks, err := vfh.LoadWalks(f)
		if err != nil {
			return err
		}
		conf, _ := hdr["conf"].(map[string]any)
		mpt, _ := conf["maxpt"].(float64)
		if mpt < 2 {
			return fmt.Errorf("%s: header has no conf.maxpt", f)
		}
		for rd := 0; rd < rounds; rd++ {
			for _, w := range walks {
				if only := os.Getenv("VERIF_C02_ONLY"); only != "" {
					// developer aid: replay a single walk, e.g. VERIF_C02_ONLY=chan_a.jsonl:13599
					if only != fmt.Sprintf("%s:%d", filepath.Base(f), w.Walk) {
						continue
					}
				} else if cfg.Share > 1 && (uint64(w.Walk)+uint64(vfh.Seed())+uint64(rd))%uint64(cfg.Share) != 0 {
					continue
				}
				jobs = append(jobs, job{f, int(mpt), w, rd})
			}
		}
	}
	ch := make(chan job)
	var wg sync.WaitGroup
	for i := 0; i < par; i++ {
		wg.Add(1)
		go func() {
			defer wg.Done()
			var scratch []byte
			var peer *chanPeer // the worker's second live session pair: it lives across walks
			for j := range ch {
				r := &chanRun{cfg: cfg, res: res, mPT: j.mPT, file: j.file, walk: j.walk, buf: scratch, peer: &peer,
					pick: Picker{Seed: uint64(vfh.Seed()), Round: j.round}}
				r.run()
				scratch = r.buf
			}
			if peer != nil {
				peer.sess.Close()
			}
		}()
	}
	for _, j := range jobs {
		ch <- j
	}
	close(ch)
	wg.Wait()
	res.Set(cfg.Layer+"_walks", len(jobs))
	return nil
}

// EnvInt reads an integer environment variable.
func EnvInt(k string, def int) int { return vfh.EnvInt(k, def) }
