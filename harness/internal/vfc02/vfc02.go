// Package vfc02 is the shared part of the C02 conformance harnesses (secured connections and
// streams deliver bytes intact, in order, once). It exists only in /verif/harness and is injected
// into the module with `go test -overlay`; it is never part of /repo.
//
// It provides
//   - Wire / Conn: an in-memory duplex connection whose two byte streams are held as lists of frames
//     (a frame-aware man in the middle): frames still in flight can be flipped, dropped, duplicated,
//     swapped, cut or truncated; reads can be capped (short reads of the underlying connection) and
//     either block or report ErrDry when nothing is in flight (sequential replay);
//   - the boundary-class scale map that turns model lengths / read-buffer classes into real ones;
//   - Ledger: the L1 monitor over observables only (bytes accepted by Write vs bytes returned by
//     Read, errors after tampering);
//   - RunChannel: the replay driver for the framed, authenticated channel of spec/C02_Channel.tla,
//     used for Noise (with the in-package projection as L2) and TLS (L1 only).
package vfc02

import (
	"encoding/binary"
	"errors"
	"fmt"
	"io"
	"net"
	"sync"
	"time"
)

// ---------------------------------------------------------------------------------------------
// Wire: one direction of the connection

// Framer returns the length of the first complete frame at the head of buf, or 0 if there is none yet.
type Framer func(buf []byte) int

// NoiseFramer: 2-byte big-endian length prefix (p2p/security/noise: LengthPrefixLength).
func NoiseFramer(buf []byte) int {
	if len(buf) < 2 {
		return 0
	}
	n := 2 + int(binary.BigEndian.Uint16(buf))
	if len(buf) < n {
		return 0
	}
	return n
}

// TLSFramer: TLS record header type(1) version(2) length(2).
func TLSFramer(buf []byte) int {
	if len(buf) < 5 {
		return 0
	}
	n := 5 + int(binary.BigEndian.Uint16(buf[3:5]))
	if len(buf) < n {
		return 0
	}
	return n
}

// ErrDry is returned by a non-blocking Wire when nothing is in flight (the real call would block).
var ErrDry = errors.New("vfc02: nothing in flight (the read would block)")

type Wire struct {
	mu     sync.Mutex
	cond   *sync.Cond
	frames [][]byte // complete frames the reader has not started yet (raw mode: one chunk per Write)
	cur    []byte   // frame being served
	tail   []byte   // bytes written that do not form a complete frame yet
	framer Framer

	blocking bool // Read waits for data (handshakes, concurrent layers) instead of returning ErrDry
	cap      int  // max bytes per Read, 0 = unlimited (short reads of the underlying connection)
	cross    bool // one Read may run on into following frames (coalesced segments)
	eof      bool // EOF once everything in flight has been read
	rclosed  bool // the reading end was closed locally

	// glitches of the underlying connection (all allowed by io.Reader / io.Writer)
	eofWithData bool   // the last bytes in flight come together with io.EOF
	readGlitch  string // one-shot: "dataerr" = next data comes with ErrTimeout; "temperr" = (0, ErrTemporary) first
	shortWrite  bool   // one-shot: the next Write of >= 2 bytes takes only a part and reports ErrTimeout
	refuseWrite bool   // one-shot: the next Write is refused whole: (0, ErrTimeout), nothing on the wire
	Glitched    int    // glitches delivered so far

	// cut of the connection: after cutLeft more bytes have been handed to the reader the stream ends with endErr
	// (io.EOF or ErrConnReset), whatever was in flight behind is lost, and onCut ends the other direction too
	cutArmed bool
	cutLeft  int
	endErr   error
	onCut    func()

	nframed int64 // frames framed so far
	Written int64 // bytes accepted
	Served  int64 // bytes handed to the reader
	Reads   int64
}

func NewWire(f Framer) *Wire {
	w := &Wire{framer: f, blocking: true, cross: true}
	w.cond = sync.NewCond(&w.mu)
	return w
}

func (w *Wire) SetFramer(f Framer) {
	w.mu.Lock()
	w.framer = f
	w.reframe()
	w.mu.Unlock()
}
func (w *Wire) SetBlocking(b bool) { w.mu.Lock(); w.blocking = b; w.cond.Broadcast(); w.mu.Unlock() }
func (w *Wire) SetCap(n int)       { w.mu.Lock(); w.cap = n; w.mu.Unlock() }
func (w *Wire) SetCross(b bool)    { w.mu.Lock(); w.cross = b; w.mu.Unlock() }
func (w *Wire) CloseWrite()        { w.mu.Lock(); w.eof = true; w.cond.Broadcast(); w.mu.Unlock() }
func (w *Wire) closeRead()         { w.mu.Lock(); w.rclosed = true; w.cond.Broadcast(); w.mu.Unlock() }

// ErrConnReset is how a connection that was cut with an error ends.
var ErrConnReset = errors.New("vfc02: connection reset by peer (injected)")

// CutAfter cuts the connection: the reader gets n more bytes (from those in flight and those written from now
// on), then the stream ends with err (io.EOF: a plain end; ErrConnReset: an error); everything behind that
// position is lost, and then() runs once (to end the other direction).
func (w *Wire) CutAfter(n int, err error, then func()) {
	w.mu.Lock()
	w.cutArmed, w.cutLeft, w.endErr, w.onCut = true, n, err, then
	w.cond.Broadcast()
	w.mu.Unlock()
}

// Kill ends the stream at once with err; what is in flight is lost.
func (w *Wire) Kill(err error) {
	w.mu.Lock()
	w.frames, w.cur, w.tail = nil, nil, nil
	w.eof, w.endErr, w.cutArmed = true, err, false
	w.cond.Broadcast()
	w.mu.Unlock()
}

// SetEOFWithData: the Read that hands out the last bytes before the end of the stream reports io.EOF with them.
func (w *Wire) SetEOFWithData(b bool) { w.mu.Lock(); w.eofWithData = b; w.mu.Unlock() }

// InjectRead arms a one-shot glitch of the next Read: "dataerr" (its bytes arrive together with a timeout
// error; the stream goes on afterwards) or "temperr" (it fails with a temporary error before any byte; the
// stream goes on afterwards).
func (w *Wire) InjectRead(kind string) { w.mu.Lock(); w.readGlitch = kind; w.mu.Unlock() }

// ReadGlitchPending reports whether an armed read glitch has not been delivered yet.
func (w *Wire) ReadGlitchPending() bool { w.mu.Lock(); defer w.mu.Unlock(); return w.readGlitch != "" }

// InjectShortWrite arms a one-shot short write: the next Write of at least 2 bytes accepts only the first
// half and reports a timeout error.
func (w *Wire) InjectShortWrite() { w.mu.Lock(); w.shortWrite = true; w.mu.Unlock() }

// InjectRefuseWrite arms a one-shot refusal: the next Write returns (0, ErrTimeout) and puts NOTHING on the wire
// (an expired write deadline, a pipe that is full for the moment); the connection stays usable.
func (w *Wire) InjectRefuseWrite() { w.mu.Lock(); w.refuseWrite = true; w.mu.Unlock() }

// glitchErr is a transient error of the underlying connection (net.Error, Timeout and Temporary).
type glitchErr struct{ msg string }

func (e *glitchErr) Error() string   { return e.msg }
func (e *glitchErr) Timeout() bool   { return true }
func (e *glitchErr) Temporary() bool { return true }

var (
	ErrTimeout   error = &glitchErr{"vfc02: i/o timeout (transient, injected)"}
	ErrTemporary error = &glitchErr{"vfc02: temporary error (transient, injected)"}
)

// IsGlitch reports whether err is (or wraps) an injected transient error.
func IsGlitch(err error) bool { return errors.Is(err, ErrTimeout) || errors.Is(err, ErrTemporary) }

func (w *Wire) reframe() {
	for len(w.tail) > 0 {
		n := len(w.tail)
		if w.framer != nil {
			n = w.framer(w.tail)
		}
		if n == 0 {
			return
		}
		w.frames = append(w.frames, w.tail[:n:n])
		w.tail = w.tail[n:]
		w.nframed++
	}
}

func (w *Wire) Write(p []byte) (int, error) {
	w.mu.Lock()
	defer w.mu.Unlock()
	if w.eof {
		return 0, io.ErrClosedPipe
	}
	if len(p) == 0 {
		return 0, nil
	}
	if w.refuseWrite {
		w.refuseWrite = false
		w.Glitched++
		return 0, ErrTimeout
	}
	var werr error
	if w.shortWrite && len(p) >= 2 {
		w.shortWrite = false
		w.Glitched++
		p = p[:len(p)/2]
		werr = ErrTimeout
	}
	w.Written += int64(len(p))
	if w.framer == nil && len(w.tail) == 0 {
		w.frames = append(w.frames, append([]byte(nil), p...))
		w.nframed++
	} else {
		w.tail = append(w.tail[:len(w.tail):len(w.tail)], p...)
		w.reframe()
	}
	w.cond.Broadcast()
	return len(p), werr
}

func (w *Wire) Read(p []byte) (int, error) {
	w.mu.Lock()
	defer w.mu.Unlock()
	w.Reads++
	for {
		if w.rclosed {
			return 0, net.ErrClosed
		}
		if w.cutArmed && w.cutLeft <= 0 {
			// the cut position is reached: the connection ends here
			w.frames, w.cur, w.tail = nil, nil, nil
			w.eof, w.cutArmed = true, false
			if f := w.onCut; f != nil {
				w.onCut = nil
				w.mu.Unlock()
				f()
				w.mu.Lock()
			}
			continue
		}
		if len(w.cur) > 0 || len(w.frames) > 0 {
			break
		}
		if len(w.tail) > 0 && (w.eof || !w.blocking) {
			// an incomplete frame and nothing behind it: serve it raw
			w.cur, w.tail = w.tail, nil
			break
		}
		if w.eof {
			if w.endErr != nil {
				return 0, w.endErr
			}
			return 0, io.EOF
		}
		if !w.blocking {
			return 0, ErrDry
		}
		w.cond.Wait()
	}
	if len(p) == 0 {
		return 0, nil
	}
	if w.readGlitch == "temperr" {
		w.readGlitch = ""
		w.Glitched++
		return 0, ErrTemporary
	}
	lim := len(p)
	if w.cap > 0 && lim > w.cap {
		lim = w.cap
	}
	if w.cutArmed && lim > w.cutLeft {
		lim = w.cutLeft
	}
	n := 0
	for n < lim {
		if len(w.cur) == 0 {
			if len(w.frames) == 0 || (n > 0 && !w.cross) {
				break
			}
			w.cur, w.frames = w.frames[0], w.frames[1:]
		}
		c := copy(p[n:lim], w.cur)
		w.cur = w.cur[c:]
		n += c
	}
	w.Served += int64(n)
	if w.cutArmed {
		w.cutLeft -= n
	}
	if w.readGlitch == "dataerr" && n > 0 {
		w.readGlitch = ""
		w.Glitched++
		return n, ErrTimeout
	}
	if w.eofWithData && w.eof && n > 0 && len(w.cur) == 0 && len(w.frames) == 0 && len(w.tail) == 0 {
		w.Glitched++
		return n, io.EOF
	}
	return n, nil
}

// NFrames is the number of complete frames the reader has not started.
func (w *Wire) NFrames() int { w.mu.Lock(); defer w.mu.Unlock(); return len(w.frames) }

// Pending is the number of bytes in flight.
func (w *Wire) Pending() int {
	w.mu.Lock()
	defer w.mu.Unlock()
	n := len(w.cur) + len(w.tail)
	for _, f := range w.frames {
		n += len(f)
	}
	return n
}

// FrameLen returns the length of frame i (0-based) in flight, -1 if there is none.
func (w *Wire) FrameLen(i int) int {
	w.mu.Lock()
	defer w.mu.Unlock()
	if i < 0 || i >= len(w.frames) {
		return -1
	}
	return len(w.frames[i])
}

// FrameLens lists the lengths of the frames in flight.
func (w *Wire) FrameLens() []int {
	w.mu.Lock()
	defer w.mu.Unlock()
	out := make([]int, len(w.frames))
	for i, f := range w.frames {
		out[i] = len(f)
	}
	return out
}

// CurLeft is what is left of the frame the reader has started.
func (w *Wire) CurLeft() int { w.mu.Lock(); defer w.mu.Unlock(); return len(w.cur) }

// Faults. Every function reports false when frame i is not in flight.
func (w *Wire) Flip(i, off int, mask byte) bool {
	w.mu.Lock()
	defer w.mu.Unlock()
	if i < 0 || i >= len(w.frames) || off < 0 || off >= len(w.frames[i]) {
		return false
	}
	f := append([]byte(nil), w.frames[i]...)
	f[off] ^= mask
	w.frames[i] = f
	return true
}
func (w *Wire) Drop(i int) bool {
	w.mu.Lock()
	defer w.mu.Unlock()
	if i < 0 || i >= len(w.frames) {
		return false
	}
	w.frames = append(w.frames[:i:i], w.frames[i+1:]...)
	return true
}
func (w *Wire) Dup(i int) bool {
	w.mu.Lock()
	defer w.mu.Unlock()
	if i < 0 || i >= len(w.frames) {
		return false
	}
	nf := make([][]byte, 0, len(w.frames)+1)
	nf = append(nf, w.frames[:i+1]...)
	nf = append(nf, append([]byte(nil), w.frames[i]...))
	nf = append(nf, w.frames[i+1:]...)
	w.frames = nf
	return true
}
func (w *Wire) Swap(i int) bool {
	w.mu.Lock()
	defer w.mu.Unlock()
	if i < 0 || i+1 >= len(w.frames) {
		return false
	}
	nf := append([][]byte(nil), w.frames...)
	nf[i], nf[i+1] = nf[i+1], nf[i]
	w.frames = nf
	return true
}

// Cut removes bytes [from, to) of frame i; the stream goes on behind it.
func (w *Wire) Cut(i, from, to int) bool {
	w.mu.Lock()
	defer w.mu.Unlock()
	if i < 0 || i >= len(w.frames) || from < 0 || to > len(w.frames[i]) || from >= to {
		return false
	}
	f := append([]byte(nil), w.frames[i][:from]...)
	f = append(f, w.frames[i][to:]...)
	w.frames[i] = f
	return true
}

// CutAlters reports whether removing bytes [from, to) of frame i changes what the reader sees within the
// span of that frame (the bytes that slide in come from the rest of the frame and the head of the next
// one).  A cut next to the end of a frame leaves the span unchanged with probability 2^-8 per remaining
// byte: such a cut does not tamper with this frame but with the next one.
func (w *Wire) CutAlters(i, from, to int) bool {
	w.mu.Lock()
	defer w.mu.Unlock()
	if i < 0 || i >= len(w.frames) || from < 0 || to > len(w.frames[i]) || from >= to {
		return false
	}
	f := w.frames[i]
	var next []byte
	if i+1 < len(w.frames) {
		next = w.frames[i+1]
	}
	d := to - from
	for j := from; j < len(f); j++ {
		var b byte
		switch k := j + d; {
		case k < len(f):
			b = f[k]
		case k-len(f) < len(next):
			b = next[k-len(f)]
		default:
			return true // the stream ends inside the span
		}
		if b != f[j] {
			return true
		}
	}
	return false
}

// CutEOF keeps the first `keep` bytes of frame i, discards everything behind and ends the stream.
func (w *Wire) CutEOF(i, keep int) bool {
	w.mu.Lock()
	defer w.mu.Unlock()
	if i < 0 || i >= len(w.frames) || keep < 0 || keep > len(w.frames[i]) {
		return false
	}
	nf := append([][]byte(nil), w.frames[:i]...)
	if keep > 0 {
		nf = append(nf, append([]byte(nil), w.frames[i][:keep]...))
	}
	w.frames = nf
	w.tail = nil
	w.eof = true
	w.cond.Broadcast()
	return true
}

// ---------------------------------------------------------------------------------------------
// Conn: one end of the duplex connection

type Addr string

func (a Addr) Network() string { return "tcp" }
func (a Addr) String() string  { return string(a) }

type Conn struct {
	In, Out *Wire
	local   Addr
	remote  Addr
	once    sync.Once
}

// NewPair returns the two ends; a.Out == b.In and b.Out == a.In.
func NewPair(f Framer) (*Conn, *Conn) {
	ab, ba := NewWire(f), NewWire(f)
	return &Conn{In: ba, Out: ab, local: "127.0.0.1:1001", remote: "127.0.0.1:1002"},
		&Conn{In: ab, Out: ba, local: "127.0.0.1:1002", remote: "127.0.0.1:1001"}
}

func (c *Conn) Read(p []byte) (int, error)  { return c.In.Read(p) }
func (c *Conn) Write(p []byte) (int, error) { return c.Out.Write(p) }
func (c *Conn) Close() error {
	c.once.Do(func() { c.Out.CloseWrite(); c.In.closeRead() })
	return nil
}
func (c *Conn) LocalAddr() net.Addr {
	return &net.TCPAddr{IP: net.IPv4(127, 0, 0, 1), Port: portOf(c.local)}
}
func (c *Conn) RemoteAddr() net.Addr {
	return &net.TCPAddr{IP: net.IPv4(127, 0, 0, 1), Port: portOf(c.remote)}
}
func portOf(a Addr) int {
	var p int
	fmt.Sscanf(string(a), "127.0.0.1:%d", &p)
	return p
}
func (c *Conn) SetDeadline(time.Time) error      { return nil }
func (c *Conn) SetReadDeadline(time.Time) error  { return nil }
func (c *Conn) SetWriteDeadline(time.Time) error { return nil }

// ---------------------------------------------------------------------------------------------
// Payload: position-dependent content, so that any loss, duplication, shift or alteration shows

const ContentLen = 1 << 21

var (
	contentOnce sync.Once
	content     [4][]byte
)

// Content returns the payload of stream `id` (4 different ones): byte i is what the writer sends
// at offset i.
func Content(id int) []byte {
	contentOnce.Do(func() {
		for s := range content {
			b := make([]byte, ContentLen)
			x := uint64(0x9E3779B97F4A7C15) * uint64(s+1)
			for i := range b {
				x ^= x << 13
				x ^= x >> 7
				x ^= x << 17
				b[i] = byte(x >> 32)
			}
			content[s] = b
		}
	})
	return content[id&3]
}

// ---------------------------------------------------------------------------------------------
// Ledger: the L1 monitor of one byte channel (observables only)

type Ledger struct {
	Layer     string
	Data      []byte // what the writer sends, by offset
	Written   int    // bytes accepted by Write
	Delivered int    // bytes returned by Read
	ErrSeen   bool   // a Read returned an error
	Fault     bool   // the wire was tampered with
	ErrPos    int    // bytes that precede the first fault
	Auth      bool   // authenticated channel: the tamper clause applies
}

func NewLedger(layer string, data []byte, auth bool) *Ledger {
	return &Ledger{Layer: layer, Data: data, Auth: auth, ErrPos: 1 << 62}
}

// Next returns the next k bytes the writer sends.
func (l *Ledger) Next(k int) []byte { return l.Data[l.Written : l.Written+k] }

// Problem is an L1 failure: class key and description.
type Problem struct {
	Class, What string
	Expected    any
	Got         any
}

func hexAt(b []byte, at, n int) string {
	if at < 0 {
		at = 0
	}
	if at > len(b) {
		at = len(b)
	}
	e := at + n
	if e > len(b) {
		e = len(b)
	}
	return fmt.Sprintf("%x", b[at:e])
}

// OnWrite records the result of a Write of len(p) bytes.
func (l *Ledger) OnWrite(want, n int, err error) *Problem {
	if n < 0 || n > want {
		return &Problem{l.Layer + "-write-count", fmt.Sprintf("Write of %d bytes reported %d", want, n), want, n}
	}
	l.Written += n
	return nil
}

// OnRead checks the result of one Read against the statement.
func (l *Ledger) OnRead(buf []byte, n int, err error, eofOK bool) *Problem {
	if n < 0 || n > len(buf) {
		return &Problem{l.Layer + "-read-count", fmt.Sprintf("Read into %d bytes reported %d", len(buf), n), len(buf), n}
	}
	var p *Problem
	if n > 0 {
		end := l.Delivered + n
		if end > l.Written {
			p = &Problem{l.Layer + "-bytes", fmt.Sprintf("Read returned %d bytes at offset %d but only %d were written", n, l.Delivered, l.Written),
				l.Written - l.Delivered, n}
		} else {
			want := l.Data[l.Delivered:end]
			for i := 0; i < n; i++ {
				if buf[i] != want[i] {
					p = &Problem{l.Layer + "-bytes", fmt.Sprintf("Read returned a byte the writer did not send at that position: offset %d (read of %d bytes starting at %d)", l.Delivered+i, n, l.Delivered),
						hexAt(want, i-2, 8), hexAt(buf[:n], i-2, 8)}
					break
				}
			}
		}
		if p == nil && l.Auth && l.Fault && end > l.ErrPos && !l.ErrSeen && err == nil {
			p = &Problem{l.Layer + "-tamper-undetected", fmt.Sprintf("bytes beyond the tampered position %d delivered (up to %d) before any error", l.ErrPos, end), "error", "nil"}
		}
		l.Delivered = end
	}
	if err != nil {
		if !l.ErrSeen && !l.Fault && !(eofOK && errors.Is(err, io.EOF)) && p == nil {
			p = &Problem{l.Layer + "-spurious-error", fmt.Sprintf("Read failed on an untouched channel after %d of %d bytes: %v", l.Delivered, l.Written, err), "nil", err.Error()}
		}
		l.ErrSeen = true
	}
	return p
}

// AtEnd: after a fault-free run and after everything in flight has been read.
func (l *Ledger) AtEnd() *Problem {
	if !l.Fault && !l.ErrSeen && l.Delivered != l.Written {
		return &Problem{l.Layer + "-incomplete", fmt.Sprintf("%d bytes written, %d delivered after everything in flight was read", l.Written, l.Delivered), l.Written, l.Delivered}
	}
	return nil
}

// MarkFault records a fault in front of which `pos` bytes can still arrive.
func (l *Ledger) MarkFault(pos int) {
	l.Fault = true
	if pos < l.ErrPos {
		l.ErrPos = pos
	}
}

// ---------------------------------------------------------------------------------------------
// Scale map

// Picker chooses a member of a boundary class deterministically: seeded per pick site, rotated by
// the round so that over len(class) rounds every site sees every member (thorough tier).
type Picker struct {
	Seed  uint64
	Round int
}

func mix(x uint64) uint64 {
	x ^= x >> 33
	x *= 0xff51afd7ed558ccd
	x ^= x >> 33
	x *= 0xc4ceb9fe1a85ec53
	x ^= x >> 33
	return x
}

func (p Picker) Index(n int, site ...int) int {
	if n <= 1 {
		return 0
	}
	h := mix(p.Seed + 0x1234567)
	for _, s := range site {
		h = mix(h ^ uint64(s+1)*0x9E3779B97F4A7C15)
	}
	return int((h + uint64(p.Round)) % uint64(n))
}

func (p Picker) Pick(class []int, site ...int) int {
	if len(class) == 0 {
		return 1 // an empty class (lengths the scale map did not foresee, e.g. after a divergence)
	}
	return class[p.Index(len(class), site...)]
}

// Scale of a framed channel.
type Scale struct {
	MaxPT  int   // real maximum plaintext per frame
	Tag    int   // real per-frame overhead behind the plaintext (authentication tag ...)
	Prefix int   // real per-frame header length
	Small  []int // real lengths of a "short" partial frame
	Large  []int // real lengths of a "nearly full" partial frame
	Shorts []int // real caps of class-2 short reads
}

// WriteLen maps a model write of k units (frames of at most m units) to a real length: full model
// frames are full real frames, the partial last frame takes a member of its boundary class.
func (s Scale) WriteLen(k, m int, p Picker, site ...int) int {
	q, r := k/m, k%m
	n := q * s.MaxPT
	switch {
	case r == 0:
	case m == 2:
		all := append(append([]int{}, s.Small...), s.Large...)
		n += p.Pick(all, site...)
	case 2*r <= m:
		n += p.Pick(s.Small, site...)
	default:
		n += p.Pick(s.Large, site...)
	}
	return n
}

func clip(cands []int, lo, hi int) []int {
	var out []int
	seen := map[int]bool{}
	for _, c := range cands {
		if c >= lo && c <= hi && !seen[c] {
			seen[c] = true
			out = append(out, c)
		}
	}
	return out
}

// BufLen maps a read-buffer relation class to a real buffer length. q is the real quantity the
// class refers to (queued remainder or plaintext length of the frame), keep is how many bytes of
// it must stay unread afterwards (so that the model's remainder never exceeds the real one).
func (s Scale) BufLen(rel string, q, keep int, p Picker, site ...int) int {
	t := s.Tag
	switch rel {
	case "zero":
		return 0
	case "lt", "lt_pt":
		c := clip([]int{1, 2, t - 1, t, t + 1, q / 2, 4095, 4096, 4097, q - t, q - 2, q - 1}, 1, q-keep)
		if len(c) == 0 {
			return 1
		}
		return p.Pick(c, site...)
	case "eq", "eq_pt":
		return q
	case "gt":
		return p.Pick([]int{q + 1, q + t - 1, q + t, q + t + 1, q + 4096, 2*s.MaxPT + 100}, site...)
	case "mid":
		return p.Pick(clip([]int{q + 1, q + t/2, q + t - 1}, q+1, q+t-1), site...)
	case "eq_len":
		return q + t
	case "gt_len":
		return p.Pick([]int{q + t + 1, q + t + 2, q + t + 4096, 2*(s.MaxPT+t) + 7}, site...)
	}
	return q + t + 1
}

// ShortCap maps a model short-read class to a real cap on underlying reads.
func (s Scale) ShortCap(k int, p Picker, site ...int) int {
	switch k {
	case 0:
		return 0
	case 1:
		return 1
	}
	return p.Pick(s.Shorts, site...)
}

// AllLens support: every frame ever framed on a wire, in order (for chunking checks).
func (w *Wire) Framed() int { w.mu.Lock(); defer w.mu.Unlock(); return int(w.nframed) }
