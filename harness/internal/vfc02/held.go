package vfc02

import (
	"io"
	"net"
	"sort"
	"sync"
	"time"
)

// HeldPair is an in-memory duplex connection whose delivery is under test control FROM THE VERY FIRST BYTE
// (handshakes included): what one end writes is staged and becomes readable only when it is released, and
// released bytes are handed to the reader in chunks that are independent of the writer's message
// boundaries (one Read may return the tail of a handshake message together with the frames behind it, or
// a single byte).
//
//   - A direction is released automatically, whole, when its reader is waiting for it and its writer is
//     itself blocked in a Read (nothing more can come before the reader answers): handshakes make progress
//     with maximal coalescing and no timing.
//   - Release / Flush by the harness: everything staged becomes readable.
//   - Cuts are absolute stream offsets of a direction: no Read returns bytes from both sides of a cut.
//     AutoCut places further cuts relative to every write boundary (dribble, just before / after it ...).
type HeldPair struct {
	mu   sync.Mutex
	cond *sync.Cond
	AB   *HeldDir // bytes from A to B
	BA   *HeldDir
}

type HeldDir struct {
	p        *HeldPair
	rev      *HeldDir
	buf      []byte // the whole stream written so far
	released int    // offset up to which the reader may read
	pos      int    // offset the reader is at
	cuts     []int  // sorted absolute offsets
	bounds   []int  // stream offset behind every Write of the writer
	auto     func(start, end int) []int
	waiting  bool // the reader is blocked in Read
	eof      bool
	rclosed  bool
	blocking bool
	manual   bool // auto-release switched off (the harness releases)
	holdFrom int  // writes with this index (0-based) and later are never released automatically
	Reads    int

	releaseAll bool
}

func NewHeldPair() (*HeldConn, *HeldConn, *HeldPair) {
	p := &HeldPair{}
	p.cond = sync.NewCond(&p.mu)
	p.AB = &HeldDir{p: p, blocking: true, holdFrom: 1 << 30}
	p.BA = &HeldDir{p: p, blocking: true, holdFrom: 1 << 30}
	p.AB.rev, p.BA.rev = p.BA, p.AB
	return &HeldConn{in: p.BA, out: p.AB, port: 1001}, &HeldConn{in: p.AB, out: p.BA, port: 1002}, p
}

// SetAuto installs the rule that cuts automatically released stretches: it gets the stretch [start, end)
// and returns absolute cut offsets inside it.
func (d *HeldDir) SetAuto(f func(start, end int) []int) { d.p.mu.Lock(); d.auto = f; d.p.mu.Unlock() }

// SetBlocking(false): a Read with nothing released returns ErrDry instead of waiting.
func (d *HeldDir) SetBlocking(b bool) {
	d.p.mu.Lock()
	d.blocking = b
	d.p.cond.Broadcast()
	d.p.mu.Unlock()
}

// HoldFrom: the n-th Write of this direction (0-based) and everything behind it is released by the harness only.
func (d *HeldDir) HoldFrom(n int) { d.p.mu.Lock(); d.holdFrom = n; d.p.mu.Unlock() }

// NWrites is the number of Writes so far.
func (d *HeldDir) NWrites() int { d.p.mu.Lock(); defer d.p.mu.Unlock(); return len(d.bounds) }

// Hold switches the automatic release of this direction off: only Release makes bytes readable.
func (d *HeldDir) Hold(b bool) { d.p.mu.Lock(); d.manual = b; d.p.cond.Broadcast(); d.p.mu.Unlock() }

// Written, Released, Pos: stream offsets.
func (d *HeldDir) Written() int  { d.p.mu.Lock(); defer d.p.mu.Unlock(); return len(d.buf) }
func (d *HeldDir) Released() int { d.p.mu.Lock(); defer d.p.mu.Unlock(); return d.released }
func (d *HeldDir) Pos() int      { d.p.mu.Lock(); defer d.p.mu.Unlock(); return d.pos }

// Staged is the number of bytes written and not released yet.
func (d *HeldDir) Staged() int { d.p.mu.Lock(); defer d.p.mu.Unlock(); return len(d.buf) - d.released }

// Unread is the number of bytes written that the reader has not taken off the connection yet.
func (d *HeldDir) Unread() int { d.p.mu.Lock(); defer d.p.mu.Unlock(); return len(d.buf) - d.pos }

// Release makes everything written so far (and, with all = true, everything written later) readable, cut at
// the given absolute offsets.
func (d *HeldDir) Release(cuts []int, all bool) {
	d.p.mu.Lock()
	d.addCuts(cuts)
	d.released = len(d.buf)
	if all {
		d.manual = false
		d.auto = nil
		d.releaseAll = true
	}
	d.p.cond.Broadcast()
	d.p.mu.Unlock()
}

func (d *HeldDir) addCuts(cuts []int) {
	d.cuts = append(d.cuts, cuts...)
	sort.Ints(d.cuts)
}

func (d *HeldDir) write(p []byte) (int, error) {
	d.p.mu.Lock()
	defer d.p.mu.Unlock()
	if d.eof {
		return 0, io.ErrClosedPipe
	}
	if len(p) == 0 {
		return 0, nil
	}
	d.buf = append(d.buf, p...)
	d.bounds = append(d.bounds, len(d.buf))
	if d.releaseAll {
		d.released = len(d.buf)
	}
	d.p.cond.Broadcast()
	return len(p), nil
}

func (d *HeldDir) read(p []byte) (int, error) {
	d.p.mu.Lock()
	defer d.p.mu.Unlock()
	d.Reads++
	for {
		if d.rclosed {
			return 0, net.ErrClosed
		}
		if d.pos < d.released {
			break
		}
		if lim := d.autoLimit(); d.released < lim && !d.manual && d.rev.waiting {
			// the writer of this direction is itself waiting for an answer: nothing more can come, hand over
			// what there is (whole, cut by the automatic rule)
			if d.auto != nil {
				d.addCuts(d.auto(d.released, lim))
			}
			d.released = lim
			continue
		}
		if d.eof && d.released == len(d.buf) {
			return 0, io.EOF
		}
		if d.eof && !d.manual && d.holdFrom >= len(d.bounds) {
			d.released = len(d.buf)
			continue
		}
		if !d.blocking {
			return 0, ErrDry
		}
		d.waiting = true
		d.p.cond.Broadcast() // the other direction's reader may now release its stretch
		d.p.cond.Wait()
		d.waiting = false
	}
	if len(p) == 0 {
		return 0, nil
	}
	end := d.released
	for _, c := range d.cuts {
		if c > d.pos {
			if c < end {
				end = c
			}
			break
		}
	}
	n := copy(p, d.buf[d.pos:end])
	d.pos += n
	return n, nil
}

// autoLimit is the offset up to which bytes may be released automatically.
func (d *HeldDir) autoLimit() int {
	if d.holdFrom >= len(d.bounds) {
		return len(d.buf)
	}
	if d.holdFrom == 0 {
		return 0
	}
	return d.bounds[d.holdFrom-1]
}

// Bounds lists the stream offsets behind every Write so far.
func (d *HeldDir) Bounds() []int {
	d.p.mu.Lock()
	defer d.p.mu.Unlock()
	return append([]int(nil), d.bounds...)
}

type HeldConn struct {
	in, out *HeldDir
	port    int
	once    sync.Once
}

func (c *HeldConn) In() *HeldDir                { return c.in }
func (c *HeldConn) Out() *HeldDir               { return c.out }
func (c *HeldConn) Read(p []byte) (int, error)  { return c.in.read(p) }
func (c *HeldConn) Write(p []byte) (int, error) { return c.out.write(p) }
func (c *HeldConn) Close() error {
	c.once.Do(func() {
		c.in.p.mu.Lock()
		c.out.eof = true
		c.in.rclosed = true
		c.in.p.cond.Broadcast()
		c.in.p.mu.Unlock()
	})
	return nil
}
func (c *HeldConn) LocalAddr() net.Addr {
	return &net.TCPAddr{IP: net.IPv4(127, 0, 0, 1), Port: c.port}
}
func (c *HeldConn) RemoteAddr() net.Addr {
	return &net.TCPAddr{IP: net.IPv4(127, 0, 0, 1), Port: 2003 - c.port}
}
func (c *HeldConn) SetDeadline(time.Time) error      { return nil }
func (c *HeldConn) SetReadDeadline(time.Time) error  { return nil }
func (c *HeldConn) SetWriteDeadline(time.Time) error { return nil }
