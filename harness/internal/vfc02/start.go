package vfc02

import (
	"encoding/json"
	"errors"
	"fmt"
	"io"
	"net"
	"path/filepath"
	"sort"
	"sync"
	"sync/atomic"
	"time"

	"github.com/libp2p/go-libp2p/internal/vfh"
)

// ---------------------------------------------------------------------------------------------
// Replay of spec/C02_Start.tla: delivery under test-controlled chunking from the very first byte of the
// connection, the writer writing immediately after its handshake call returned.

// StartEnd is one end after its handshake call returned.
type StartEnd struct {
	W     func() (io.Writer, error) // where this end writes (a stream is opened lazily by muxed layers)
	R     func() (io.Reader, error) // where this end reads what the other end wrote there
	Close func()
}

type StartCfg struct {
	Layer    string
	Variants []string
	// Dial / Accept are the two handshake calls (initiator / responder); the driver runs each on its own
	// goroutine over the two ends of a HeldPair.
	Dial   func(variant string, c net.Conn) (*StartEnd, error)
	Accept func(variant string, c net.Conn) (*StartEnd, error)
	// TailWriter names the role ("init" / "resp") whose last handshake write needs no answer, so that it can
	// still be unread when that role's handshake call returns.
	TailWriter func(variant string) string
	// Async: writes reach the connection on another goroutine (a muxer's send loop) and reads are served by a
	// receive loop: the driver waits for the bytes to be written and reads in blocking mode.
	Async bool
	// Probes: how many probe handshakes count the handshake writes (the minimum is taken: a muxer may put a
	// frame of its own - yamux measures the round trip - on the connection before the handshake call returns)
	Probes int
	Sizes  []int // real plaintext lengths of the frames written right after the handshake
}

type startState struct {
	Tail             bool
	WLen, NFr, NSent int
	T, C             int
	Phase            string
	NDel             int
}

func decodeStartState(raw json.RawMessage) (startState, error) {
	var a []json.RawMessage
	var s startState
	if err := json.Unmarshal(raw, &a); err != nil {
		return s, err
	}
	if len(a) != 8 {
		return s, fmt.Errorf("start state has %d fields", len(a))
	}
	dst := []any{&s.Tail, &s.WLen, &s.NFr, &s.NSent, &s.T, &s.C, &s.Phase, &s.NDel}
	for i := range a {
		if err := json.Unmarshal(a[i], dst[i]); err != nil {
			return s, err
		}
	}
	return s, nil
}

type startRun struct {
	cfg     StartCfg
	res     *vfh.Result
	pick    Picker
	file    string
	walk    vfh.Walk
	variant string
	counts  [2]int // writes of the initiator / responder until their handshake call returned (probe)
	hlen    int
	mu      sync.Mutex
	log     []any
	gaveUp  atomic.Bool
	pair    *HeldPair
}

func (r *startRun) debug() string {
	if r.pair == nil {
		return ""
	}
	d := func(x *HeldDir) string {
		x.p.mu.Lock()
		defer x.p.mu.Unlock()
		return fmt.Sprintf("written=%d released=%d pos=%d bounds=%v holdFrom=%d waiting=%v manual=%v all=%v", len(x.buf), x.released, x.pos, x.bounds, x.holdFrom, x.waiting, x.manual, x.releaseAll)
	}
	return "AB{" + d(r.pair.AB) + "} BA{" + d(r.pair.BA) + "}"
}

func (r *startRun) note(m map[string]any) { r.mu.Lock(); r.log = append(r.log, m); r.mu.Unlock() }

func (r *startRun) mismatch(step int, class, what string, exp, got any) {
	if r.gaveUp.Load() && class != r.cfg.Layer+"-start-stall" {
		return
	}
	r.mu.Lock()
	pre := append([]any(nil), r.log...)
	r.mu.Unlock()
	r.res.AddMismatch(vfh.Mismatch{Class: class, What: fmt.Sprintf("[%s/%s start %s walk %d] %s", r.cfg.Layer, r.variant, filepath.Base(r.file), r.walk.Walk, what),
		Walk: r.walk.Walk, Step: step, Expected: exp, Got: got, Prefix: pre,
		Cfg: map[string]any{"layer": r.cfg.Layer, "variant": r.variant, "round": r.pick.Round}})
}

// autoCuts cuts automatically released stretches (handshake messages) by a seeded rule.
func (r *startRun) autoCuts(dirIdx int) func(start, end int) []int {
	mode := r.pick.Index(5, r.walk.Walk, 900+dirIdx)
	return func(start, end int) []int {
		var c []int
		switch mode {
		case 0: // whole
		case 1: // every byte
			for o := start + 1; o < end && o < start+600; o++ {
				c = append(c, o)
			}
		case 2: // the first two bytes (a length prefix) apart
			c = []int{start + 1, start + 2}
		case 3: // the last byte apart
			c = []int{end - 1}
		case 4: // in the middle and around it
			m := (start + end) / 2
			c = []int{m - 1, m, m + 1}
		}
		return c
	}
}

type startRes struct {
	end *StartEnd
	err error
}

// run executes the walk; it reports true if the walk had to be abandoned (watchdog).
func (r *startRun) run(watchdog time.Duration) (stalled bool) {
	done := make(chan struct{})
	var closers []func()
	var cmu sync.Mutex
	addCloser := func(f func()) { cmu.Lock(); closers = append(closers, f); cmu.Unlock() }
	go func() {
		defer close(done)
		defer func() {
			if p := recover(); p != nil {
				if what, ok := CodePanic(p); ok {
					r.mismatch(len(r.log), r.cfg.Layer+"-start-panic", what, "no panic", what)
					return
				}
				r.mismatch(len(r.log), "MACHINERY", fmt.Sprintf("panic in the harness: %v", p), nil, nil)
			}
		}()
		r.body(addCloser)
	}()
	select {
	case <-done:
	case <-time.After(watchdog):
		stalled = true
		r.gaveUp.Store(true)
	}
	cmu.Lock()
	for _, f := range closers {
		f()
	}
	cmu.Unlock()
	<-done
	return stalled
}

func (r *startRun) body(addCloser func(func())) {
	cfg := r.cfg
	init0, err := decodeStartState(r.walk.Init)
	if err != nil {
		r.mismatch(0, "MACHINERY", "bad init state: "+err.Error(), nil, nil)
		return
	}
	ca, cb, pair := NewHeldPair()
	r.pair = pair
	addCloser(func() { ca.Close(); cb.Close() })
	tw := cfg.TailWriter(r.variant)
	writer := tw
	if !init0.Tail {
		writer = map[string]string{"init": "resp", "resp": "init"}[tw]
	}
	dirW, dirBack, wIdx := pair.AB, pair.BA, 0
	if writer == "resp" {
		dirW, dirBack, wIdx = pair.BA, pair.AB, 1
	}
	pair.AB.SetAuto(r.autoCuts(0))
	pair.BA.SetAuto(r.autoCuts(1))
	// the last handshake write of the writer (if it is a tail) and everything behind it is released by the
	// harness, under the walk's chunking
	hold := r.counts[wIdx]
	if init0.Tail {
		hold--
	}
	dirW.HoldFrom(hold)
	ich, rch := make(chan startRes, 1), make(chan startRes, 1)
	go func() {
		var e *StartEnd
		var err error
		Guard("initiator handshake", func() { e, err = cfg.Dial(r.variant, ca) })
		if writer != "init" {
			pair.AB.Release(nil, true) // not under test in this walk: its last handshake message flows
		}
		ich <- startRes{e, err}
	}()
	go func() {
		var e *StartEnd
		var err error
		Guard("responder handshake", func() { e, err = cfg.Accept(r.variant, cb) })
		if writer != "resp" {
			pair.BA.Release(nil, true)
		}
		rch <- startRes{e, err}
	}()
	wch, rdch := ich, rch
	if writer == "resp" {
		wch, rdch = rch, ich
	}
	wr := <-wch
	if wr.err != nil {
		r.mismatch(0, cfg.Layer+"-start-handshake", fmt.Sprintf("the %s's handshake failed on a healthy connection (any chunking is allowed): %v", writer, wr.err), "nil", wr.err.Error())
		return
	}
	addCloser(wr.end.Close)
	dirBack.Release(nil, true) // (not under test in this walk: whatever the reader's end writes from now on flows)
	tailStart := dirW.Released()
	B := dirW.Written()
	if init0.Tail && B == tailStart {
		// (the reader had taken the last handshake write already: the walk runs without a pending tail)
		r.res.Inc(cfg.Layer+"_start_tail_already_read", 1)
	}
	if !init0.Tail && B > tailStart {
		// (a muxer put a frame of its own behind the handshake before the call returned - yamux measures the
		// round trip -: it is pending like a tail, uncut)
		r.res.Inc(cfg.Layer+"_start_muxer_frame_pending", 1)
	}
	r.note(map[string]any{"op": "start", "writer": writer, "tail_bytes": B - tailStart})
	led := NewLedger(cfg.Layer+"-start", Content(wIdx), false)
	// model offsets (units from the start of the tail) of the segment boundaries and their real offsets
	segM := []int{0}
	segR := []int{tailStart}
	if init0.Tail && B > tailStart {
		segM = append(segM, r.hlen)
		segR = append(segR, B)
	} else if B > tailStart {
		segR[0] = B
	}
	var cutsM []int // model offsets behind every read of the connection in this walk
	for _, st := range r.walk.Steps {
		if st.Op.Name() == "sock" {
			cutsM = append(cutsM, st.Op.I("upto"))
		}
	}
	realCuts := func(from int) []int { // cuts inside the segments from index `from` on
		var out []int
		for i := from; i+1 < len(segM); i++ {
			m0, m1, r0, r1 := segM[i], segM[i+1], segR[i], segR[i+1]
			for _, cm := range cutsM {
				switch {
				case cm == m1:
					out = append(out, r1)
				case cm > m0 && cm < m1:
					c := clip([]int{r0 + 1, r0 + 2, r0 + 3, (r0 + r1) / 2, r1 - 2, r1 - 1}, r0+1, r1-1)
					if len(c) > 0 {
						out = append(out, r.pick.Pick(c, r.walk.Walk, cm, i))
					}
				}
			}
		}
		return out
	}
	released := false
	segDone := 1
	release := func() {
		// (a muxer writes on its own schedule: whatever it puts on the connection later flows at once)
		dirW.Release(realCuts(segDone-1), cfg.Async)
		segDone = len(segM)
		released = true
	}
	var wEnd io.Writer
	var rdr *StartEnd
	var rEnd io.Reader
	getReader := func() bool {
		if rEnd != nil {
			return true
		}
		if rdr == nil {
			rr := <-rdch
			if rr.err != nil {
				r.mismatch(0, cfg.Layer+"-start-handshake", fmt.Sprintf("the reader's handshake failed on a healthy connection (any chunking is allowed): %v", rr.err), "nil", rr.err.Error())
				return false
			}
			rdr = rr.end
			addCloser(rdr.Close)
		}
		var err error
		if rEnd, err = rdr.R(); err != nil {
			r.mismatch(0, cfg.Layer+"-start-open", fmt.Sprintf("the reader cannot get at what was written: %v", err), "nil", err.Error())
			return false
		}
		if !cfg.Async {
			dirW.SetBlocking(false)
		}
		return true
	}
	big := make([]byte, 1<<17)
	readOnce := func(si, b int) bool {
		if led.Delivered >= led.Written {
			return true
		}
		if !getReader() {
			return false
		}
		var n int
		var err error
		buf := big[:b:b]
		Guard("Read", func() { n, err = rEnd.Read(buf) })
		r.note(map[string]any{"op": "read", "real": b, "n": n, "err": fmt.Sprint(err)})
		if err != nil && errors.Is(err, ErrDry) {
			// everything written has been released: the bytes are gone
			r.mismatch(si, cfg.Layer+"-start-incomplete", fmt.Sprintf("%d bytes written right after the handshake, %d delivered, nothing more in flight: bytes were lost", led.Written, led.Delivered), led.Written, led.Delivered)
			return false
		}
		if p := led.OnRead(buf, n, err, false); p != nil {
			r.mismatch(si, p.Class, p.What, p.Expected, p.Got)
			return false
		}
		return err == nil
	}
	steps := 0
	for si, st := range r.walk.Steps {
		op := st.Op
		steps++
		switch op.Name() {
		case "write":
			if wEnd == nil {
				var err error
				if wEnd, err = wr.end.W(); err != nil {
					r.mismatch(si, cfg.Layer+"-start-open", fmt.Sprintf("the writer cannot write right after its handshake: %v", err), "nil", err.Error())
					return
				}
			}
			K := r.pick.Pick(cfg.Sizes, r.walk.Walk, si)
			if op.I("k") > 1 && K < 2 {
				K = 2
			}
			before := dirW.Written()
			var n int
			var err error
			Guard(fmt.Sprintf("Write(%d bytes)", K), func() { n, err = wEnd.Write(led.Next(K)) })
			r.note(map[string]any{"op": "write", "k": op.I("k"), "real": K, "n": n, "err": fmt.Sprint(err), "before_release": !released})
			if p := led.OnWrite(K, n, err); p != nil {
				r.mismatch(si, p.Class, p.What, p.Expected, p.Got)
				return
			}
			if err != nil || n != K {
				r.mismatch(si, cfg.Layer+"-start-write", fmt.Sprintf("Write(%d) right after the handshake = (%d, %v) on a healthy connection", K, n, err), K, n)
				return
			}
			if cfg.Async {
				// (coverage only, no verdict depends on it: let the muxer's send loop put the frames on the
				// connection before the stretch is released, so that they can arrive together with the tail)
				for dirW.Written()-before < K+12 {
					time.Sleep(50 * time.Microsecond)
				}
				for last := -1; last != dirW.Written(); {
					last = dirW.Written()
					time.Sleep(500 * time.Microsecond)
				}
			}
			segM = append(segM, segM[len(segM)-1]+op.I("k"))
			segR = append(segR, dirW.Written())
			if released {
				release()
			}
			r.res.Case(fmt.Sprintf("write/%v/%v", init0.Tail, released))
		case "sock":
			if !released {
				release()
			}
			r.res.Case(fmt.Sprintf("sock/%v/%v", op.B("boundary"), op.B("coalesced")))
		case "finish":
			r.res.Case(fmt.Sprintf("finish/%d", op.I("carry")))
		case "read":
			if !released {
				release()
			}
			b := r.pick.Pick([]int{1, 2, 15, 16, 17, 100}, r.walk.Walk, si)
			if op.I("b") > 1 {
				b = r.pick.Pick([]int{4096, 70000, 1 << 17}, r.walk.Walk, si)
			}
			if !readOnce(si, b) {
				return
			}
			r.res.Case(fmt.Sprintf("read/%d", op.I("b")))
		}
	}
	// the end: everything is released; everything written right after the handshake arrives
	if !released {
		release()
	}
	dirW.Release(nil, true)
	dirBack.Release(nil, true)
	for it := 0; it < 1<<20 && led.Delivered < led.Written; it++ {
		if !readOnce(len(r.walk.Steps), 1<<17) {
			return
		}
	}
	if rdr == nil {
		// the reader's handshake must complete also when nothing was written behind it
		if !getReader() {
			return
		}
	}
	if p := led.AtEnd(); p != nil {
		r.mismatch(len(r.walk.Steps), p.Class, p.What, p.Expected, p.Got)
	}
	r.res.Count(1, steps)
	if len(r.log) >= 4 && r.walk.Walk%13 == 0 {
		r.mu.Lock()
		r.res.Sample(map[string]any{"layer": cfg.Layer + "-start", "variant": r.variant, "walk": r.walk.Walk, "executed": append([]any(nil), r.log...)})
		r.mu.Unlock()
	}
}

var errProbeTimeout = errors.New("probe handshake did not finish within 30 s")

// probe runs one handshake with everything released automatically and counts the writes of each role until
// its handshake call returned.
func startProbe(cfg StartCfg, variant string) ([2]int, error) {
	ca, cb, pair := NewHeldPair()
	defer ca.Close()
	defer cb.Close()
	type out struct {
		e   *StartEnd
		n   int
		err error
	}
	ich, rch := make(chan out, 1), make(chan out, 1)
	// (a last handshake write that needs no answer stays staged when its writer returns: release it then)
	go func() {
		e, err := cfg.Dial(variant, ca)
		n := pair.AB.NWrites()
		pair.AB.Release(nil, true)
		ich <- out{e, n, err}
	}()
	go func() {
		e, err := cfg.Accept(variant, cb)
		n := pair.BA.NWrites()
		pair.BA.Release(nil, true)
		rch <- out{e, n, err}
	}()
	var res [2]int
	for i, ch := range []chan out{ich, rch} {
		select {
		case o := <-ch:
			if o.err != nil {
				return res, o.err
			}
			defer o.e.Close()
			res[i] = o.n
		case <-time.After(30 * time.Second):
			return res, fmt.Errorf("%w: variant %s", errProbeTimeout, variant)
		}
	}
	return res, nil
}

// RunStart replays every behaviour file matching glob for every variant of cfg.
func RunStart(res *vfh.Result, cfg StartCfg, glob string, rounds, par int) error {
	files, _ := filepath.Glob(filepath.Join(vfh.In(), glob))
	sort.Strings(files)
	if len(files) == 0 {
		return fmt.Errorf("no behaviour files match %s in %s", glob, vfh.In())
	}
	counts := map[string][2]int{}
	for _, v := range cfg.Variants {
		for i := 0; i < cfg.Probes || i == 0; i++ {
			c, err := startProbe(cfg, v)
			if errors.Is(err, errProbeTimeout) {
				return err // no verdict from a watchdog
			}
			if err != nil {
				// a plain handshake over a healthy connection that hands every stretch over whole (the tail of the
				// handshake together with whatever follows it) must succeed
				res.AddMismatch(vfh.Mismatch{Class: cfg.Layer + "-start-handshake", What: fmt.Sprintf("[%s/%s start] the handshake failed on a healthy connection with coalesced delivery: %v", cfg.Layer, v, err),
					Walk: -1, Expected: "nil", Got: err.Error(), Cfg: map[string]any{"layer": cfg.Layer, "variant": v}})
				return nil
			}
			if old, ok := counts[v]; ok {
				c[0], c[1] = minInt(c[0], old[0]), minInt(c[1], old[1])
			}
			counts[v] = c
		}
	}
	res.Set(cfg.Layer+"_start_handshake_writes", fmt.Sprint(counts))
	type job struct {
		file    string
		hlen    int
		walk    vfh.Walk
		round   int
		variant string
	}
	var jobs []job
	for _, f := range files {
		hdr, walks, err := vfh.LoadWalks(f)
		if err != nil {
			return err
		}
		conf, _ := hdr["conf"].(map[string]any)
		hl, _ := conf["hlen"].(float64)
		if hl < 1 {
			return fmt.Errorf("%s: header has no conf.hlen", f)
		}
		for rd := 0; rd < rounds; rd++ {
			for _, w := range walks {
				for _, v := range cfg.Variants {
					jobs = append(jobs, job{f, int(hl), w, rd, v})
				}
			}
		}
	}
	var stalled atomic.Bool
	var stalls atomic.Int64
	ch := make(chan job)
	var wg sync.WaitGroup
	for i := 0; i < par; i++ {
		wg.Add(1)
		go func() {
			defer wg.Done()
			for j := range ch {
				if stalled.Load() {
					continue
				}
				mk := func() *startRun {
					return &startRun{cfg: cfg, res: res, file: j.file, walk: j.walk, variant: j.variant, counts: counts[j.variant], hlen: j.hlen,
						pick: Picker{Seed: uint64(vfh.Seed()), Round: j.round}}
				}
				r1 := mk()
				if r1.run(time.Duration(vfh.EnvInt("VERIF_C02_START_WATCHDOG", 20)) * time.Second) {
					res.Inc(cfg.Layer+"_start_stalls", 1)
					r1.mu.Lock()
					res.Set(fmt.Sprintf("%s_start_stall_%s_walk%d", cfg.Layer, j.variant, j.walk.Walk), fmt.Sprint(r1.log, " | ", r1.debug()))
					r1.mu.Unlock()
					if stalls.Add(1) > 3 && !stalled.Swap(true) {
						res.AddMismatch(vfh.Mismatch{Class: "MACHINERY", What: cfg.Layer + " start: more than 3 walks stalled once without stalling again when repeated", Walk: j.walk.Walk})
						continue
					}
					r2 := mk()
					if r2.run(40*time.Second) && !stalled.Swap(true) {
						r2.mismatch(len(j.walk.Steps), cfg.Layer+"-start-stall", "bytes written right after the handshake did not reach the reader (the walk stalled twice)", "delivery", "stall")
					}
				}
				res.Inc(cfg.Layer+"_start_"+j.variant, 1)
			}
		}()
	}
	for _, j := range jobs {
		ch <- j
	}
	close(ch)
	wg.Wait()
	return nil
}
