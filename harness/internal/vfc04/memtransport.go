package vfc04

// An in-memory, TCP-shaped libp2p transport for the swarm/host-level C04 harness: Dial and Listen have
// the structure of p2p/transport/tcp (OpenConnection, SetPeer, raw dial, Upgrade / UpgradeListener) but
// the raw connections are vfc04 pipes, so the harness sees and can fail every Read/Write/Close while the
// REAL upgrader, security transport, muxer, swarm and host run on top.

import (
	"context"
	"errors"
	"fmt"
	"sync"

	"github.com/libp2p/go-libp2p/core/network"
	"github.com/libp2p/go-libp2p/core/peer"
	"github.com/libp2p/go-libp2p/core/transport"
	ma "github.com/multiformats/go-multiaddr"
	mafmt "github.com/multiformats/go-multiaddr-fmt"
	manet "github.com/multiformats/go-multiaddr/net"
)

type MemNet struct {
	mu        sync.Mutex
	listeners map[int]*Listener
	nextPort  int
	nPipes    int
	// OnPipe is called for every dialled raw connection before either end is handed to the code
	OnPipe func(d, l *End)
	// OnAccept is called when the listening side takes a raw connection
	OnAccept func(l *End)
}

func NewMemNet() *MemNet { return &MemNet{listeners: map[int]*Listener{}, nextPort: 40000} }

type MemTransport struct {
	Net *MemNet
	U   transport.Upgrader
	RM  network.ResourceManager
}

var _ transport.Transport = (*MemTransport)(nil)

func tcpPort(a ma.Multiaddr) int {
	s, err := a.ValueForProtocol(ma.P_TCP)
	if err != nil {
		return 0
	}
	var p int
	fmt.Sscanf(s, "%d", &p)
	return p
}

func (t *MemTransport) Dial(ctx context.Context, raddr ma.Multiaddr, p peer.ID) (transport.CapableConn, error) {
	scope, err := t.RM.OpenConnection(network.DirOutbound, true, raddr)
	if err != nil {
		return nil, err
	}
	c, err := t.dialWithScope(ctx, raddr, p, scope)
	if err != nil {
		scope.Done()
		return nil, err
	}
	return c, nil
}

func (t *MemTransport) dialWithScope(ctx context.Context, raddr ma.Multiaddr, p peer.ID, scope network.ConnManagementScope) (transport.CapableConn, error) {
	if err := scope.SetPeer(p); err != nil {
		return nil, err
	}
	if err := ctx.Err(); err != nil {
		return nil, err
	}
	port := tcpPort(raddr)
	t.Net.mu.Lock()
	fl := t.Net.listeners[port]
	t.Net.nextPort++
	t.Net.nPipes++
	lport, n := t.Net.nextPort, t.Net.nPipes
	onPipe := t.Net.OnPipe
	t.Net.mu.Unlock()
	if fl == nil {
		return nil, errors.New("vfc04: connection refused")
	}
	select {
	case <-fl.closed:
		return nil, errors.New("vfc04: connection refused (listener closed)")
	default:
	}
	d, l := NewPipe(fmt.Sprintf("d%d", n), fmt.Sprintf("l%d", n), lport, port)
	if onPipe != nil {
		onPipe(d, l)
	}
	select {
	case fl.Ch <- l:
	default:
		return nil, errors.New("vfc04: listen backlog full")
	}
	return t.U.Upgrade(ctx, t, d, network.DirOutbound, p, scope)
}

func (t *MemTransport) CanDial(a ma.Multiaddr) bool {
	return mafmt.And(mafmt.IP, mafmt.Base(ma.P_TCP)).Matches(a)
}

func (t *MemTransport) Listen(laddr ma.Multiaddr) (transport.Listener, error) {
	port := tcpPort(laddr)
	fl := NewListener(port)
	t.Net.mu.Lock()
	if _, dup := t.Net.listeners[port]; dup {
		t.Net.mu.Unlock()
		return nil, errors.New("vfc04: address in use")
	}
	t.Net.listeners[port] = fl
	onAccept := t.Net.OnAccept
	t.Net.mu.Unlock()
	fl.OnAccept = func(c manet.Conn) {
		if onAccept != nil {
			onAccept(c.(*End))
		}
	}
	return t.U.UpgradeListener(t, fl), nil
}

func (t *MemTransport) Protocols() []int { return []int{ma.P_TCP} }
func (t *MemTransport) Proxy() bool      { return false }
func (t *MemTransport) String() string   { return "vfc04-mem" }

// Unclaimed returns raw connection ends that were queued at a listener and never taken.
func (n *MemNet) Unclaimed() []*End {
	n.mu.Lock()
	defer n.mu.Unlock()
	var out []*End
	for _, l := range n.listeners {
		for _, c := range l.Pending() {
			out = append(out, c.(*End))
		}
	}
	return out
}
