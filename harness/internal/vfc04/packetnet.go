package vfc04

// An in-memory UDP network for the QUIC part of the C04 "transports" family: endpoints implement
// net.PacketConn (quicreuse.OverrideListenUDP), every datagram passes through the harness, which can
// count it and black-hole a direction from the k-th datagram on.  Deadlines use timers, so inside a
// synctest bubble everything runs in virtual time.

import (
	"net"
	"sync"
	"time"
)

type PacketNet struct {
	mu   sync.Mutex
	cond *sync.Cond
	eps  map[string]*PacketEnd
	next int
	// Sent counts datagrams per source endpoint (by name)
	Sent map[string]int
	// DropFrom: datagrams sent by endpoint `name` are dropped from its k-th one on (1-based); 0 = never
	DropFrom map[string]int
	// OnSend is called (unlocked) for every datagram before delivery: name of the sender, its count
	OnSend func(from string, n int)
	// LastActivity is the (virtual) time of the last datagram handed to WriteTo
	LastActivity time.Time
	Total        int
}

func NewPacketNet() *PacketNet {
	n := &PacketNet{eps: map[string]*PacketEnd{}, Sent: map[string]int{}, DropFrom: map[string]int{}, next: 20000}
	n.cond = sync.NewCond(&n.mu)
	return n
}

type pkt struct {
	b    []byte
	from *net.UDPAddr
}

type PacketEnd struct {
	Name   string
	n      *PacketNet
	addr   *net.UDPAddr
	q      []pkt
	closed bool
	rdl    time.Time
	timers []*time.Timer
}

// Listen creates an endpoint. Port 0 gets a fresh port; the IP defaults to 127.0.0.1.
func (n *PacketNet) Listen(name string, laddr *net.UDPAddr) (*PacketEnd, error) {
	n.mu.Lock()
	defer n.mu.Unlock()
	a := &net.UDPAddr{IP: net.IPv4(127, 0, 0, 1)}
	if laddr != nil {
		if laddr.IP != nil && !laddr.IP.IsUnspecified() {
			a.IP = laddr.IP
		}
		a.Port = laddr.Port
	}
	if a.Port == 0 {
		n.next++
		a.Port = n.next
	}
	if _, dup := n.eps[a.String()]; dup {
		return nil, &net.OpError{Op: "listen", Net: "udp", Addr: a, Err: net.ErrClosed}
	}
	e := &PacketEnd{Name: name, n: n, addr: a}
	n.eps[a.String()] = e
	return e, nil
}

func (n *PacketNet) Open() int {
	n.mu.Lock()
	defer n.mu.Unlock()
	return len(n.eps)
}

func (n *PacketNet) Activity() (int, time.Time) {
	n.mu.Lock()
	defer n.mu.Unlock()
	return n.Total, n.LastActivity
}

func (e *PacketEnd) ReadFrom(p []byte) (int, net.Addr, error) {
	e.n.mu.Lock()
	defer e.n.mu.Unlock()
	for {
		if e.closed {
			return 0, nil, net.ErrClosed
		}
		if len(e.q) > 0 {
			k := e.q[0]
			e.q = e.q[1:]
			c := copy(p, k.b)
			return c, k.from, nil
		}
		if !e.rdl.IsZero() && !time.Now().Before(e.rdl) {
			return 0, nil, timeoutErr{}
		}
		e.n.cond.Wait()
	}
}

func (e *PacketEnd) WriteTo(p []byte, addr net.Addr) (int, error) {
	e.n.mu.Lock()
	if e.closed {
		e.n.mu.Unlock()
		return 0, net.ErrClosed
	}
	e.n.Sent[e.Name]++
	cnt := e.n.Sent[e.Name]
	e.n.Total++
	e.n.LastActivity = time.Now()
	drop := e.n.DropFrom[e.Name] > 0 && cnt >= e.n.DropFrom[e.Name]
	cb := e.n.OnSend
	var dst *PacketEnd
	if ua, ok := addr.(*net.UDPAddr); ok {
		key := (&net.UDPAddr{IP: ua.IP, Port: ua.Port}).String()
		if ua.IP == nil || ua.IP.IsUnspecified() {
			key = (&net.UDPAddr{IP: net.IPv4(127, 0, 0, 1), Port: ua.Port}).String()
		}
		dst = e.n.eps[key]
	}
	if dst != nil && !drop && !dst.closed && len(dst.q) < 4096 {
		dst.q = append(dst.q, pkt{b: append([]byte(nil), p...), from: e.addr})
		e.n.cond.Broadcast()
	}
	e.n.mu.Unlock()
	if cb != nil {
		cb(e.Name, cnt)
	}
	return len(p), nil
}

func (e *PacketEnd) Close() error {
	e.n.mu.Lock()
	defer e.n.mu.Unlock()
	if e.closed {
		return net.ErrClosed
	}
	e.closed = true
	delete(e.n.eps, e.addr.String())
	for _, t := range e.timers {
		t.Stop()
	}
	e.timers = nil
	e.n.cond.Broadcast()
	return nil
}

func (e *PacketEnd) LocalAddr() net.Addr { return e.addr }
func (e *PacketEnd) SetDeadline(t time.Time) error {
	return e.SetReadDeadline(t)
}
func (e *PacketEnd) SetReadDeadline(t time.Time) error {
	e.n.mu.Lock()
	defer e.n.mu.Unlock()
	if e.closed {
		return net.ErrClosed
	}
	e.rdl = t
	if !t.IsZero() {
		d := time.Until(t)
		if d < 0 {
			d = 0
		}
		e.timers = append(e.timers, time.AfterFunc(d, func() {
			e.n.mu.Lock()
			e.n.cond.Broadcast()
			e.n.mu.Unlock()
		}))
		if len(e.timers) > 64 {
			e.timers = e.timers[32:]
		}
	}
	e.n.cond.Broadcast()
	return nil
}
func (e *PacketEnd) SetWriteDeadline(time.Time) error { return nil }

var _ net.PacketConn = (*PacketEnd)(nil)
