// Package vfc04 is the shared helper of the C04 harnesses (upgrader, tcp transport, swarm, host): an
// in-memory, buffered, full-duplex raw connection whose every Read/Write/Close the harness sees and
// can fail at a chosen operation index; a fake manet.Listener handing out such connections; a
// recorder for the observable ledger validated by spec/C04_Obs.tla; resource-manager stat helpers
// and a goroutine census for synctest bubbles. It lives only in /verif/harness (overlay).
package vfc04

import (
	"errors"
	"fmt"
	"io"
	"net"
	"os"
	"regexp"
	"runtime"
	"sort"
	"strings"
	"sync"
	"testing"
	"testing/synctest"
	"time"

	"github.com/libp2p/go-libp2p/core/network"
	"github.com/libp2p/go-libp2p/internal/vfh"
	rcmgr "github.com/libp2p/go-libp2p/p2p/host/resource-manager"
	ma "github.com/multiformats/go-multiaddr"
	manet "github.com/multiformats/go-multiaddr/net"
)

// ---------------------------------------------------------------------------------------------
// faults

// Fault kinds on the raw connection (fired when the End's operation counter reaches K):
//
//	"err"   the operation returns an injected error (read error / write error); sticky
//	"eof"   the network path is cut: this end reads EOF / writes fail, the other end reads EOF after
//	        draining what was already delivered
//	"stall" the path is black-holed from this operation on: reads on this end block until their deadline
//	        or a local Close, writes are swallowed (the send buffer takes them), nothing is delivered
//
// Trigger kinds (the operation itself proceeds, Trig is called once, from the I/O goroutine):
//
//	"trig"  used by the harness for context cancellation / Close() racing at operation K
type Fault struct {
	Kind string
	K    int // 1-based operation index on this end (Reads and Writes counted together)
	Trig func()
}

var ErrInjected = errors.New("vfc04: injected I/O error")
var errBroken = errors.New("vfc04: broken pipe (peer gone)")

type timeoutErr struct{}

func (timeoutErr) Error() string   { return "vfc04: i/o timeout" }
func (timeoutErr) Timeout() bool   { return true }
func (timeoutErr) Temporary() bool { return true }
func (timeoutErr) Is(t error) bool { return t == os.ErrDeadlineExceeded }

// ---------------------------------------------------------------------------------------------
// pipe

type pipe struct {
	mu   sync.Mutex
	cond *sync.Cond
}

// End is one end of the in-memory connection. It implements manet.Conn.
type End struct {
	Name string // attempt/side label for the ledger
	p    *pipe
	peer *End

	in       []byte // bytes delivered to this end, not yet read
	inEOF    bool   // the writer side is gone: EOF after draining `in`
	cut      bool   // "eof" fault fired here: reads EOF at once, writes fail
	wbroken  bool   // the path was cut at the other end: writes fail
	closed   bool   // local Close was called
	Closes   int    // number of local Close calls (observable: the code closed its raw connection)
	Ops      int    // operations started on this end
	fault    *Fault
	fired    bool
	FiredOp  string // "r" or "w": the operation the fault landed on
	sticky   error
	stalled  bool
	rdl, wdl time.Time
	timers   []*time.Timer

	OnOp    func(e *End, k int, op string) // called (unlocked) at the start of every operation
	OnFire  func(e *End, k int, op string) // called (unlocked) when the fault fires
	OnClose func(e *End, first bool)       // called (unlocked) on local Close

	laddr, raddr *net.TCPAddr
	lma, rma     ma.Multiaddr
}

// NewPipe returns the two ends (a dials b): a's local address is ip:portA, b's is ip:portB.
func NewPipe(nameA, nameB string, portA, portB int) (*End, *End) {
	p := &pipe{}
	p.cond = sync.NewCond(&p.mu)
	mk := func(name string, lp, rp int) *End {
		la := &net.TCPAddr{IP: net.IPv4(127, 0, 0, 1), Port: lp}
		ra := &net.TCPAddr{IP: net.IPv4(127, 0, 0, 1), Port: rp}
		return &End{Name: name, p: p, laddr: la, raddr: ra,
			lma: ma.StringCast(fmt.Sprintf("/ip4/127.0.0.1/tcp/%d", lp)),
			rma: ma.StringCast(fmt.Sprintf("/ip4/127.0.0.1/tcp/%d", rp))}
	}
	a, b := mk(nameA, portA, portB), mk(nameB, portB, portA)
	a.peer, b.peer = b, a
	return a, b
}

func (e *End) SetFault(f *Fault) { e.p.mu.Lock(); e.fault = f; e.p.mu.Unlock() }

// begin counts the operation and fires the fault when due. Called unlocked.
func (e *End) begin(op string) {
	e.p.mu.Lock()
	e.Ops++
	k := e.Ops
	var fire *Fault
	if e.fault != nil && !e.fired && k == e.fault.K && !e.closed {
		e.fired = true
		e.FiredOp = op
		fire = e.fault
		switch fire.Kind {
		case "err":
			e.sticky = ErrInjected
		case "eof":
			e.cut = true
			e.peer.inEOF = true
			e.peer.wbroken = true
		case "stall":
			e.stalled = true
		}
		e.p.cond.Broadcast()
	}
	onop, onfire := e.OnOp, e.OnFire
	e.p.mu.Unlock()
	if onop != nil {
		onop(e, k, op)
	}
	if fire != nil {
		if onfire != nil {
			onfire(e, k, op)
		}
		if fire.Trig != nil {
			fire.Trig()
		}
	}
}

func (e *End) Read(b []byte) (int, error) {
	e.begin("r")
	e.p.mu.Lock()
	defer e.p.mu.Unlock()
	for {
		switch {
		case e.closed:
			return 0, net.ErrClosed
		case e.sticky != nil:
			return 0, e.sticky
		case e.cut:
			return 0, io.EOF
		}
		if !e.stalled {
			if len(e.in) > 0 {
				n := copy(b, e.in)
				e.in = e.in[n:]
				return n, nil
			}
			if e.inEOF {
				return 0, io.EOF
			}
		}
		if !e.rdl.IsZero() && !time.Now().Before(e.rdl) {
			return 0, timeoutErr{}
		}
		if len(b) == 0 {
			return 0, nil
		}
		e.p.cond.Wait()
	}
}

func (e *End) Write(b []byte) (int, error) {
	e.begin("w")
	e.p.mu.Lock()
	defer e.p.mu.Unlock()
	for {
		switch {
		case e.closed:
			return 0, net.ErrClosed
		case e.sticky != nil:
			return 0, e.sticky
		case e.cut:
			return 0, errBroken
		case e.wbroken:
			return 0, errBroken
		}
		if e.stalled {
			// a black-holed path: the kernel's send buffer takes the bytes, nothing is ever delivered
			return len(b), nil
		}
		if e.peer.closed {
			return 0, errBroken
		}
		e.peer.in = append(e.peer.in, b...)
		e.p.cond.Broadcast()
		return len(b), nil
	}
}

func (e *End) Close() error {
	e.p.mu.Lock()
	first := !e.closed
	e.closed = true
	e.Closes++
	e.peer.inEOF = true
	for _, t := range e.timers {
		t.Stop()
	}
	e.timers = nil
	e.p.cond.Broadcast()
	cb := e.OnClose
	e.p.mu.Unlock()
	if cb != nil {
		cb(e, first)
	}
	if !first {
		return net.ErrClosed
	}
	return nil
}

// ClosedByCode reports whether Close was called on this end.
func (e *End) ClosedByCode() bool { e.p.mu.Lock(); defer e.p.mu.Unlock(); return e.closed }
func (e *End) Fired() bool        { e.p.mu.Lock(); defer e.p.mu.Unlock(); return e.fired }
func (e *End) NOps() int          { e.p.mu.Lock(); defer e.p.mu.Unlock(); return e.Ops }

func (e *End) arm(t time.Time) {
	if t.IsZero() || e.closed {
		return
	}
	d := time.Until(t)
	if d < 0 {
		d = 0
	}
	e.timers = append(e.timers, time.AfterFunc(d, func() {
		e.p.mu.Lock()
		e.p.cond.Broadcast()
		e.p.mu.Unlock()
	}))
}
func (e *End) SetDeadline(t time.Time) error {
	e.p.mu.Lock()
	defer e.p.mu.Unlock()
	if e.closed {
		return net.ErrClosed
	}
	e.rdl, e.wdl = t, t
	e.arm(t)
	e.p.cond.Broadcast()
	return nil
}
func (e *End) SetReadDeadline(t time.Time) error {
	e.p.mu.Lock()
	defer e.p.mu.Unlock()
	if e.closed {
		return net.ErrClosed
	}
	e.rdl = t
	e.arm(t)
	e.p.cond.Broadcast()
	return nil
}
func (e *End) SetWriteDeadline(t time.Time) error {
	e.p.mu.Lock()
	defer e.p.mu.Unlock()
	if e.closed {
		return net.ErrClosed
	}
	e.wdl = t
	e.arm(t)
	e.p.cond.Broadcast()
	return nil
}
func (e *End) LocalAddr() net.Addr           { return e.laddr }
func (e *End) RemoteAddr() net.Addr          { return e.raddr }
func (e *End) LocalMultiaddr() ma.Multiaddr  { return e.lma }
func (e *End) RemoteMultiaddr() ma.Multiaddr { return e.rma }

var _ manet.Conn = (*End)(nil)

// ---------------------------------------------------------------------------------------------
// fake manet.Listener

type Listener struct {
	Ch     chan manet.Conn
	once   sync.Once
	closed chan struct{}
	Closes int
	mu     sync.Mutex
	// OnAccept is called when a queued raw connection is handed to the code under test
	OnAccept func(c manet.Conn)
	addr     *net.TCPAddr
	maddr  ma.Multiaddr
}

func NewListener(port int) *Listener {
	return &Listener{Ch: make(chan manet.Conn, 16), closed: make(chan struct{}),
		addr:  &net.TCPAddr{IP: net.IPv4(127, 0, 0, 1), Port: port},
		maddr: ma.StringCast(fmt.Sprintf("/ip4/127.0.0.1/tcp/%d", port))}
}
func (l *Listener) Accept() (manet.Conn, error) {
	select {
	case <-l.closed:
		return nil, net.ErrClosed
	default:
	}
	select {
	case c := <-l.Ch:
		if l.OnAccept != nil {
			l.OnAccept(c)
		}
		return c, nil
	case <-l.closed:
		return nil, net.ErrClosed
	}
}
func (l *Listener) Close() error {
	l.mu.Lock()
	l.Closes++
	l.mu.Unlock()
	l.once.Do(func() { close(l.closed) })
	return nil
}
func (l *Listener) NCloses() int            { l.mu.Lock(); defer l.mu.Unlock(); return l.Closes }
func (l *Listener) Multiaddr() ma.Multiaddr { return l.maddr }
func (l *Listener) Addr() net.Addr          { return l.addr }

// Pending returns connections handed to the listener that nobody accepted (the harness owns them).
func (l *Listener) Pending() []manet.Conn {
	var out []manet.Conn
	for {
		select {
		case c := <-l.Ch:
			out = append(out, c)
		default:
			return out
		}
	}
}

var _ manet.Listener = (*Listener)(nil)

// ---------------------------------------------------------------------------------------------
// resource manager helpers

// Limits builds a fixed limiter: everything unlimited except what `mod` changes.
func Limits(mod func(c *rcmgr.PartialLimitConfig)) rcmgr.Limiter {
	var pc rcmgr.PartialLimitConfig
	if mod != nil {
		mod(&pc)
	}
	return rcmgr.NewFixedLimiter(pc.Build(rcmgr.InfiniteLimits))
}

func NewRM(mod func(c *rcmgr.PartialLimitConfig)) (network.ResourceManager, error) {
	return rcmgr.NewResourceManager(Limits(mod), rcmgr.WithMetricsDisabled())
}

// Usage is the JSON-able picture of a resource manager compared by C04_Obs audits.
type Usage struct {
	Sys   [7]int64 `json:"sys"`   // streamsIn, streamsOut, connsIn, connsOut, fd, memory, 0
	Trans [7]int64 `json:"trans"` // same for the transient scope
	Other int64    `json:"other"` // sum of |usage| over every service, protocol and peer scope
}

func statVec(s network.ScopeStat) [7]int64 {
	return [7]int64{int64(s.NumStreamsInbound), int64(s.NumStreamsOutbound), int64(s.NumConnsInbound),
		int64(s.NumConnsOutbound), int64(s.NumFD), s.Memory, 0}
}
func vecSum(v [7]int64) int64 {
	var t int64
	for _, x := range v {
		if x < 0 {
			x = -x
		}
		t += x
	}
	return t
}

func ReadUsage(rm network.ResourceManager) Usage {
	var u Usage
	st, ok := rm.(rcmgr.ResourceManagerState)
	if ok {
		all := st.Stat()
		u.Sys, u.Trans = statVec(all.System), statVec(all.Transient)
		for _, s := range all.Services {
			u.Other += vecSum(statVec(s))
		}
		for _, s := range all.Protocols {
			u.Other += vecSum(statVec(s))
		}
		for _, s := range all.Peers {
			u.Other += vecSum(statVec(s))
		}
		return u
	}
	rm.ViewSystem(func(s network.ResourceScope) error { u.Sys = statVec(s.Stat()); return nil })
	rm.ViewTransient(func(s network.ResourceScope) error { u.Trans = statVec(s.Stat()); return nil })
	return u
}

func (u Usage) Map() map[string]any {
	return map[string]any{
		"sIn": u.Sys[0], "sOut": u.Sys[1], "cIn": u.Sys[2], "cOut": u.Sys[3], "fd": u.Sys[4], "mem": u.Sys[5],
		"tsIn": u.Trans[0], "tsOut": u.Trans[1], "tcIn": u.Trans[2], "tcOut": u.Trans[3], "tfd": u.Trans[4], "tmem": u.Trans[5],
		"other": u.Other,
	}
}

// ---------------------------------------------------------------------------------------------
// goroutine census inside a synctest bubble

var reBubble = regexp.MustCompile(`synctest bubble (\d+)`)

// Census returns the stacks of the goroutines that belong to the calling goroutine's synctest
// bubble, excluding the caller itself. Frames are summarised (function names of the top frames).
func Census() []string {
	buf := make([]byte, 1<<20)
	for {
		n := runtime.Stack(buf, true)
		if n < len(buf) {
			buf = buf[:n]
			break
		}
		buf = make([]byte, 2*len(buf))
	}
	blocks := strings.Split(string(buf), "\n\n")
	if len(blocks) == 0 {
		return nil
	}
	// the first block is the calling goroutine
	m := reBubble.FindStringSubmatch(firstLine(blocks[0]))
	if m == nil {
		return nil
	}
	mine := m[1]
	var out []string
	for _, b := range blocks[1:] {
		h := firstLine(b)
		mm := reBubble.FindStringSubmatch(h)
		if mm == nil || mm[1] != mine {
			continue
		}
		if strings.Contains(b, "synctest.testingSynctestTest") || strings.Contains(b, "internal/synctest.Run(") {
			continue // the bubble's own root goroutine and the goroutine that called synctest.Test
		}
		out = append(out, summarise(b))
	}
	sort.Strings(out)
	return out
}

func firstLine(s string) string {
	if i := strings.IndexByte(s, '\n'); i >= 0 {
		return s[:i]
	}
	return s
}

var reGoID = regexp.MustCompile(`^goroutine \d+ `)

func summarise(block string) string {
	lines := strings.Split(block, "\n")
	hdr := reGoID.ReplaceAllString(lines[0], "")
	var fns []string
	for _, ln := range lines[1:] {
		if strings.HasPrefix(ln, "\t") || ln == "" {
			continue
		}
		if i := strings.LastIndex(ln, "("); i > 0 {
			ln = ln[:i]
		}
		if strings.HasPrefix(ln, "created by ") {
			fns = append(fns, "<-"+strings.TrimPrefix(ln, "created by "))
			continue
		}
		if j := strings.LastIndex(ln, "/"); j >= 0 {
			ln = ln[j+1:]
		}
		fns = append(fns, ln)
	}
	if len(fns) > 7 {
		fns = append(fns[:5], fns[len(fns)-2:]...)
	}
	return hdr + " " + strings.Join(fns, " < ")
}

// ---------------------------------------------------------------------------------------------
// ledger (events consumed by spec/C04_Obs.tla)

// Ledger records the observable events of one scenario. Object ids are chosen by the harness.
//
//	begin {o, kind: conn|stream, dir: in|out, rm, fd}   an attempt starts (pending holder)
//	live  {o}                                   the API handed the object to the user
//	end   {o, why}                              the attempt failed / the user's Close returned / can no longer complete
//	raw_open {o} / raw_close {o}                a raw connection was handed to the code / the code closed it
//	audit {final, live..., usage...}            Stat() read at a quiescent point
//	swarm_closed {conns, listeners}
type Ledger struct {
	T *vfh.Trace
}

func (l *Ledger) Begin(o, kind, dir, rm string, fd bool) {
	l.T.Emit("begin", "o", o, "kind", kind, "dir", dir, "rm", rm, "fd", fd)
}
func (l *Ledger) Live(o string)            { l.T.Emit("live", "o", o) }
func (l *Ledger) End(o, why, stage string) { l.T.Emit("end", "o", o, "why", why, "stage", stage) }
func (l *Ledger) RawOpen(o string)          { l.T.Emit("raw_open", "o", o) }
func (l *Ledger) RawClose(o string)         { l.T.Emit("raw_close", "o", o) }
func (l *Ledger) Audit(rm string, final bool, u Usage, gor int) {
	kv := []any{"rm", rm, "final", final, "gor", gor}
	m := u.Map()
	keys := make([]string, 0, len(m))
	for k := range m {
		keys = append(keys, k)
	}
	sort.Strings(keys)
	for _, k := range keys {
		kv = append(kv, k, m[k])
	}
	l.T.Emit("audit", kv...)
}

// ---------------------------------------------------------------------------------------------
// MuxSpy decorates the muxer handed to the real upgrader: it remembers for which raw connection
// (by local port) the muxer session was created, i.e. which attempts completed their upgrade.

type MuxSpy struct {
	network.Multiplexer
	mu    sync.Mutex
	ports map[int]bool
}

func (m *MuxSpy) NewConn(c net.Conn, server bool, scope network.PeerScope) (network.MuxedConn, error) {
	mc, err := m.Multiplexer.NewConn(c, server, scope)
	if err == nil {
		if a, ok := c.LocalAddr().(*net.TCPAddr); ok {
			m.mu.Lock()
			if m.ports == nil {
				m.ports = map[int]bool{}
			}
			m.ports[a.Port] = true
			m.mu.Unlock()
		}
	}
	return mc, err
}

// Stage returns "muxed" when the upgrade of the raw connection with that local port completed.
func (m *MuxSpy) Stage(e *End) string {
	m.mu.Lock()
	defer m.mu.Unlock()
	if e != nil && m.ports[e.laddr.Port] {
		return "muxed"
	}
	return ""
}

// ---------------------------------------------------------------------------------------------
// RunBubble runs f in its own synctest bubble under a REAL-time watchdog.
//
//	deadlock != "": the bubble could not finish: a goroutine of the scenario is durably blocked for ever
//	                (synctest's deadlock panic, recovered here) - a leaked goroutine / a call that never returns
//	hung != "":     the bubble made no progress in real time: some goroutine is blocked on something synctest
//	                does not treat as durable (typically a sync.Mutex held by a goroutine that waits for
//	                virtual time, which then cannot advance) - inconclusive, never a verdict; the goroutines
//	                of that bubble are abandoned
func RunBubble(t *testing.T, limit time.Duration, f func(t *testing.T)) (deadlock, hung string) {
	done := make(chan string, 1)
	var idMu sync.Mutex
	bubble := ""
	go func() {
		msg := ""
		defer func() {
			if r := recover(); r != nil {
				msg = fmt.Sprint(r)
			}
			done <- msg
		}()
		synctest.Test(t, func(t *testing.T) {
			buf := make([]byte, 512)
			n := runtime.Stack(buf, false)
			if m := reBubble.FindStringSubmatch(firstLine(string(buf[:n]))); m != nil {
				idMu.Lock()
				bubble = "synctest bubble " + m[1] + "]"
				idMu.Unlock()
			}
			f(t)
		})
	}()
	select {
	case msg := <-done:
		return msg, ""
	case <-time.After(limit):
		// which goroutines of a bubble are persistently NOT durably blocked (same goroutine, same state, in
		// three dumps)?  none: every goroutine waits for something that never comes and only periodic
		// timers keep the bubble alive - the scenario is blocked for ever (a verdict, like synctest's own
		// deadlock panic).  some: synctest cannot advance time past them (sync.Mutex etc.): inconclusive.
		persistent := map[string]int{}
		var blocked []string
		for i := 0; i < 3; i++ {
			buf := make([]byte, 4<<20)
			n := runtime.Stack(buf, true)
			blocked = blocked[:0]
			for _, b := range strings.Split(string(buf[:n]), "\n\n") {
				h := firstLine(b)
				idMu.Lock()
				mine := bubble != "" && strings.Contains(h, bubble)
				idMu.Unlock()
				if !mine {
					continue
				}
				if strings.Contains(h, "(durable)") {
					top := ""
					if ls := strings.SplitN(b, "\n", 3); len(ls) > 1 {
						top = ls[1]
					}
					if !strings.Contains(b, "resourceManager).background") && !strings.HasPrefix(top, "testing/synctest.testingSynctestTest(") &&
						!strings.HasPrefix(top, "internal/synctest.Run(") {
						blocked = append(blocked, summarise(b))
					}
					continue
				}
				persistent[h+" "+summarise(b)]++
			}
			time.Sleep(150 * time.Millisecond)
		}
		var keep []string
		for k, n := range persistent {
			if n == 3 {
				keep = append(keep, k)
			}
		}
		sort.Strings(keep)
		sort.Strings(blocked)
		if len(keep) == 0 {
			return "blocked for ever (only periodic timers fire): " + strings.Join(blocked, " || "), ""
		}
		return "", "no progress in real time; not durably blocked: " + strings.Join(keep, " || ")
	}
}
