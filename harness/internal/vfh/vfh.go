// Package vfh is the shared helper of the /verif conformance harnesses. It exists only in
// /verif/harness and is injected into the module with `go test -overlay`; it is never part of
// /repo. It reads behaviour files produced from TLC state graphs, writes the result file the
// python driver classifies, and records ndjson traces.
package vfh

import (
	"bufio"
	"encoding/json"
	"fmt"
	"os"
	"path/filepath"
	"sort"
	"strconv"
	"sync"
	"sync/atomic"
)

// Op is one model action with its arguments and expected observable results.
type Op map[string]any

func (o Op) Name() string { return o.S("name") }
func (o Op) S(k string) string {
	v, _ := o[k].(string)
	return v
}
func (o Op) I(k string) int {
	switch v := o[k].(type) {
	case float64:
		return int(v)
	case json.Number:
		n, _ := v.Int64()
		return int(n)
	}
	return 0
}
func (o Op) B(k string) bool {
	v, _ := o[k].(bool)
	return v
}
func (o Op) Has(k string) bool { _, ok := o[k]; return ok }
func (o Op) M(k string) map[string]any {
	v, _ := o[k].(map[string]any)
	return v
}
func (o Op) L(k string) []any {
	v, _ := o[k].([]any)
	return v
}

type Step struct {
	Op    Op              `json:"op"`
	State json.RawMessage `json:"state"`
}

type Walk struct {
	Walk  int             `json:"walk"`
	Init  json.RawMessage `json:"init"`
	Steps []Step          `json:"steps"`
}

type Header struct {
	Header map[string]any `json:"header"`
}

// LoadWalks reads a behaviour file: first line header, then one walk per line.
func LoadWalks(path string) (map[string]any, []Walk, error) {
	f, err := os.Open(path)
	if err != nil {
		return nil, nil, err
	}
	defer f.Close()
	sc := bufio.NewScanner(f)
	sc.Buffer(make([]byte, 1<<20), 1<<30)
	var hdr Header
	var walks []Walk
	first := true
	for sc.Scan() {
		line := sc.Bytes()
		if len(line) == 0 {
			continue
		}
		if first {
			first = false
			if err := json.Unmarshal(line, &hdr); err != nil {
				return nil, nil, err
			}
			continue
		}
		var w Walk
		if err := json.Unmarshal(line, &w); err != nil {
			return nil, nil, err
		}
		walks = append(walks, w)
	}
	return hdr.Header, walks, sc.Err()
}

func In() string   { return os.Getenv("VERIF_IN") }
func Out() string  { return os.Getenv("VERIF_OUT") }
func Tier() string { return os.Getenv("VERIF_TIER") }
func Thorough() bool {
	return os.Getenv("VERIF_TIER") == "thorough"
}
func Seed() int64 {
	n, err := strconv.ParseInt(os.Getenv("VERIF_SEED"), 10, 64)
	if err != nil {
		return 1
	}
	return n
}
func EnvInt(k string, def int) int {
	n, err := strconv.Atoi(os.Getenv(k))
	if err != nil {
		return def
	}
	return n
}

// Mismatch is one disagreement between the specification and the real code.
type Mismatch struct {
	Class    string `json:"class"` // stable class key (matched against known_findings.json)
	What     string `json:"what"`  // human readable
	Walk     int    `json:"walk"`  // behaviour index, -1 if not from a behaviour
	Step     int    `json:"step"`  // failing step index
	Expected any    `json:"expected,omitempty"`
	Got      any    `json:"got,omitempty"`
	Prefix   any    `json:"prefix,omitempty"` // the executed prefix (ops), so the case can be replayed alone
	Cfg      any    `json:"cfg,omitempty"`
}

// Result is what the python driver reads.
type Result struct {
	mu         sync.Mutex
	Replayed   int            `json:"replayed"` // behaviours / scenarios executed against the real code
	Steps      int            `json:"steps"`    // steps executed and compared
	Distinct   int            `json:"distinct"` // distinct non-trivial cases (harness-defined, see Rule)
	Rule       string         `json:"rule,omitempty"`
	Mismatches []Mismatch     `json:"mismatches"`
	Samples    []any          `json:"samples"`
	Traces     []string       `json:"traces,omitempty"` // ndjson trace files recorded for TLC validation
	Extra      map[string]any `json:"extra,omitempty"`
	distinct   map[string]struct{}
	perClass   map[string]int
}

func NewResult() *Result {
	return &Result{Extra: map[string]any{}, distinct: map[string]struct{}{}, Mismatches: []Mismatch{}, Samples: []any{}}
}

// AddMismatch keeps at most 3 mismatches per class and 60 classes, so that frequent classes (known
// findings, L2 divergences) cannot crowd out a new one.
func (r *Result) AddMismatch(m Mismatch) {
	r.mu.Lock()
	defer r.mu.Unlock()
	if r.perClass == nil {
		r.perClass = map[string]int{}
	}
	if r.perClass[m.Class] >= 3 || (r.perClass[m.Class] == 0 && len(r.perClass) >= 60) {
		r.perClass[m.Class]++
		return
	}
	r.perClass[m.Class]++
	r.Mismatches = append(r.Mismatches, m)
}
func (r *Result) NMismatch() int {
	r.mu.Lock()
	defer r.mu.Unlock()
	return len(r.Mismatches)
}
func (r *Result) Count(replayed, steps int) {
	r.mu.Lock()
	r.Replayed += replayed
	r.Steps += steps
	r.mu.Unlock()
}

// Case records a distinct non-trivial case key.
func (r *Result) Case(key string) {
	r.mu.Lock()
	r.distinct[key] = struct{}{}
	r.mu.Unlock()
}
func (r *Result) Sample(v any) {
	r.mu.Lock()
	if len(r.Samples) < 4 {
		r.Samples = append(r.Samples, v)
	}
	r.mu.Unlock()
}
func (r *Result) Set(k string, v any) {
	r.mu.Lock()
	r.Extra[k] = v
	r.mu.Unlock()
}
func (r *Result) Inc(k string, d int) {
	r.mu.Lock()
	n, _ := r.Extra[k].(int)
	r.Extra[k] = n + d
	r.mu.Unlock()
}

// Write stores result.json in VERIF_OUT (or prints it when unset).
func (r *Result) Write() error {
	r.mu.Lock()
	defer r.mu.Unlock()
	r.Distinct = len(r.distinct)
	b, err := json.MarshalIndent(r, "", " ")
	if err != nil {
		return err
	}
	if Out() == "" {
		fmt.Println(string(b))
		return nil
	}
	return os.WriteFile(filepath.Join(Out(), "result.json"), b, 0o644)
}

// Canon renders any JSON-able value canonically (sorted keys) for comparison.
func Canon(v any) string {
	b, err := json.Marshal(v)
	if err != nil {
		return fmt.Sprintf("!%v", err)
	}
	var x any
	if err := json.Unmarshal(b, &x); err != nil {
		return string(b)
	}
	b, _ = json.Marshal(norm(x))
	return string(b)
}

func norm(x any) any {
	switch v := x.(type) {
	case map[string]any:
		for k, e := range v {
			v[k] = norm(e)
		}
		return v
	case []any:
		for i := range v {
			v[i] = norm(v[i])
		}
		return v
	}
	return x
}

// CanonSet renders a list as a sorted set of canonical strings.
func CanonSet(l []any) []string {
	out := make([]string, 0, len(l))
	for _, e := range l {
		out = append(out, Canon(e))
	}
	sort.Strings(out)
	return out
}

// Trace is an ndjson recorder with one sequence counter. Emit is safe for concurrent use and
// assigns seq under its own mutex, so callers that emit while holding the lock that protects the
// state they describe obtain a total order consistent with that lock.
type Trace struct {
	mu   sync.Mutex
	seq  int64
	evs  []map[string]any
	off  atomic.Bool
	Name string
}

func NewTrace(name string) *Trace { return &Trace{Name: name} }

func (t *Trace) Emit(ev string, kv ...any) {
	if t == nil || t.off.Load() {
		return
	}
	m := map[string]any{"ev": ev}
	for i := 0; i+1 < len(kv); i += 2 {
		m[fmt.Sprint(kv[i])] = kv[i+1]
	}
	t.mu.Lock()
	t.seq++
	m["seq"] = t.seq
	t.evs = append(t.evs, m)
	t.mu.Unlock()
}
func (t *Trace) Stop() { t.off.Store(true) }
func (t *Trace) Len() int {
	t.mu.Lock()
	defer t.mu.Unlock()
	return len(t.evs)
}
func (t *Trace) Events() []map[string]any {
	t.mu.Lock()
	defer t.mu.Unlock()
	return append([]map[string]any(nil), t.evs...)
}

// AppendTo appends the trace (preceded by a reset marker carrying cfg) to an ndjson file.
func (t *Trace) AppendTo(path string, cfg map[string]any) error {
	f, err := os.OpenFile(path, os.O_CREATE|os.O_APPEND|os.O_WRONLY, 0o644)
	if err != nil {
		return err
	}
	defer f.Close()
	w := bufio.NewWriter(f)
	hdr := map[string]any{"ev": "reset", "trace": t.Name}
	for k, v := range cfg {
		hdr[k] = v
	}
	b, _ := json.Marshal(hdr)
	w.Write(b)
	w.WriteByte('\n')
	for _, e := range t.Events() {
		b, err := json.Marshal(e)
		if err != nil {
			return err
		}
		w.Write(b)
		w.WriteByte('\n')
	}
	return w.Flush()
}
