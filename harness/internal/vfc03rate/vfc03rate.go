// Package vfc03rate is shared by the C03rate harnesses (x/rate and p2p/host/resource-manager): the abstract
// configuration TLC printed (VFCONF), its concretisations over address families / prefix lengths / tick lengths,
// and the harness's own ledger: an integer-arithmetic oracle of token buckets and connection counts from which
// the clauses of spec/C03rate_Limiter.tla and spec/C03rate_Conn.tla are monitored (L1) independently of the model.
// It exists only in /verif/harness and is overlaid into the module; it is never part of /repo.
package vfc03rate

import (
	"encoding/json"
	"fmt"
	"net/netip"
	"sort"
	"time"
)

// ---------------------------------------------------------------------------------------------
// abstract configuration (VFCONF of C03rate_MC / C03rate_ConnMC)

type Lim struct {
	Rate  int `json:"rate"`
	Burst int `json:"burst"`
}
type NPc struct {
	Mem   []string `json:"mem"`
	Rate  int      `json:"rate"`
	Burst int      `json:"burst"`
}
type Level struct {
	Key   map[string]string `json:"key"`
	Rate  int               `json:"rate"`
	Burst int               `json:"burst"`
}
type CNPc struct {
	Mem []string `json:"mem"`
	Cap int      `json:"cap"`
}
type CLevel struct {
	Key map[string]string `json:"key"`
	Cap int               `json:"cap"`
}
type Caps struct {
	NP []int `json:"np"`
	V4 []int `json:"v4"`
	V6 []int `json:"v6"`
}
type Conf struct {
	Inst  string            `json:"inst"`
	U     int               `json:"U"`
	Grace int               `json:"grace"`
	Glob  Lim               `json:"glob"`
	Fam   map[string]string `json:"fam"`
	CFam  map[string]string `json:"cfam"`
	NP    []NPc             `json:"np"`
	V4    []Level           `json:"v4"`
	V6    []Level           `json:"v6"`
	Bids  []string          `json:"bids"`
	CNP   []CNPc            `json:"cnp"`
	C4    []CLevel          `json:"c4"`
	C6    []CLevel          `json:"c6"`
	CBids []string          `json:"cbids"`
	Caps  Caps              `json:"caps"`
}

// FlexMap decodes a TLC function with string domain, which ToJson renders as [] when it is empty.
func FlexMap[T any](raw json.RawMessage) (map[string]T, error) {
	out := map[string]T{}
	for _, c := range raw {
		if c == ' ' || c == '\n' || c == '\t' {
			continue
		}
		if c == '[' {
			var l []T
			if err := json.Unmarshal(raw, &l); err != nil {
				return nil, err
			}
			if len(l) != 0 {
				return nil, fmt.Errorf("non-empty array where a string-keyed function is expected: %s", raw)
			}
			return out, nil
		}
		break
	}
	if len(raw) == 0 {
		return out, nil
	}
	err := json.Unmarshal(raw, &out)
	return out, err
}

func ParseConf(hdr map[string]any) (*Conf, error) {
	raw, ok := hdr["conf"]
	if !ok {
		return nil, fmt.Errorf("behaviour file header has no conf")
	}
	b, err := json.Marshal(raw)
	if err != nil {
		return nil, err
	}
	c := &Conf{}
	if err := json.Unmarshal(b, c); err != nil {
		return nil, fmt.Errorf("conf: %w", err)
	}
	if c.U <= 0 {
		return nil, fmt.Errorf("conf without U")
	}
	return c, nil
}

func (c *Conf) Addrs() []string {
	out := make([]string, 0, len(c.Fam))
	for a := range c.Fam {
		out = append(out, a)
	}
	sort.Strings(out)
	return out
}
func (c *Conf) Levels(fam string) []Level {
	if fam == "v4" {
		return c.V4
	}
	return c.V6
}
func (c *Conf) CLevels(fam string) []CLevel {
	if fam == "v4" {
		return c.C4
	}
	return c.C6
}
func in(xs []string, x string) bool {
	for _, y := range xs {
		if y == x {
			return true
		}
	}
	return false
}

// InNP: indices (0-based, model order) of the rate-side network prefixes containing a.
func (c *Conf) InNP(a string) []int {
	var out []int
	for i, p := range c.NP {
		if in(p.Mem, a) {
			out = append(out, i)
		}
	}
	return out
}

// FirstCNP: 0-based index of the first conn-side network prefix containing a, -1 if none.
func (c *Conf) FirstCNP(a string) int {
	for i, p := range c.CNP {
		if in(p.Mem, a) {
			return i
		}
	}
	return -1
}

// ---------------------------------------------------------------------------------------------
// concretisations

// Variant maps the abstract configuration to concrete addresses, prefixes, prefix lengths and a tick length.
type Variant struct {
	Name   string
	Addr   map[string]netip.Addr // abstract address -> concrete (netip.Addr{} = no IP)
	NP     []netip.Prefix        // rate side, model order
	V4Len  []int                 // rate side, per level, model order (longest first)
	V6Len  []int
	CNP    []netip.Prefix // conn side, model order
	C4Len  []int          // conn side, per level, configured order
	C6Len  []int
	Tick   time.Duration
	Mapped map[string]bool // addresses to hand over in IPv4-mapped IPv6 form are already so in Addr; informational
}

func ad(s string) netip.Addr {
	if s == "" {
		return netip.Addr{}
	}
	return netip.MustParseAddr(s)
}
func pf(s string) netip.Prefix {
	// (netip.ParsePrefix refuses some spellings PrefixFrom accepts, e.g. IPv4-mapped bases)
	for i := len(s) - 1; i >= 0; i-- {
		if s[i] == '/' {
			bits := 0
			fmt.Sscanf(s[i+1:], "%d", &bits)
			return netip.PrefixFrom(netip.MustParseAddr(s[:i]), bits)
		}
	}
	panic("bad prefix " + s)
}
func addrs(kv ...string) map[string]netip.Addr {
	m := map[string]netip.Addr{}
	for i := 0; i+1 < len(kv); i += 2 {
		m[kv[i]] = ad(kv[i+1])
	}
	return m
}

const (
	s1   = time.Second
	s2   = 2 * time.Second
	s4   = 4 * time.Second
	ms5  = 500 * time.Millisecond
	ms25 = 250 * time.Millisecond
	s10  = 10 * time.Second
)

// Variants returns the concretisation family of one model instance. Every variant is verified against the
// abstract configuration by Check before use.
func Variants(inst string) []Variant {
	switch inst {
	case "sub4", "ksub":
		return []Variant{
			{Name: "24/16", V4Len: []int{24, 16}, Tick: s1,
				Addr: addrs("a", "1.2.3.4", "a2", "1.2.3.200", "b", "1.2.4.4", "c", "1.3.3.4", "x", "2001:db8::1")},
			{Name: "32/24", V4Len: []int{32, 24}, Tick: s2,
				Addr: addrs("a", "9.9.9.9", "a2", "9.9.9.9", "b", "9.9.9.8", "c", "9.9.8.9", "x", "::")},
			{Name: "31/1", V4Len: []int{31, 1}, Tick: ms5,
				Addr: addrs("a", "128.0.0.2", "a2", "128.0.0.3", "b", "128.0.0.4", "c", "127.255.255.255", "x", "fe80::1%eth0")},
			{Name: "17/16", V4Len: []int{17, 16}, Tick: s4,
				Addr: addrs("a", "10.0.128.1", "a2", "10.0.255.254", "b", "10.0.127.255", "c", "10.1.128.1", "x", "::ffff:10.0.128.1")},
			{Name: "25/8", V4Len: []int{25, 8}, Tick: ms25,
				Addr: addrs("a", "200.7.7.128", "a2", "200.7.7.255", "b", "200.7.7.127", "c", "201.7.7.128", "x", "2001:db8::1")},
		}
	case "sub4L":
		// sub4 plus one IPv6 level for x
		vs := Variants("sub4")
		for i := range vs {
			vs[i].V6Len = []int{[]int{64, 128, 10, 96, 56}[i%5]}
		}
		return vs
	case "np", "knp":
		return []Variant{
			{Name: "24in16", V4Len: []int{32}, V6Len: []int{128}, Tick: s1,
				NP:   []netip.Prefix{pf("::1/128"), pf("10.1.1.0/24"), pf("10.1.0.0/16")},
				Addr: addrs("p", "10.1.1.7", "q", "10.1.2.7", "a", "10.2.0.1", "r", "::1")},
			{Name: "25in24", V4Len: []int{25}, V6Len: []int{64}, Tick: s2,
				NP:   []netip.Prefix{pf("fe80::/10"), pf("192.168.0.128/25"), pf("192.168.0.0/24")},
				Addr: addrs("p", "192.168.0.128", "q", "192.168.0.127", "a", "192.168.1.0", "r", "fe80::1")},
			{Name: "32in31", V4Len: []int{8}, V6Len: []int{48}, Tick: ms5,
				NP:   []netip.Prefix{pf("::ffff:0:0/96"), pf("5.5.5.5/32"), pf("5.5.5.4/31")},
				Addr: addrs("p", "5.5.5.5", "q", "5.5.5.4", "a", "5.5.5.6", "r", "::ffff:5.5.5.5")},
			{Name: "hostbits", V4Len: []int{31}, V6Len: []int{127}, Tick: s4,
				// prefixes spelled with host bits set: netip.Prefix.Contains masks, so membership is the same
				NP:   []netip.Prefix{pf("2001:db8::ff/120"), pf("127.0.0.1/8"), pf("64.0.0.1/2")},
				Addr: addrs("p", "127.255.255.255", "q", "126.0.0.1", "a", "128.0.0.1", "r", "2001:db8::1")},
		}
	case "v6":
		return []Variant{
			{Name: "64/48", V4Len: []int{32}, V6Len: []int{64, 48}, Tick: s1,
				Addr: addrs("x1", "2001:db8:1:1::1", "x2", "2001:db8:1:2::1", "z", "", "a", "1.2.3.4")},
			{Name: "56/48", V4Len: []int{24}, V6Len: []int{56, 48}, Tick: s2,
				Addr: addrs("x1", "2001:db8:1:ff::", "x2", "2001:db8:1:100::", "z", "", "a", "1.2.3.4")},
			{Name: "128/64", V4Len: []int{31}, V6Len: []int{128, 64}, Tick: ms5,
				Addr: addrs("x1", "2001:db8::1", "x2", "2001:db8::2", "z", "", "a", "0.0.0.0")},
			{Name: "65/63", V4Len: []int{1}, V6Len: []int{65, 63}, Tick: s4,
				Addr: addrs("x1", "2001:db8:0:2:8000::1", "x2", "2001:db8:0:3::1", "z", "", "a", "255.255.255.255")},
			{Name: "mapped96", V4Len: []int{32}, V6Len: []int{128, 96}, Tick: ms25,
				// two IPv4-mapped addresses: one /96 "subnet" for all of IPv4 as the code sees them
				Addr: addrs("x1", "::ffff:1.2.3.4", "x2", "::ffff:200.1.1.1", "z", "", "a", "1.2.3.4")},
		}
	case "mapped":
		return []Variant{
			{Name: "128", V4Len: []int{32}, V6Len: []int{128}, Tick: s1,
				Addr: addrs("m", "::ffff:1.2.3.4", "a", "1.2.3.4", "x1", "2001:db8::1")},
			{Name: "64", V4Len: []int{24}, V6Len: []int{64}, Tick: s2,
				Addr: addrs("m", "::ffff:1.2.3.4", "a", "1.2.3.4", "x1", "2001:db8::1")},
			{Name: "104", V4Len: []int{8}, V6Len: []int{104}, Tick: ms5,
				Addr: addrs("m", "::ffff:1.2.3.4", "a", "1.2.3.4", "x1", "::ffff:2.2.3.4")},
			{Name: "56", V4Len: []int{32}, V6Len: []int{56}, Tick: s4,
				Addr: addrs("m", "::ffff:255.255.255.255", "a", "255.255.255.255", "x1", "0:0:0:100::")},
		}
	case "b0":
		return []Variant{
			{Name: "b0a", V4Len: []int{32}, V6Len: []int{64}, Tick: s2, NP: []netip.Prefix{pf("10.0.0.0/8")},
				Addr: addrs("a", "1.1.1.1", "p", "10.0.0.1", "x", "2001::1")},
			{Name: "b0b", V4Len: []int{16}, V6Len: []int{128}, Tick: s4, NP: []netip.Prefix{pf("10.255.255.255/32")},
				Addr: addrs("a", "10.255.255.254", "p", "10.255.255.255", "x", "::1")},
		}
	case "vsa":
		// rate side derived by newVerifySourceAddressRateLimiter from the connLimiter: tick = 1/sourceAddressRPS = 10 s
		return []Variant{
			{Name: "vsa32/24", V4Len: []int{32, 24}, V6Len: []int{64}, Tick: s10, NP: []netip.Prefix{pf("::1/128")},
				Addr: addrs("a", "1.2.3.4", "b", "1.2.3.5", "x", "2001:db8::1", "l", "::1")},
			{Name: "vsa25/8", V4Len: []int{25, 8}, V6Len: []int{56}, Tick: s10, NP: []netip.Prefix{pf("fe80::/10")},
				Addr: addrs("a", "77.0.0.127", "b", "77.0.0.128", "x", "2001:db8:0:100::", "l", "fe80::1")},
			// (an IPv4-mapped source cannot occur here: net.Addr.String() prints it dotted and VerifySourceAddress parses IPv4)
			{Name: "vsa31/30", V4Len: []int{31, 30}, V6Len: []int{128}, Tick: s10, NP: []netip.Prefix{pf("2001:db8:ffff::/48")},
				Addr: addrs("a", "200.0.0.1", "b", "200.0.0.2", "x", "::", "l", "2001:db8:ffff::1")},
		}
	case "vsanp":
		return []Variant{
			{Name: "vsanp24in16", V4Len: []int{32}, Tick: s10,
				NP:   []netip.Prefix{pf("::1/128"), pf("10.1.1.0/24"), pf("10.1.0.0/16")},
				Addr: addrs("p", "10.1.1.7", "q", "10.1.2.7", "l", "::1", "a", "10.2.0.1")},
			{Name: "vsanp25in23", V4Len: []int{24}, Tick: s10,
				NP:   []netip.Prefix{pf("fe80::/10"), pf("192.168.0.128/25"), pf("192.168.0.0/23")},
				Addr: addrs("p", "192.168.0.255", "q", "192.168.1.1", "l", "fe80::1", "a", "192.168.2.1")},
		}
	case "c4":
		return []Variant{
			{Name: "c24/16", C4Len: []int{24, 16}, Tick: s1, CNP: []netip.Prefix{pf("10.1.1.0/24"), pf("10.1.0.0/16")},
				Addr: addrs("a", "1.2.3.4", "a2", "1.2.3.200", "b", "1.2.4.4", "c", "1.3.3.4", "d", "1.2.255.255", "p", "10.1.1.7", "q", "10.1.2.7")},
			{Name: "c32/24", C4Len: []int{32, 24}, Tick: s1, CNP: []netip.Prefix{pf("192.168.0.128/25"), pf("192.168.0.0/24")},
				Addr: addrs("a", "9.9.9.9", "a2", "9.9.9.9", "b", "9.9.9.8", "c", "9.9.8.9", "d", "9.9.9.0", "p", "192.168.0.128", "q", "192.168.0.127")},
			{Name: "c31/1", C4Len: []int{31, 1}, Tick: s1, CNP: []netip.Prefix{pf("5.5.5.5/32"), pf("5.5.5.4/31")},
				Addr: addrs("a", "128.0.0.2", "a2", "128.0.0.3", "b", "128.0.0.4", "c", "127.255.255.255", "d", "255.255.255.255", "p", "5.5.5.5", "q", "5.5.5.4")},
			{Name: "c18/16", C4Len: []int{18, 16}, Tick: s1, CNP: []netip.Prefix{pf("127.0.0.1/8"), pf("64.0.0.1/2")},
				Addr: addrs("a", "10.0.128.1", "a2", "10.0.191.254", "b", "10.0.127.255", "c", "10.1.128.1", "d", "10.0.0.0", "p", "127.255.255.255", "q", "126.0.0.1")},
		}
	case "c6":
		return []Variant{
			{Name: "c48/56", C4Len: []int{32}, C6Len: []int{48, 56}, Tick: s1, CNP: []netip.Prefix{pf("::1/128")},
				Addr: addrs("x1", "2001:db8:1:ff::", "x2", "2001:db8:1:100::", "y", "2001:db8:2:100::", "m", "::ffff:1.2.3.4", "l", "::1", "a", "1.2.3.4", "z", "")},
			{Name: "c32/64", C4Len: []int{24}, C6Len: []int{32, 64}, Tick: s1, CNP: []netip.Prefix{pf("fe80::/10")},
				Addr: addrs("x1", "2001:db8:1:1::1", "x2", "2001:db8:1:2::1", "y", "2001:db9:1:1::1", "m", "::ffff:1.2.3.4", "l", "fe80::1", "a", "1.2.3.4", "z", "")},
			{Name: "c127/128", C4Len: []int{8}, C6Len: []int{127, 128}, Tick: s1, CNP: []netip.Prefix{pf("::ffff:9.0.0.0/104")},
				Addr: addrs("x1", "2001:db8::2", "x2", "2001:db8::3", "y", "2001:db8::4", "m", "::ffff:1.2.3.4", "l", "::ffff:9.2.3.4", "a", "1.2.3.4", "z", "")},
		}
	case "joint", "jointM", "jointL":
		return []Variant{
			{Name: "j24/16", V4Len: []int{24}, V6Len: []int{56}, C4Len: []int{24, 16}, Tick: s1,
				NP: []netip.Prefix{pf("127.0.0.0/8")}, CNP: []netip.Prefix{pf("127.0.0.0/8")},
				Addr: addrs("a", "1.2.3.4", "a2", "1.2.3.200", "b", "1.2.4.4", "p", "127.0.0.1", "z", "")},
			{Name: "j32/31", V4Len: []int{32}, V6Len: []int{48}, C4Len: []int{32, 31}, Tick: s2,
				NP: []netip.Prefix{pf("10.9.0.0/16")}, CNP: []netip.Prefix{pf("10.9.0.0/16")},
				Addr: addrs("a", "9.9.9.9", "a2", "9.9.9.9", "b", "9.9.9.8", "p", "10.9.255.255", "z", "")},
			{Name: "j17/1", V4Len: []int{17}, V6Len: []int{128}, C4Len: []int{17, 1}, Tick: ms5,
				NP: []netip.Prefix{pf("200.200.200.200/32")}, CNP: []netip.Prefix{pf("200.200.200.200/32")},
				Addr: addrs("a", "10.0.128.1", "a2", "10.0.255.254", "b", "10.0.127.255", "p", "200.200.200.200", "z", "")},
		}
	}
	return nil
}

func fam4(a netip.Addr) bool { return a.Is4() }

func mask(a netip.Addr, bits int) (string, error) {
	p, err := a.Prefix(bits)
	if err != nil {
		return "", err
	}
	return p.String(), nil
}

// Check verifies that the variant induces exactly the abstract structure of the configuration: family as the code
// sees it, prefix membership, and per level the partition of the addresses into subnets; and that the model order
// of prefixes / levels is the order the code establishes.
func Check(c *Conf, v *Variant) error {
	names := c.Addrs()
	for _, a := range names {
		ca, ok := v.Addr[a]
		if !ok {
			return fmt.Errorf("variant %s: no address for %s", v.Name, a)
		}
		want := c.Fam[a]
		got := "v6"
		if fam4(ca) {
			got = "v4"
		}
		if want != got {
			return fmt.Errorf("variant %s: %s=%v is %s for the rate limiter, model says %s", v.Name, a, ca, got, want)
		}
		if c.CFam != nil {
			got = "v4"
			if !ca.IsValid() {
				got = "none"
			} else if ca.Is6() {
				got = "v6"
			}
			if c.CFam[a] != got {
				return fmt.Errorf("variant %s: %s=%v is %s for the connLimiter, model says %s", v.Name, a, ca, got, c.CFam[a])
			}
		}
	}
	if len(v.NP) != len(c.NP) || len(v.CNP) != len(c.CNP) {
		return fmt.Errorf("variant %s: %d/%d network prefixes for %d/%d", v.Name, len(v.NP), len(v.CNP), len(c.NP), len(c.CNP))
	}
	for i, p := range v.NP {
		for _, a := range names {
			if p.Contains(v.Addr[a]) != in(c.NP[i].Mem, a) {
				return fmt.Errorf("variant %s: membership of %s in rate prefix %v differs from the model", v.Name, a, p)
			}
		}
		if i > 0 && v.NP[i-1].Bits() < p.Bits() && v.NP[i-1].Addr().Is4() == p.Addr().Is4() {
			return fmt.Errorf("variant %s: rate prefixes not in the sorted order of Limiter.init", v.Name)
		}
	}
	for i, p := range v.CNP {
		for _, a := range names {
			if p.Contains(v.Addr[a]) != in(c.CNP[i].Mem, a) {
				return fmt.Errorf("variant %s: membership of %s in conn prefix %v differs from the model", v.Name, a, p)
			}
		}
		if i > 0 && v.CNP[i-1].Bits() < p.Bits() && v.CNP[i-1].Addr().Is4() == p.Addr().Is4() {
			return fmt.Errorf("variant %s: conn prefixes not in the order of sortNetworkPrefixes", v.Name)
		}
	}
	part := func(fam string, n int, lens []int, key func(i int) map[string]string, sorted bool, side string) error {
		if len(lens) != n {
			return fmt.Errorf("variant %s: %d %s %s prefix lengths for %d levels", v.Name, len(lens), side, fam, n)
		}
		for i := 0; i < n; i++ {
			if sorted && i > 0 && lens[i-1] <= lens[i] {
				return fmt.Errorf("variant %s: %s %s levels not longest-first", v.Name, side, fam)
			}
			seen := map[string]string{} // bid -> masked prefix
			rev := map[string]string{}
			for _, a := range names {
				f := c.Fam[a]
				if side == "conn" {
					f = c.CFam[a]
				}
				if f != fam {
					continue
				}
				if (side == "conn" && c.FirstCNP(a) >= 0) || (side == "rate" && len(c.InNP(a)) > 0) {
					continue // prefix-matched addresses never reach the subnet buckets
				}
				m, err := mask(v.Addr[a], lens[i])
				if err != nil {
					return fmt.Errorf("variant %s: %s/%d: %v", v.Name, a, lens[i], err)
				}
				bid := key(i)[a]
				if bid == "" || bid == "-" {
					return fmt.Errorf("variant %s: no %s key for %s at level %d", v.Name, side, a, i)
				}
				if old, ok := seen[bid]; ok && old != m {
					return fmt.Errorf("variant %s: bucket %s spans %s and %s", v.Name, bid, old, m)
				}
				if old, ok := rev[m]; ok && old != bid {
					return fmt.Errorf("variant %s: subnet %s holds buckets %s and %s", v.Name, m, old, bid)
				}
				seen[bid], rev[m] = m, bid
			}
		}
		return nil
	}
	if err := part("v4", len(c.V4), v.V4Len, func(i int) map[string]string { return c.V4[i].Key }, true, "rate"); err != nil {
		return err
	}
	if err := part("v6", len(c.V6), v.V6Len, func(i int) map[string]string { return c.V6[i].Key }, true, "rate"); err != nil {
		return err
	}
	if c.CFam != nil {
		if err := part("v4", len(c.C4), v.C4Len, func(i int) map[string]string { return c.C4[i].Key }, false, "conn"); err != nil {
			return err
		}
		if err := part("v6", len(c.C6), v.C6Len, func(i int) map[string]string { return c.C6[i].Key }, false, "conn"); err != nil {
			return err
		}
	}
	return nil
}

// TokNs: nanoseconds per token of a bucket with `rate` units per tick (0 = unlimited).
func (c *Conf) TokNs(rate int, tick time.Duration) int64 {
	if rate == 0 {
		return 0
	}
	return int64(c.U) * int64(tick) / int64(rate)
}

// RPS of a bucket under the scale map (exact in float64 for the tick lengths used).
func (c *Conf) RPS(rate int, tick time.Duration) float64 {
	if rate == 0 {
		return 0
	}
	return float64(rate) / (float64(c.U) * tick.Seconds())
}

// ---------------------------------------------------------------------------------------------
// the ledger: token buckets in integer nanoseconds-of-refill

// Finding is one monitor verdict.
type Finding struct {
	Class string
	What  string
}

// OB is one oracle bucket: deficit in ns of refill (0 = full); Tok = ns per token; Tok == 0 = unlimited.
type OB struct {
	Name   string
	Tok    int64
	Burst  int64
	Def    int64
	ExpAt  int64 // subnet buckets: instant at which the code must have dropped it (full + grace); -1 = never charged / dropped
	Events []int64
}

func (b *OB) has() bool { return b.Tok == 0 || b.Def+b.Tok <= b.Burst*b.Tok }
func (b *OB) adv(d int64) {
	b.Def -= d
	if b.Def < 0 {
		b.Def = 0
	}
}
func (b *OB) clone() *OB {
	c := *b
	c.Events = append([]int64(nil), b.Events...)
	return &c
}

// window bound (R1): the allowed request just appended at `now` closes no window with more than Burst + rate*T
func (b *OB) boundOK(slack int64) (bool, int, int64) {
	if b.Tok == 0 {
		return true, 0, 0
	}
	n := len(b.Events)
	now := b.Events[n-1]
	for i := n - 1; i >= 0; i-- {
		cnt := int64(n - i)
		if cnt*b.Tok > b.Burst*b.Tok+(now-b.Events[i])+slack {
			return false, int(cnt), now - b.Events[i]
		}
	}
	return true, 0, 0
}

// Oracle holds the ideal (never forgotten) buckets of one limiter, charged by the documented accounting.
type Oracle struct {
	C         *Conf
	Tick      int64
	Grace     int64
	Now       int64
	Glob      *OB
	NP        []*OB
	Sub       map[string]*OB
	Slack     int64
	Ambiguous int
	Desync    bool // the real limiter took a decision the ledger cannot account for: only R1 is monitored from here on
}

func NewOracle(c *Conf, tick time.Duration) *Oracle {
	o := &Oracle{C: c, Tick: int64(tick), Grace: int64(c.Grace) * int64(tick), Sub: map[string]*OB{}}
	o.Glob = &OB{Name: "global", Tok: c.TokNs(c.Glob.Rate, tick), Burst: int64(c.Glob.Burst), ExpAt: -1}
	for i, p := range c.NP {
		o.NP = append(o.NP, &OB{Name: fmt.Sprintf("np%d", i+1), Tok: c.TokNs(p.Rate, tick), Burst: int64(p.Burst), ExpAt: -1})
	}
	for _, f := range []string{"v4", "v6"} {
		for _, l := range c.Levels(f) {
			for a, bid := range l.Key {
				if c.Fam[a] != f {
					continue
				}
				if _, ok := o.Sub[bid]; !ok {
					o.Sub[bid] = &OB{Name: bid, Tok: c.TokNs(l.Rate, tick), Burst: int64(l.Burst), ExpAt: -1}
				}
			}
		}
	}
	return o
}

func (o *Oracle) Clone() *Oracle {
	c := *o
	c.Glob = o.Glob.clone()
	c.NP = nil
	for _, b := range o.NP {
		c.NP = append(c.NP, b.clone())
	}
	c.Sub = map[string]*OB{}
	for k, b := range o.Sub {
		c.Sub[k] = b.clone()
	}
	return &c
}

func (o *Oracle) Advance(d time.Duration) {
	o.Now += int64(d)
	o.Glob.adv(int64(d))
	for _, b := range o.NP {
		b.adv(int64(d))
	}
	for _, b := range o.Sub {
		b.adv(int64(d))
	}
}

// chain returns the buckets applicable to a in consultation order, and whether a is prefix-matched.
func (o *Oracle) chain(a string) ([]*OB, bool) {
	if np := o.C.InNP(a); len(np) > 0 {
		var out []*OB
		for _, i := range np {
			out = append(out, o.NP[i])
		}
		return out, true
	}
	var out []*OB
	for _, l := range o.C.Levels(o.C.Fam[a]) {
		out = append(out, o.Sub[l.Key[a]])
	}
	return append(out, o.Glob), false
}

// Decide: the documented decision (R2) without changing the ledger: index in the chain of the refusing bucket, -1 = allow.
func (o *Oracle) Decide(a string) (bool, string) {
	ch, _ := o.chain(a)
	for _, b := range ch {
		if !b.has() {
			return false, b.Name
		}
	}
	return true, ""
}

// ReachesSubnet: whether Allow(a) runs SubnetLimiter.Allow (and hence cleanUp).
func (o *Oracle) ReachesSubnet(a string) bool { return len(o.C.InNP(a)) == 0 }

// Observe feeds one result of the real limiter into the ledger and returns the clauses it breaks.
func (o *Oracle) Observe(a string, ok bool) []Finding {
	var out []Finding
	ch, _ := o.chain(a)
	wantOK, by := o.Decide(a)
	if ok {
		for _, b := range ch {
			if b.Tok == 0 {
				continue
			}
			b.Events = append(b.Events, o.Now)
			if good, cnt, span := b.boundOK(o.Slack); !good {
				out = append(out, Finding{"rate-bound-exceeded", fmt.Sprintf("bucket %s (burst %d, one token per %v): %d requests allowed within %v (address %s)",
					b.Name, b.Burst, time.Duration(b.Tok), cnt, time.Duration(span), a)})
			}
		}
		if !wantOK && !o.Desync && o.Slack > 0 && o.near(ch) {
			o.Ambiguous++ // within the float slack of a boundary: follow the code
		} else if !wantOK && !o.Desync {
			if len(out) == 0 {
				out = append(out, Finding{"L2:grant-where-ledger-refuses", fmt.Sprintf("Allow(%s) granted although bucket %s holds less than a token under the documented accounting (no window bound exceeded)", a, by)})
			}
			o.Desync = true
		}
		for _, b := range ch { // charge
			if b.Tok == 0 {
				continue
			}
			b.Def += b.Tok
			b.ExpAt = o.Now + b.Def + o.Grace
		}
		return out
	}
	if wantOK && !o.Desync && o.Slack > 0 && o.near(ch) {
		o.Ambiguous++
		o.Desync = true // which buckets were charged is not known
		return out
	}
	if wantOK && !o.Desync {
		out = append(out, Finding{"rate-spurious-refusal", fmt.Sprintf("Allow(%s) refused although every applicable bucket holds a token (R2): %s", a, o.describe(ch))})
		o.Desync = true
		return out
	}
	// refusal as documented: the buckets before the refusing one were charged (R4, as coded)
	for _, b := range ch {
		if !b.has() {
			break
		}
		if b.Tok == 0 {
			continue
		}
		b.Def += b.Tok
		b.ExpAt = o.Now + b.Def + o.Grace
	}
	return out
}

// near: some limited bucket of the chain is within Slack of the one-token boundary
func (o *Oracle) near(ch []*OB) bool {
	for _, b := range ch {
		if b.Tok == 0 {
			continue
		}
		m := b.Burst*b.Tok - b.Def - b.Tok // refill-ns above (>= 0) or below (< 0) one token
		if m < o.Slack && m > -o.Slack {
			return true
		}
	}
	return false
}

func (o *Oracle) describe(ch []*OB) string {
	s := ""
	for _, b := range ch {
		if b.Tok == 0 {
			s += fmt.Sprintf("%s=unlimited ", b.Name)
		} else {
			s += fmt.Sprintf("%s=%.2f/%d ", b.Name, float64(b.Burst*b.Tok-b.Def)/float64(b.Tok), b.Burst)
		}
	}
	return s
}

// MustBeGone / MustBeHeld (R6) for a subnet bucket right after a call that ran SubnetLimiter.Allow.
func (o *Oracle) MustBeGone(bid string) bool {
	// strictly after: at the very instant of Expiry the code drops it, its comment ("expiry before") would keep it
	b := o.Sub[bid]
	return b.ExpAt >= 0 && b.ExpAt < o.Now
}

// InGrace: full again but the grace period is not over: the code promises to keep it ("GracePeriod is the time to
// wait to remove a full capacity bucket").
func (o *Oracle) InGrace(bid string) bool {
	b := o.Sub[bid]
	return b.Def == 0 && b.ExpAt > o.Now
}
func (o *Oracle) MustBeHeld(bid string) bool {
	b := o.Sub[bid]
	return b.Def > 0
}

// ---------------------------------------------------------------------------------------------
// connection counts

type ConnLedger struct {
	C    *Conf
	Live map[string]int
}

func NewConnLedger(c *Conf) *ConnLedger { return &ConnLedger{C: c, Live: map[string]int{}} }

// Buckets applicable to a on the conn side: (name, cap, members).
type CB struct {
	Name string
	Cap  int
	Mem  []string
}

func (l *ConnLedger) Buckets(a string) []CB {
	c := l.C
	if c.CFam[a] == "none" {
		return nil
	}
	if i := c.FirstCNP(a); i >= 0 {
		var mem []string
		for _, x := range c.Addrs() {
			if c.CFam[x] != "none" && c.FirstCNP(x) == i {
				mem = append(mem, x)
			}
		}
		return []CB{{fmt.Sprintf("cnp%d", i+1), c.CNP[i].Cap, mem}}
	}
	var out []CB
	for _, lv := range c.CLevels(c.CFam[a]) {
		bid := lv.Key[a]
		var mem []string
		for _, x := range c.Addrs() {
			if c.CFam[x] == c.CFam[a] && c.FirstCNP(x) < 0 && lv.Key[x] == bid {
				mem = append(mem, x)
			}
		}
		out = append(out, CB{bid, lv.Cap, mem})
	}
	return out
}

func (l *ConnLedger) Count(b CB) int {
	n := 0
	for _, x := range b.Mem {
		n += l.Live[x]
	}
	return n
}

// Room: whether every applicable bucket has room for one more connection of a.
func (l *ConnLedger) Room(a string) (bool, string) {
	for _, b := range l.Buckets(a) {
		if l.Count(b)+1 > b.Cap {
			return false, b.Name
		}
	}
	return true, ""
}

// Admit records an admitted connection and checks the caps (L2 of C03rate_Conn / last sentence of C03).
func (l *ConnLedger) Admit(a string) []Finding {
	var out []Finding
	l.Live[a]++
	for _, b := range l.Buckets(a) {
		if n := l.Count(b); n > b.Cap {
			out = append(out, Finding{"conn-cap-exceeded", fmt.Sprintf("%d live connections in %s, cap %d (admitted %s)", n, b.Name, b.Cap, a)})
		}
	}
	return out
}
func (l *ConnLedger) Release(a string) { l.Live[a]-- }
