//go:build verif

package record_test

// Conformance harness for C08 (keys, peer IDs and signed envelopes bind identity to content):
// shared pieces.  External test package of core/record so that it can import the peer stores, the
// relay voucher record and core/peer without an import cycle.  Nothing here reads unexported state:
// every verdict is computed from return values of the public API.

import (
	"bytes"
	"context"
	"crypto/elliptic"
	"crypto/rand"
	"encoding/base64"
	"encoding/binary"
	"errors"
	"fmt"
	mrand "math/rand"
	"runtime"
	"sort"
	"sync"
	"time"

	"github.com/libp2p/go-libp2p/core/crypto"
	cpb "github.com/libp2p/go-libp2p/core/crypto/pb"
	"github.com/libp2p/go-libp2p/core/peer"
	"github.com/libp2p/go-libp2p/core/record"
	recpb "github.com/libp2p/go-libp2p/core/record/pb"
	"github.com/libp2p/go-libp2p/internal/vfh"
	"github.com/libp2p/go-libp2p/p2p/host/peerstore/pstoreds"
	"github.com/libp2p/go-libp2p/p2p/host/peerstore/pstoremem"
	rproto "github.com/libp2p/go-libp2p/p2p/protocol/circuitv2/proto"

	ds "github.com/ipfs/go-datastore"
	dssync "github.com/ipfs/go-datastore/sync"
	ma "github.com/multiformats/go-multiaddr"
	"google.golang.org/protobuf/proto"
)

// ---------------------------------------------------------------------------------------------
// a record type owned by the harness: any domain, any codec, payload = raw bytes
// ---------------------------------------------------------------------------------------------

const vfC08TestDomain = "vfC08-test-domain"

var (
	vfC08TestCodec  = []byte("/vfC08/test")
	vfC08UnregCodec = []byte{0x03, 0x09}
	vfC08Junk       = []byte{0xff, 0xff, 0xff, 0xff} // no record type parses this
)

type vfC08Rec struct {
	dom   string
	codec []byte
	data  []byte
}

func (r *vfC08Rec) Domain() string                 { return r.dom }
func (r *vfC08Rec) Codec() []byte                  { return r.codec }
func (r *vfC08Rec) MarshalRecord() ([]byte, error) { return r.data, nil }
func (r *vfC08Rec) UnmarshalRecord(b []byte) error {
	if len(b) > 0 && b[0] == 0xff {
		return errors.New("vfC08: junk payload")
	}
	r.data = append([]byte(nil), b...)
	return nil
}

// letter homomorphisms for part B: abstract strings over {1,2} -> byte strings.  Every map is
// injective on strings, so triples that differ abstractly differ concretely, and triples whose
// plain concatenations coincide abstractly coincide concretely (shifted boundaries).
type vfC08Map struct {
	name string
	img  [3][]byte
}

var vfC08Maps = []vfC08Map{
	{"direct", [3][]byte{nil, {1}, {2}}}, // letters ARE the bytes that length prefixes use
	{"ascii", [3][]byte{nil, []byte("a"), []byte("b")}},
	{"peerdom", [3][]byte{nil, []byte("libp2p-peer"), []byte("-record")}}, // <<1,2>> = the real peer-record domain
	{"codec", [3][]byte{nil, {3}, {7}}},
	{"long", [3][]byte{nil, bytes.Repeat([]byte("A"), 100), bytes.Repeat([]byte("B"), 70)}}, // two-byte uvarint lengths
}

func (m vfC08Map) apply(seq []any) []byte {
	out := []byte{}
	for _, e := range seq {
		f, _ := e.(float64)
		out = append(out, m.img[int(f)]...)
	}
	return out
}

func init() {
	record.RegisterType(&vfC08Rec{codec: vfC08TestCodec})
	// every non-empty abstract type string of length <= 3 under every letter map
	var gen func(prefix []any, n int)
	gen = func(prefix []any, n int) {
		if len(prefix) > 0 {
			for _, m := range vfC08Maps {
				record.RegisterType(&vfC08Rec{codec: m.apply(prefix)})
			}
		}
		if n == 0 {
			return
		}
		for _, l := range []float64{1, 2} {
			gen(append(append([]any{}, prefix...), l), n-1)
		}
	}
	gen(nil, 3)
}

// vfC08Unsigned is the harness's own transcription of the TLA+ operator MakeUnsigned (part B).
func vfC08Unsigned(domain string, typ, payload []byte) []byte {
	var b []byte
	for _, f := range [][]byte{[]byte(domain), typ, payload} {
		b = binary.AppendUvarint(b, uint64(len(f)))
		b = append(b, f...)
	}
	return b
}

// ---------------------------------------------------------------------------------------------
// keys
// ---------------------------------------------------------------------------------------------

// The KEY dimension of the concretisation is a FAMILY per abstract key type: ECDSA on every NIST curve the
// package accepts, RSA at several sizes, and (for every type) many fresh keys.  The first member is the
// package default.
var vfC08AbstractTypes = []string{"Ed25519", "Secp256k1", "ECDSA", "RSA"}

var vfC08Families = map[string][]string{
	"Ed25519":   {"Ed25519"},
	"Secp256k1": {"Secp256k1"},
	"ECDSA":     {"ECDSA", "ECDSA-P384", "ECDSA-P521", "ECDSA-P224"},
	// 2048 is also the minimum size the package accepts; the off-grid members have a modulus whose bit length
	// is not a multiple of 8 (or sits just beside a byte boundary)
	"RSA": {"RSA", "RSA3072", "RSA4096", "RSA2049", "RSA2050", "RSA2055", "RSA2056", "RSA3071", "RSA3073"},
}

func vfC08AllConcrete() []string {
	var out []string
	for _, a := range vfC08AbstractTypes {
		out = append(out, vfC08Families[a]...)
	}
	return out
}

func vfC08AbstractOf(kt string) string {
	for a, f := range vfC08Families {
		for _, c := range f {
			if c == kt {
				return a
			}
		}
	}
	return kt
}

// the uniform key-type profiles of the envelope replay and the byte layer (every positive clause runs over
// the whole family in TestVerifC08KeyFamily; the mixed profiles draw from the whole family)
func vfC08ConcreteTypes() []string {
	if vfh.Thorough() {
		return []string{"Ed25519", "Secp256k1", "ECDSA", "RSA", "RSA3072", "ECDSA-P384", "ECDSA-P521"}
	}
	return []string{"Ed25519", "Secp256k1", "ECDSA", "RSA"}
}

type vfC08Pair struct {
	priv crypto.PrivKey
	pub  crypto.PubKey
}

var (
	vfC08RSAOnce sync.Once
	vfC08RSAPool map[string][]vfC08Pair // generated (2048) / unmarshalled from the embedded test keys once per run
	vfC08GenMu   sync.Mutex
	vfC08GenCnt  = map[string]int{}
)

const vfC08RSAPoolSize = 3

func vfC08RSA(kt string, i int) vfC08Pair {
	vfC08RSAOnce.Do(func() {
		vfC08RSAPool = map[string][]vfC08Pair{}
		var wg sync.WaitGroup
		var mu sync.Mutex
		for j := 0; j < vfC08RSAPoolSize; j++ {
			wg.Add(1)
			go func() {
				defer wg.Done()
				priv, pub, err := crypto.GenerateKeyPairWithReader(crypto.RSA, 2048, rand.Reader)
				if err != nil {
					panic(err)
				}
				mu.Lock()
				vfC08RSAPool["RSA"] = append(vfC08RSAPool["RSA"], vfC08Pair{priv, pub})
				mu.Unlock()
			}()
		}
		for name, keys := range vfC08EmbeddedRSA {
			for _, b64 := range keys {
				raw, err := base64.StdEncoding.DecodeString(b64)
				if err != nil {
					panic(err)
				}
				priv, err := crypto.UnmarshalPrivateKey(raw)
				if err != nil {
					panic(fmt.Sprintf("vfC08: embedded %s test key does not unmarshal: %v", name, err))
				}
				vfC08RSAPool[name] = append(vfC08RSAPool[name], vfC08Pair{priv, priv.GetPublic()})
			}
		}
		wg.Wait()
		vfC08GenMu.Lock()
		vfC08GenCnt["RSA"] += vfC08RSAPoolSize
		vfC08GenMu.Unlock()
	})
	p := vfC08RSAPool[kt]
	return p[i%len(p)]
}

func vfC08Curve(kt string) elliptic.Curve {
	switch kt {
	case "ECDSA":
		return crypto.ECDSACurve
	case "ECDSA-P224":
		return elliptic.P224()
	case "ECDSA-P384":
		return elliptic.P384()
	case "ECDSA-P521":
		return elliptic.P521()
	}
	return nil
}

// vfC08Gen returns a fresh key pair of the concrete type (RSA: the i-th key of the per-run pool).
func vfC08Gen(kt string, i int) vfC08Pair {
	var priv crypto.PrivKey
	var pub crypto.PubKey
	var err error
	switch kt {
	case "RSA", "RSA3072", "RSA4096", "RSA2049", "RSA2050", "RSA2055", "RSA2056", "RSA3071", "RSA3073":
		return vfC08RSA(kt, i)
	case "Ed25519":
		priv, pub, err = crypto.GenerateKeyPairWithReader(crypto.Ed25519, 0, rand.Reader)
	case "Secp256k1":
		priv, pub, err = crypto.GenerateKeyPairWithReader(crypto.Secp256k1, 0, rand.Reader)
	case "ECDSA", "ECDSA-P224", "ECDSA-P384", "ECDSA-P521":
		priv, pub, err = crypto.GenerateECDSAKeyPairWithCurve(vfC08Curve(kt), rand.Reader)
	default:
		panic("vfC08: unknown key type " + kt)
	}
	if err != nil {
		panic(err)
	}
	vfC08GenMu.Lock()
	vfC08GenCnt[kt]++
	vfC08GenMu.Unlock()
	return vfC08Pair{priv, pub}
}

func vfC08GenCounts() map[string]int {
	vfC08GenMu.Lock()
	defer vfC08GenMu.Unlock()
	out := map[string]int{}
	for k, v := range vfC08GenCnt {
		out[k] = v
	}
	return out
}

// ---------------------------------------------------------------------------------------------
// wire decoding (trusted base: golang/protobuf) and content comparison
// ---------------------------------------------------------------------------------------------

type vfC08Content struct {
	ok  bool
	key crypto.PubKey
	typ []byte
	pay []byte
	sig []byte
}

func vfC08Decode(wire []byte) vfC08Content {
	var e recpb.Envelope
	if err := proto.Unmarshal(wire, &e); err != nil {
		return vfC08Content{}
	}
	key, err := crypto.PublicKeyFromProto(e.PublicKey)
	if err != nil {
		return vfC08Content{}
	}
	return vfC08Content{ok: true, key: key, typ: e.PayloadType, pay: e.Payload, sig: e.Signature}
}

func vfC08KeyEq(a, b crypto.PubKey) bool {
	if a == nil || b == nil {
		return false
	}
	return a.Equals(b) && b.Equals(a)
}

// diff of decoded content against a reference: the set of components that differ
func (c vfC08Content) diff(ref vfC08Content) []string {
	if !c.ok {
		return []string{"garbage"}
	}
	var d []string
	if !vfC08KeyEq(c.key, ref.key) {
		d = append(d, "key")
	}
	if !bytes.Equal(c.typ, ref.typ) {
		d = append(d, "type")
	}
	if !bytes.Equal(c.pay, ref.pay) {
		d = append(d, "payload")
	}
	if !bytes.Equal(c.sig, ref.sig) {
		d = append(d, "sig")
	}
	return d
}

func vfC08Marshal(keyPB *cpb.PublicKey, typ, pay, sig []byte) []byte {
	b, err := proto.Marshal(&recpb.Envelope{PublicKey: keyPB, PayloadType: typ, Payload: pay, Signature: sig})
	if err != nil {
		panic(err)
	}
	return b
}

func vfC08Env(wire []byte) *recpb.Envelope {
	var e recpb.Envelope
	if err := proto.Unmarshal(wire, &e); err != nil {
		panic(fmt.Sprintf("vfC08: harness wire does not decode: %v", err))
	}
	return &e
}

// ---------------------------------------------------------------------------------------------
// consumers
// ---------------------------------------------------------------------------------------------

type vfC08Accept struct {
	ok   bool
	err  error
	kind string
	dom  string // the domain the consumer asked with
	key  crypto.PubKey
	typ  []byte
	pay  []byte
	rec  record.Record
	// peer stores only
	stored    *record.Envelope
	storeSkip bool // ConsumeEnvelope failed before the store was involved
}

func vfC08DestFor(dom string) record.Record {
	switch dom {
	case peer.PeerRecordEnvelopeDomain:
		return &peer.PeerRecord{}
	case rproto.RecordDomain:
		return &rproto.ReservationVoucher{}
	case vfC08TestDomain:
		return &vfC08Rec{dom: dom, codec: vfC08TestCodec}
	}
	return &vfC08Rec{dom: dom}
}

type vfC08Book interface {
	ConsumePeerRecord(*record.Envelope, time.Duration) (bool, error)
	GetPeerRecord(peer.ID) *record.Envelope
	Addrs(peer.ID) []ma.Multiaddr
	Close() error
}

func vfC08NewBook(kind string) vfC08Book {
	if kind == "pmem" {
		return pstoremem.NewAddrBook()
	}
	opts := pstoreds.DefaultOpts()
	opts.GCPurgeInterval = 0
	opts.CacheSize = 16
	ab, err := pstoreds.NewAddrBook(context.Background(), dssync.MutexWrap(ds.NewMapDatastore()), opts)
	if err != nil {
		panic(err)
	}
	return ab
}

// vfC08Consume runs one consumer on wire bytes.  kinds: untyped (ConsumeEnvelope with dom), typed
// (ConsumeTypedEnvelope into the record type of dom), pmem / pds (identify's pipeline: ConsumeEnvelope
// with the peer-record domain, then AddrBook.ConsumePeerRecord on a fresh book), voucher (the relay
// client's pipeline: ConsumeEnvelope with the voucher domain, record must be a *ReservationVoucher).
func vfC08Consume(kind string, wire []byte, dom string) vfC08Accept {
	a := vfC08Accept{kind: kind, dom: dom}
	fill := func(env *record.Envelope, rec record.Record) {
		a.key, a.typ, a.pay, a.rec = env.PublicKey, env.PayloadType, env.RawPayload, rec
	}
	switch kind {
	case "untyped":
		env, rec, err := record.ConsumeEnvelope(wire, dom)
		if err != nil {
			a.err = err
			return a
		}
		fill(env, rec)
		a.ok = true
	case "typed", "typedgen":
		dest := vfC08DestFor(dom)
		if kind == "typedgen" {
			dest = &vfC08Rec{dom: dom} // the harness's raw record whatever the domain
		}
		env, err := record.ConsumeTypedEnvelope(wire, dest)
		if err != nil {
			a.err = err
			return a
		}
		fill(env, dest)
		a.ok = true
	case "voucher":
		a.dom = rproto.RecordDomain
		env, rec, err := record.ConsumeEnvelope(wire, rproto.RecordDomain)
		if err != nil {
			a.err = err
			return a
		}
		if _, ok := rec.(*rproto.ReservationVoucher); !ok {
			a.err = fmt.Errorf("unexpected voucher record type %T", rec)
			return a
		}
		fill(env, rec)
		a.ok = true
	case "pmem", "pds":
		a.dom = peer.PeerRecordEnvelopeDomain
		env, rec, err := record.ConsumeEnvelope(wire, peer.PeerRecordEnvelopeDomain)
		if err != nil {
			a.err = err
			a.storeSkip = true
			return a
		}
		book := vfC08NewBook(kind)
		defer book.Close()
		ok, err := book.ConsumePeerRecord(env, time.Hour)
		if err != nil || !ok {
			a.err = fmt.Errorf("ConsumePeerRecord: accepted=%v err=%v", ok, err)
			return a
		}
		fill(env, rec)
		a.ok = true
		if pr, isPR := rec.(*peer.PeerRecord); isPR {
			a.stored = book.GetPeerRecord(pr.PeerID)
		}
	default:
		panic("vfC08: unknown consumer " + kind)
	}
	return a
}

// ---------------------------------------------------------------------------------------------
// L1 monitor: the ledger of everything that was really sealed (by whom, under which domain)
// ---------------------------------------------------------------------------------------------

type vfC08Sealed struct {
	pub crypto.PubKey
	dom string
	typ []byte
	pay []byte
}

type vfC08Ledger struct{ entries []vfC08Sealed }

func (l *vfC08Ledger) add(pub crypto.PubKey, dom string, typ, pay []byte) {
	l.entries = append(l.entries, vfC08Sealed{pub, dom, append([]byte(nil), typ...), append([]byte(nil), pay...)})
}

// check returns "" when the accepted content is exactly one sealed tuple, else the smallest set of
// components in which it differs from a sealed tuple ("domain", "key+payload", ...).
func (l *vfC08Ledger) check(a vfC08Accept) string {
	best := []string{"key", "domain", "type", "payload", "x"}
	for _, e := range l.entries {
		var d []string
		if !vfC08KeyEq(a.key, e.pub) {
			d = append(d, "key")
		}
		if a.dom != e.dom {
			d = append(d, "domain")
		}
		if !bytes.Equal(a.typ, e.typ) {
			d = append(d, "type")
		}
		if !bytes.Equal(a.pay, e.pay) {
			d = append(d, "payload")
		}
		if len(d) == 0 {
			return ""
		}
		if len(d) < len(best) {
			best = d
		}
	}
	s := ""
	for i, x := range best {
		if i > 0 {
			s += "+"
		}
		s += x
	}
	return s
}

// vfC08Artefact is a self-contained description of one acceptance (wire bytes carry key and signature),
// so that `./check C08 --replay <file>` can re-run it against the current tree.
func vfC08Artefact(l *vfC08Ledger, a vfC08Accept, wire []byte) map[string]any {
	var led []map[string]any
	for _, e := range l.entries {
		kb, _ := crypto.MarshalPublicKey(e.pub)
		led = append(led, map[string]any{"key": fmt.Sprintf("%x", kb), "dom": e.dom, "typ": fmt.Sprintf("%x", e.typ), "pay": fmt.Sprintf("%x", e.pay)})
	}
	return map[string]any{"accepted": a.ok, "kind": a.kind, "domain": a.dom, "wire": fmt.Sprintf("%x", wire), "ledger": led}
}

// vfC08Monitor applies the statement's clauses to one acceptance; returns (class, what) or ("","").
func vfC08Monitor(l *vfC08Ledger, a vfC08Accept) (string, string) {
	if !a.ok {
		return "", ""
	}
	if d := l.check(a); d != "" {
		return "accepted-not-as-sealed:" + a.kind + ":" + d,
			fmt.Sprintf("%s consumer (domain %q) accepted an envelope whose %s is not what any signer sealed", a.kind, a.dom, d)
	}
	// the reported key Equals a signer's key: then it has that signer's peer ID and marshalled form
	for _, e := range l.entries {
		if !vfC08KeyEq(a.key, e.pub) {
			continue
		}
		ida, erra := peer.IDFromPublicKey(a.key)
		ide, erre := peer.IDFromPublicKey(e.pub)
		if erra != nil || erre != nil || ida != ide || !ide.MatchesPublicKey(a.key) {
			return "id-not-function-of-key:envelope-key", fmt.Sprintf("the key reported by the %s consumer Equals the signer's key but has peer ID %s instead of %s", a.kind, ida, ide)
		}
		ma_, _ := crypto.MarshalPublicKey(a.key)
		me, _ := crypto.MarshalPublicKey(e.pub)
		if !bytes.Equal(ma_, me) {
			return "marshal-not-function-of-key:envelope-key", "the key reported by the consumer Equals the signer's key but marshals to other bytes"
		}
		break
	}
	// the record handed out is the payload that was sealed
	switch r := a.rec.(type) {
	case *peer.PeerRecord:
		var want peer.PeerRecord
		if err := want.UnmarshalRecord(a.pay); err != nil || !want.Equal(r) {
			return "accepted-record-differs-from-payload:" + a.kind, "returned PeerRecord is not the sealed payload"
		}
	case *rproto.ReservationVoucher:
		var want rproto.ReservationVoucher
		if err := want.UnmarshalRecord(a.pay); err != nil || want.Relay != r.Relay || want.Peer != r.Peer || !want.Expiration.Equal(r.Expiration) {
			return "accepted-record-differs-from-payload:" + a.kind, "returned voucher is not the sealed payload"
		}
	case *vfC08Rec:
		if !bytes.Equal(r.data, a.pay) {
			return "accepted-record-differs-from-payload:" + a.kind, "returned record is not the sealed payload"
		}
	}
	if a.kind == "pmem" || a.kind == "pds" {
		pr, ok := a.rec.(*peer.PeerRecord)
		if !ok {
			return "peerstore-accepted-non-peer-record:" + a.kind, fmt.Sprintf("record type %T", a.rec)
		}
		id, err := peer.IDFromPublicKey(a.key)
		if err != nil || pr.PeerID != id {
			return "peerstore-accepted-foreign-signer:" + a.kind,
				fmt.Sprintf("%s address book accepted a peer record for %s signed by %s", a.kind, pr.PeerID, id)
		}
		if a.stored == nil {
			return "L2:peerstore-accepted-but-not-stored:" + a.kind, "GetPeerRecord returned nil after an accepted ConsumePeerRecord"
		}
		if !vfC08KeyEq(a.stored.PublicKey, a.key) || !bytes.Equal(a.stored.RawPayload, a.pay) || !bytes.Equal(a.stored.PayloadType, a.typ) {
			return "peerstore-stored-other-content:" + a.kind, "GetPeerRecord returns other content than the accepted envelope"
		}
	}
	return "", ""
}

// ---------------------------------------------------------------------------------------------
// small helpers
// ---------------------------------------------------------------------------------------------

func vfC08Workers() int {
	n := runtime.GOMAXPROCS(0)
	if n > 8 {
		n = 8
	}
	if n < 1 {
		n = 1
	}
	return n
}

// vfC08Parallel runs f(i) for i in [0,n) on a bounded pool; panics are collected as machinery errors.
func vfC08Parallel(n int, f func(i int)) error {
	var wg sync.WaitGroup
	var mu sync.Mutex
	var first error
	ch := make(chan int, n)
	for i := 0; i < n; i++ {
		ch <- i
	}
	close(ch)
	for w := 0; w < vfC08Workers(); w++ {
		wg.Add(1)
		go func() {
			defer wg.Done()
			for i := range ch {
				func() {
					defer func() {
						if r := recover(); r != nil {
							buf := make([]byte, 4096)
							buf = buf[:runtime.Stack(buf, false)]
							mu.Lock()
							if first == nil {
								first = fmt.Errorf("panic in job %d: %v\n%s", i, r, buf)
							}
							mu.Unlock()
						}
					}()
					f(i)
				}()
			}
		}()
	}
	wg.Wait()
	return first
}

func vfC08Rnd(parts ...int64) *mrand.Rand {
	var s int64 = 1469598103934665603
	for _, p := range parts {
		s = (s ^ p) * 1099511628211
	}
	return mrand.New(mrand.NewSource(s))
}

func vfC08Hex(b []byte) string {
	if len(b) > 48 {
		return fmt.Sprintf("%x..(%d bytes)", b[:48], len(b))
	}
	return fmt.Sprintf("%x", b)
}

func vfC08SortedKeys(m map[string]int) []string {
	out := make([]string, 0, len(m))
	for k := range m {
		out = append(out, k)
	}
	sort.Strings(out)
	return out
}

// counters shared by the tests (thread safe)
type vfC08Counters struct {
	mu sync.Mutex
	m  map[string]int
}

func (c *vfC08Counters) inc(k string, d int) {
	c.mu.Lock()
	if c.m == nil {
		c.m = map[string]int{}
	}
	c.m[k] += d
	c.mu.Unlock()
}
func (c *vfC08Counters) snapshot() map[string]int {
	c.mu.Lock()
	defer c.mu.Unlock()
	out := map[string]int{}
	for k, v := range c.m {
		out[k] = v
	}
	return out
}
