//go:build verif

package record_test

// C08: the KEY dimension as a family.  For every member of every key type's family (ECDSA on each NIST curve
// the package accepts, RSA at 2048 / 3072 / 4096 bits, Ed25519, secp256k1), for several keys per member
// (fresh ones, and ones searched for unusual serialisations: leading zero byte, high bit set), with the
// key obtained by GENERATION and by UNMARSHAL of each of its serialisations, every positive clause of the
// statement runs with many signatures per key:
//   sign -> verify under the signer's public key (in every obtained form), and not for another message or key;
//   Seal -> ConsumeEnvelope / ConsumeTypedEnvelope; signed peer record -> both address books;
//   ID derivation and its text forms; MarshalPublicKey / UnmarshalPublicKey equality.
// These are the concretisations of part C's conv / sign / verify / equals transitions and part A's
// unedited-envelope round trip (RoundTripA) over the key family.

import (
	"bytes"
	stdcrypto "crypto"
	"crypto/ecdsa"
	"crypto/rand"
	"fmt"
	"testing"

	"github.com/libp2p/go-libp2p/core/crypto"
	cpb "github.com/libp2p/go-libp2p/core/crypto/pb"
	"github.com/libp2p/go-libp2p/core/peer"
	"github.com/libp2p/go-libp2p/core/record"
	"github.com/libp2p/go-libp2p/internal/vfh"

	"github.com/decred/dcrd/dcrec/secp256k1/v4"
	ma "github.com/multiformats/go-multiaddr"
)

type vfC08Obtained struct {
	how  string
	priv crypto.PrivKey // nil for public-only forms
	pub  crypto.PubKey
}

func vfC08FamMismatch(res *vfh.Result, cls, what string, cfg map[string]any) {
	res.AddMismatch(vfh.Mismatch{Class: cls, What: what, Walk: -1, Step: -1, Cfg: cfg})
}

// every way the harness can obtain the same key: generation, and unmarshalling each serialisation
func vfC08ObtainAll(res *vfh.Result, kt string, kp vfC08Pair, cfg map[string]any) []vfC08Obtained {
	out := []vfC08Obtained{{"generated", kp.priv, kp.pub}, {"GetPublic", nil, kp.priv.GetPublic()}}
	akt := vfC08KT(vfC08AbstractOf(kt))
	fail := func(fn string, err error) {
		vfC08FamMismatch(res, "roundtrip-error:"+fn+":"+kt, fmt.Sprintf("%s failed on a fresh %s key: %v", fn, kt, err), cfg)
	}
	if b, err := crypto.MarshalPrivateKey(kp.priv); err != nil {
		fail("MarshalPrivateKey", err)
	} else if k, err := crypto.UnmarshalPrivateKey(b); err != nil {
		fail("UnmarshalPrivateKey", err)
	} else {
		out = append(out, vfC08Obtained{"UnmarshalPrivateKey", k, k.GetPublic()})
	}
	if b, err := kp.priv.Raw(); err != nil {
		fail("PrivRaw", err)
	} else if k, err := crypto.PrivKeyUnmarshallers[akt](b); err != nil {
		fail("PrivFromRaw", err)
	} else {
		out = append(out, vfC08Obtained{"PrivFromRaw", k, k.GetPublic()})
	}
	if std, err := crypto.PrivKeyToStdKey(kp.priv); err == nil {
		var in stdcrypto.PrivateKey = std
		if sk, ok := std.(*crypto.Secp256k1PrivateKey); ok {
			in = (*secp256k1.PrivateKey)(sk)
		}
		if k, p, err := crypto.KeyPairFromStdKey(in); err == nil {
			out = append(out, vfC08Obtained{"KeyPairFromStdKey", k, p})
		}
		if ek, ok := std.(*ecdsa.PrivateKey); ok {
			if k, p, err := crypto.ECDSAKeyPairFromKey(ek); err != nil {
				fail("ECDSAKeyPairFromKey", err)
			} else {
				out = append(out, vfC08Obtained{"ECDSAKeyPairFromKey", k, p})
			}
		}
	}
	if b, err := crypto.MarshalPublicKey(kp.pub); err != nil {
		fail("MarshalPublicKey", err)
	} else if k, err := crypto.UnmarshalPublicKey(b); err != nil {
		fail("UnmarshalPublicKey", err)
	} else {
		out = append(out, vfC08Obtained{"UnmarshalPublicKey", nil, k})
	}
	if b, err := kp.pub.Raw(); err != nil {
		fail("PubRaw", err)
	} else if k, err := crypto.PubKeyUnmarshallers[akt](b); err != nil {
		fail("PubFromRaw", err)
	} else {
		out = append(out, vfC08Obtained{"PubFromRaw", nil, k})
	}
	if pm, err := crypto.PublicKeyToProto(kp.pub); err != nil {
		fail("PublicKeyToProto", err)
	} else if k, err := crypto.PublicKeyFromProto(pm); err != nil {
		fail("PublicKeyFromProto", err)
	} else {
		out = append(out, vfC08Obtained{"PublicKeyFromProto", nil, k})
	}
	if id, err := peer.IDFromPublicKey(kp.pub); err == nil {
		if k, err := id.ExtractPublicKey(); err == nil {
			out = append(out, vfC08Obtained{"ExtractPublicKey", nil, k})
		}
	}
	return out
}

// unusual serialisations: a leading zero byte / the high bit set in the raw private or public key bytes
// (for DER-encoded keys this changes integer lengths; for fixed-width ones it exercises padding)
func vfC08Unusual(kt string, want string) (vfC08Pair, bool) {
	if vfC08AbstractOf(kt) == "RSA" {
		return vfC08Pair{}, false
	}
	tries := 700
	if kt == "ECDSA-P521" || kt == "ECDSA-P384" {
		tries = 300
	}
	for i := 0; i < tries; i++ {
		kp := vfC08Gen(kt, i)
		var b []byte
		switch want {
		case "priv-leading-zero", "priv-high-bit":
			if std, err := crypto.PrivKeyToStdKey(kp.priv); err == nil {
				if ek, ok := std.(*ecdsa.PrivateKey); ok {
					sz := (ek.Curve.Params().N.BitLen() + 7) / 8
					b = vfC08PadN(ek.D.Bytes(), sz)
				}
			}
			if b == nil {
				b, _ = kp.priv.Raw()
			}
		default:
			if std, err := crypto.PubKeyToStdKey(kp.pub); err == nil {
				if ek, ok := std.(*ecdsa.PublicKey); ok {
					sz := (ek.Curve.Params().BitSize + 7) / 8
					b = vfC08PadN(ek.X.Bytes(), sz)
					if kt == "ECDSA-P521" { // 521 bits: the top byte holds one bit
						b = b[1:]
					}
				}
			}
			if b == nil {
				b, _ = kp.pub.Raw()
				if kt == "Secp256k1" && len(b) == 33 {
					b = b[1:]
				}
			}
		}
		if len(b) == 0 {
			return vfC08Pair{}, false
		}
		switch want {
		case "priv-leading-zero", "pub-leading-zero":
			if b[0] == 0 {
				return kp, true
			}
		default:
			if b[0]&0x80 != 0 {
				return kp, true
			}
		}
	}
	return vfC08Pair{}, false
}

func vfC08FamilyOne(res *vfh.Result, cnt *vfC08Counters, kt, label string, kp, other vfC08Pair, nsig int, seed int64) {
	cfg := map[string]any{"part": "family", "keytype": kt, "key": label}
	rnd := vfC08Rnd(seed, int64(len(kt)), int64(len(label)), int64(kt[len(kt)-1]))
	forms := vfC08ObtainAll(res, kt, kp, cfg)
	refID, err := peer.IDFromPublicKey(kp.pub)
	if err != nil {
		vfC08FamMismatch(res, "roundtrip-error:IDFromPublicKey:"+kt, err.Error(), cfg)
		return
	}
	refPB, _ := crypto.MarshalPublicKey(kp.pub)
	var privs, pubs []vfC08Obtained
	for _, f := range forms {
		cnt.inc("family.forms."+kt+"."+f.how, 1)
		// every obtained form IS the key: equality, marshalled bytes, ID, type
		if !vfC08KeyEq(f.pub, kp.pub) {
			vfC08FamMismatch(res, "roundtrip-not-identity:"+f.how+":"+kt, fmt.Sprintf("the %s public key obtained by %s is not Equal to the generated one (%s)", kt, f.how, label), cfg)
			continue
		}
		if pb, err := crypto.MarshalPublicKey(f.pub); err != nil || !bytes.Equal(pb, refPB) {
			vfC08FamMismatch(res, "marshal-not-function-of-key:"+kt, fmt.Sprintf("the %s key obtained by %s marshals to other bytes (%v)", kt, f.how, err), cfg)
		}
		if id, err := peer.IDFromPublicKey(f.pub); err != nil || id != refID || !refID.MatchesPublicKey(f.pub) {
			vfC08FamMismatch(res, "id-not-function-of-key:"+kt, fmt.Sprintf("the %s key obtained by %s has ID %s, the generated one %s", kt, f.how, id, refID), cfg)
		}
		if f.pub.Type() != kp.pub.Type() {
			vfC08FamMismatch(res, "roundtrip-not-identity:"+f.how+":"+kt, "key type changed", cfg)
		}
		if f.priv != nil {
			if !(f.priv.Equals(kp.priv) && kp.priv.Equals(f.priv)) {
				vfC08FamMismatch(res, "roundtrip-not-identity:"+f.how+":"+kt, fmt.Sprintf("the %s private key obtained by %s is not Equal to the generated one (%s)", kt, f.how, label), cfg)
				continue
			}
			if id, err := peer.IDFromPrivateKey(f.priv); err != nil || id != refID || !refID.MatchesPrivateKey(f.priv) {
				vfC08FamMismatch(res, "id-not-function-of-key:"+kt, "IDFromPrivateKey differs for the private key obtained by "+f.how, cfg)
			}
			privs = append(privs, f)
		}
		pubs = append(pubs, f)
	}
	// the ID's forms
	for _, txt := range []string{refID.String(), peer.ToCid(refID).String()} {
		if back, err := peer.Decode(txt); err != nil || back != refID {
			vfC08FamMismatch(res, "roundtrip-not-identity:Decode:"+kt, fmt.Sprintf("Decode(%q): %v", txt, err), cfg)
		}
	}
	if back, err := peer.IDFromBytes([]byte(refID)); err != nil || back != refID {
		vfC08FamMismatch(res, "roundtrip-not-identity:IDFromBytes:"+kt, fmt.Sprint(err), cfg)
	}
	if len(privs) == 0 || len(pubs) == 0 {
		return
	}
	// many signatures per key, the signing form rotating
	for n := 0; n < nsig; n++ {
		signer := privs[n%len(privs)]
		msg := make([]byte, 1+rnd.Intn(96))
		for i := range msg {
			msg[i] = byte(rnd.Intn(256))
		}
		sig, err := signer.priv.Sign(msg)
		cnt.inc("family.signatures."+kt, 1)
		if err != nil {
			vfC08FamMismatch(res, "sign-error:"+kt, fmt.Sprintf("Sign with the %s key obtained by %s: %v", kt, signer.how, err), cfg)
			continue
		}
		cnt.inc(fmt.Sprintf("family.siglen.%s.%d", kt, len(sig)), 1)
		for _, v := range pubs {
			if ok, err := v.pub.Verify(msg, sig); !ok {
				vfC08FamMismatch(res, "verify-rejects-own-signature:"+kt, fmt.Sprintf("signature #%d (%d bytes) by the %s key (%s, signing form %s) does not verify under its own public key obtained by %s: %v",
					n, len(sig), kt, label, signer.how, v.how, err), cfg)
				break
			}
		}
		bad := append([]byte{}, msg...)
		bad[rnd.Intn(len(bad))] ^= 1 << uint(rnd.Intn(8))
		if ok, _ := kp.pub.Verify(bad, sig); ok {
			vfC08FamMismatch(res, "verify-accepts-mutated-message:"+kt, "a signature verifies for a message with one bit flipped", cfg)
		}
		if ok, _ := other.pub.Verify(msg, sig); ok {
			vfC08FamMismatch(res, "verify-accepts-other-key-or-message:"+kt, "a signature verifies under another key of the same family member", cfg)
		}
	}
	// Seal -> Consume, signed peer record -> both address books, with every private form
	for i, signer := range privs {
		rec := &peer.PeerRecord{PeerID: refID, Seq: uint64(100 + i), Addrs: []ma.Multiaddr{ma.StringCast(fmt.Sprintf("/ip4/10.5.%d.1/tcp/4001", i))}}
		env, err := record.Seal(rec, signer.priv)
		if err != nil {
			vfC08FamMismatch(res, "sign-error:"+kt, "Seal: "+err.Error(), cfg)
			continue
		}
		wire, err := env.Marshal()
		if err != nil {
			vfC08FamMismatch(res, "roundtrip-error:EnvelopeMarshal:"+kt, err.Error(), cfg)
			continue
		}
		if !vfC08SealCheck(res, env, wire, kp, rec, kt) {
			continue
		}
		e := vfC08Env(wire)
		var ledger vfC08Ledger
		ledger.add(kp.pub, peer.PeerRecordEnvelopeDomain, e.PayloadType, e.Payload)
		for _, kind := range []string{"untyped", "typed", "pmem", "pds"} {
			a := vfC08Consume(kind, wire, peer.PeerRecordEnvelopeDomain)
			cnt.inc("family.consume."+kind, 1)
			if cls, what := vfC08Monitor(&ledger, a); cls != "" {
				res.AddMismatch(vfh.Mismatch{Class: cls, What: what + " [" + kt + " " + label + "]", Walk: -1, Got: vfC08Artefact(&ledger, a, wire), Cfg: cfg})
			}
			if !a.ok {
				vfC08FamMismatch(res, "sealed-envelope-rejected:"+kind, fmt.Sprintf("%s rejected the unedited signed peer record of a %s key (%s, sealed with the form obtained by %s): %v", kind, kt, label, signer.how, a.err), cfg)
			}
		}
		// ... and never under another domain or for another signer's record
		if a := vfC08Consume("untyped", wire, "libp2p-relay-rsvp"); a.ok {
			if cls, what := vfC08Monitor(&ledger, a); cls != "" {
				res.AddMismatch(vfh.Mismatch{Class: cls, What: what, Walk: -1, Got: vfC08Artefact(&ledger, a, wire), Cfg: cfg})
			}
		}
	}
	res.Case("family/" + kt + "/" + label)
	res.Count(1, nsig)
}

// TestVerifC08KeyFamily runs the positive clauses over the whole key family.
func TestVerifC08KeyFamily(t *testing.T) {
	res := vfh.NewResult()
	res.Rule = "distinct = (family member, key)"
	cnt := &vfC08Counters{}
	seed := vfh.Seed()
	nsig, fresh := 40, 3
	if vfh.Thorough() {
		nsig, fresh = 200, 8
	}
	type job struct {
		kt, label string
		kp, other vfC08Pair
	}
	var jobs []job
	vfC08Gen("RSA", 0)
	for _, kt := range vfC08AllConcrete() {
		other := vfC08Gen(kt, 2)
		n := fresh
		if vfC08AbstractOf(kt) == "RSA" {
			n = 2
		}
		for i := 0; i < n; i++ {
			jobs = append(jobs, job{kt, fmt.Sprintf("fresh-%d", i), vfC08Gen(kt, i), other})
		}
	}
	// OFF-GRID parameters, freshly generated: RSA moduli of seeded random bit lengths that are not a multiple
	// of 8 (two per run in quick, eight in thorough; about 0.3 s each, in parallel)
	nOdd := 2
	if vfh.Thorough() {
		nOdd = 8
	}
	odd := make([]*job, nOdd)
	orn := vfC08Rnd(seed, 4242)
	bitsOf := make([]int, nOdd)
	for i := range bitsOf {
		for bitsOf[i]%8 == 0 {
			bitsOf[i] = crypto.MinRsaKeyBits + 1 + orn.Intn(300)
		}
	}
	if err := vfC08Parallel(2*nOdd, func(i int) {
		if i >= nOdd {
			return
		}
		priv, pub, err := crypto.GenerateKeyPairWithReader(crypto.RSA, bitsOf[i], rand.Reader)
		if err != nil {
			vfC08FamMismatch(res, "roundtrip-error:GenerateRSA", fmt.Sprintf("generating a %d-bit RSA key: %v", bitsOf[i], err), nil)
			return
		}
		odd[i] = &job{"RSA", fmt.Sprintf("fresh-%d-bit", bitsOf[i]), vfC08Pair{priv, pub}, vfC08Gen("RSA", 1)}
		cnt.inc("family.rsa-offgrid-generated", 1)
	}); err != nil {
		t.Fatalf("C08 machinery: %v", err)
	}
	for _, j := range odd {
		if j != nil {
			jobs = append(jobs, *j)
		}
	}
	// the searches for unusual serialisations run in parallel too
	type search struct{ kt, want string }
	var searches []search
	for _, kt := range vfC08AllConcrete() {
		for _, want := range []string{"priv-leading-zero", "priv-high-bit", "pub-leading-zero", "pub-high-bit"} {
			searches = append(searches, search{kt, want})
		}
	}
	found := make([]*job, len(searches))
	if err := vfC08Parallel(len(searches), func(i int) {
		if kp, ok := vfC08Unusual(searches[i].kt, searches[i].want); ok {
			found[i] = &job{searches[i].kt, searches[i].want, kp, vfC08Gen(searches[i].kt, 1)}
			cnt.inc("family.unusual-found."+searches[i].want, 1)
		}
	}); err != nil {
		t.Fatalf("C08 machinery: %v", err)
	}
	for _, j := range found {
		if j != nil {
			jobs = append(jobs, *j)
		}
	}
	if err := vfC08Parallel(len(jobs), func(i int) {
		j := jobs[i]
		vfC08FamilyOne(res, cnt, j.kt, j.label, j.kp, j.other, nsig, seed+int64(i))
	}); err != nil {
		t.Fatalf("C08 machinery: %v", err)
	}
	// size boundary of RSA: below the minimum nothing is generated or accepted
	if _, _, err := crypto.GenerateKeyPairWithReader(crypto.RSA, crypto.MinRsaKeyBits-1, rand.Reader); err == nil {
		vfC08FamMismatch(res, "L2:rsa-below-minimum-size-generated", "an RSA key below MinRsaKeyBits was generated", nil)
	}
	snap := cnt.snapshot()
	for k, v := range snap {
		res.Set(k, v)
	}
	res.Set("keys_generated", vfC08GenCounts())
	res.Set("members", vfC08AllConcrete())
	res.Sample(map[string]any{"members": vfC08AllConcrete(), "signatures_per_key": nsig})
	if err := res.Write(); err != nil {
		t.Fatal(err)
	}
}

var _ = cpb.KeyType_RSA
