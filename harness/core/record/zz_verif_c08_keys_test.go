//go:build verif

package record_test

// C08 part C: the graph of representation forms of a key and its peer ID (spec/C08_Envelope.tla,
// InitC/NextC) walked on the real conversion functions of core/crypto and core/peer, and the verify
// case matrix (same/other key x same/other/mutated message x key type x the encoding form through
// which the verifying key was obtained).

import (
	"bytes"
	"crypto/ecdsa"
	"crypto/sha256"
	"encoding/asn1"
	"encoding/json"
	"math/big"
	"fmt"
	"path/filepath"
	"strings"
	"testing"

	"github.com/libp2p/go-libp2p/core/crypto"
	cpb "github.com/libp2p/go-libp2p/core/crypto/pb"
	"github.com/libp2p/go-libp2p/core/peer"
	"github.com/libp2p/go-libp2p/core/record"
	"github.com/libp2p/go-libp2p/internal/vfh"

	"github.com/decred/dcrd/dcrec/secp256k1/v4"
	"github.com/ipfs/go-cid"
	ma "github.com/multiformats/go-multiaddr"
	mh "github.com/multiformats/go-multihash"
)

type vfC08CState struct {
	Kt   string `json:"kt"`
	Who  int    `json:"who"`
	Form string `json:"form"`
	Via  string `json:"via"`
	Sig  struct {
		Kt  string `json:"kt"`
		Who int    `json:"who"`
		M   string `json:"m"`
		Mut bool   `json:"mut"`
	} `json:"sig"`
}

// a public key of arbitrary marshalled length, for the inline threshold of IDFromPublicKey
type vfC08FakeKey struct{ raw []byte }

func (k *vfC08FakeKey) Equals(o crypto.Key) bool {
	r, _ := o.Raw()
	return o.Type() == k.Type() && bytes.Equal(r, k.raw)
}
func (k *vfC08FakeKey) Raw() ([]byte, error)               { return k.raw, nil }
func (k *vfC08FakeKey) Type() cpb.KeyType                  { return cpb.KeyType_Ed25519 }
func (k *vfC08FakeKey) Verify([]byte, []byte) (bool, error) { return false, nil }

type vfC08C struct {
	res     *vfh.Result
	cnt     *vfC08Counters
	walk    int
	step    int
	prefix  []any
	variant map[string]string // abstract key type -> the member of its family this behaviour runs with
	keys    map[string]vfC08Pair
	msgs    map[string][]byte
	cur     any
	sig     []byte // the signature held (possibly mutated)
	sigOrig []byte
	sigs    map[string][]byte
	laWho   int
	fams    map[string][]vfC08Sig
	rnd     interface{ Intn(int) int }
	allBits bool
}

func (c *vfC08C) concrete(kt string) string {
	if v, ok := c.variant[kt]; ok {
		return v
	}
	return kt
}

func (c *vfC08C) key(kt string, who int) vfC08Pair {
	k := fmt.Sprintf("%s/%d", kt, who)
	if p, ok := c.keys[k]; ok {
		return p
	}
	p := vfC08Gen(c.concrete(kt), who-1)
	c.keys[k] = p
	return p
}

func (c *vfC08C) mismatch(cls, what string, exp, got any) {
	c.res.AddMismatch(vfh.Mismatch{Class: cls, What: what, Walk: c.walk, Step: c.step, Expected: exp, Got: got,
		Prefix: append([]any(nil), c.prefix...), Cfg: map[string]any{"part": "C", "keys": c.variant}})
}

func vfC08Must[T any](v T, err error) T {
	if err != nil {
		panic(err)
	}
	return v
}

// reference value of a form, computed from the walk's reference key (never from the datum)
func (c *vfC08C) reference(kt string, who int, form string) (any, error) {
	p := c.key(kt, who)
	id, err := peer.IDFromPublicKey(p.pub)
	if err != nil {
		return nil, err
	}
	switch form {
	case "sk":
		return p.priv, nil
	case "pk":
		return p.pub, nil
	case "skpb":
		return crypto.MarshalPrivateKey(p.priv)
	case "skraw":
		return p.priv.Raw()
	case "pkpb":
		return crypto.MarshalPublicKey(p.pub)
	case "pkraw":
		return p.pub.Raw()
	case "pkproto":
		return crypto.PublicKeyToProto(p.pub)
	case "id":
		return id, nil
	case "idbin":
		return []byte(id), nil
	case "idb58":
		return id.String(), nil
	case "idcid":
		return peer.ToCid(id), nil
	case "idcidstr":
		return peer.ToCid(id).String(), nil
	case "idjson":
		return json.Marshal(id.String())
	case "idtext":
		return []byte(id.String()), nil
	case "idp2p":
		return ma.NewMultiaddr("/p2p/" + id.String())
	case "aijson":
		return json.Marshal(map[string]any{"ID": id.String(), "Addrs": []string{}})
	}
	return nil, fmt.Errorf("unknown form %s", form)
}

// is the datum the (kt, who) key / ID in this form?
func (c *vfC08C) same(kt string, who int, form string, d any) bool {
	if form == "idx" {
		// look-alikes are by construction not the ID of the key (checked when they were built); they
		// belong to (kt, who) only in the sense that they embed a serialisation of that key
		_, ok := d.([]vfC08Lookalike)
		return ok && who == c.laWho
	}
	ref, err := c.reference(kt, who, form)
	if err != nil {
		return false
	}
	switch form {
	case "sk":
		a, b := d.(crypto.PrivKey), ref.(crypto.PrivKey)
		ar, _ := a.Raw()
		br, _ := b.Raw()
		return a.Equals(b) && b.Equals(a) && crypto.KeyEqual(a, b) && a.Type() == b.Type() && bytes.Equal(ar, br) && vfC08KeyEq(a.GetPublic(), b.GetPublic())
	case "pk":
		a, b := d.(crypto.PubKey), ref.(crypto.PubKey)
		ar, _ := a.Raw()
		br, _ := b.Raw()
		return vfC08KeyEq(a, b) && crypto.KeyEqual(a, b) && a.Type() == b.Type() && bytes.Equal(ar, br)
	case "pkproto":
		a, b := d.(*cpb.PublicKey), ref.(*cpb.PublicKey)
		return a.GetType() == b.GetType() && bytes.Equal(a.GetData(), b.GetData())
	case "id":
		return d.(peer.ID) == ref.(peer.ID)
	case "idb58", "idcidstr":
		return d.(string) == ref.(string)
	case "idcid":
		return d.(cid.Cid).Equals(ref.(cid.Cid))
	case "idp2p":
		return d.(ma.Multiaddr).Equal(ref.(ma.Multiaddr))
	case "aijson":
		var x, y any
		return json.Unmarshal(d.([]byte), &x) == nil && json.Unmarshal(ref.([]byte), &y) == nil && vfh.Canon(x) == vfh.Canon(y)
	default:
		return bytes.Equal(d.([]byte), ref.([]byte))
	}
}

func vfC08KT(kt string) cpb.KeyType {
	switch kt {
	case "Ed25519":
		return cpb.KeyType_Ed25519
	case "Secp256k1":
		return cpb.KeyType_Secp256k1
	case "ECDSA":
		return cpb.KeyType_ECDSA
	}
	return cpb.KeyType_RSA
}

func (c *vfC08C) convert(fn string, kt string) (any, error) {
	switch fn {
	case "MarshalPrivateKey":
		return crypto.MarshalPrivateKey(c.cur.(crypto.PrivKey))
	case "UnmarshalPrivateKey":
		return crypto.UnmarshalPrivateKey(c.cur.([]byte))
	case "PrivRaw":
		return c.cur.(crypto.PrivKey).Raw()
	case "PrivFromRaw":
		return crypto.PrivKeyUnmarshallers[vfC08KT(kt)](c.cur.([]byte))
	case "GetPublic":
		return c.cur.(crypto.PrivKey).GetPublic(), nil
	case "IDFromPrivateKey":
		return peer.IDFromPrivateKey(c.cur.(crypto.PrivKey))
	case "MarshalPublicKey":
		return crypto.MarshalPublicKey(c.cur.(crypto.PubKey))
	case "UnmarshalPublicKey":
		return crypto.UnmarshalPublicKey(c.cur.([]byte))
	case "PubRaw":
		return c.cur.(crypto.PubKey).Raw()
	case "PubFromRaw":
		return crypto.PubKeyUnmarshallers[vfC08KT(kt)](c.cur.([]byte))
	case "PublicKeyToProto":
		return crypto.PublicKeyToProto(c.cur.(crypto.PubKey))
	case "PublicKeyFromProto":
		return crypto.PublicKeyFromProto(c.cur.(*cpb.PublicKey))
	case "IDFromPublicKey":
		return peer.IDFromPublicKey(c.cur.(crypto.PubKey))
	case "IDMarshalBinary":
		return c.cur.(peer.ID).MarshalBinary()
	case "IDUnmarshalBinary":
		var id peer.ID
		err := id.UnmarshalBinary(c.cur.([]byte))
		return id, err
	case "IDFromBytes":
		return peer.IDFromBytes(c.cur.([]byte))
	case "IDString":
		return c.cur.(peer.ID).String(), nil
	case "Decode":
		return peer.Decode(c.cur.(string))
	case "ToCid":
		return peer.ToCid(c.cur.(peer.ID)), nil
	case "FromCid":
		return peer.FromCid(c.cur.(cid.Cid))
	case "CidString":
		return c.cur.(cid.Cid).String(), nil
	case "CidDecode":
		return cid.Decode(c.cur.(string))
	case "IDMarshalJSON":
		return c.cur.(peer.ID).MarshalJSON()
	case "IDUnmarshalJSON":
		var id peer.ID
		err := id.UnmarshalJSON(c.cur.([]byte))
		return id, err
	case "IDMarshalText":
		return c.cur.(peer.ID).MarshalText()
	case "IDUnmarshalText":
		var id peer.ID
		err := id.UnmarshalText(c.cur.([]byte))
		return id, err
	case "AddrInfoToP2pAddrs":
		as, err := peer.AddrInfoToP2pAddrs(&peer.AddrInfo{ID: c.cur.(peer.ID)})
		if err != nil {
			return nil, err
		}
		if len(as) != 1 {
			return nil, fmt.Errorf("%d addresses", len(as))
		}
		return as[0], nil
	case "AddrInfoFromP2pAddr":
		ai, err := peer.AddrInfoFromP2pAddr(c.cur.(ma.Multiaddr))
		if err != nil {
			return nil, err
		}
		return ai.ID, nil
	case "IDFromP2PAddr":
		return peer.IDFromP2PAddr(c.cur.(ma.Multiaddr))
	case "AddrInfoMarshalJSON":
		return peer.AddrInfo{ID: c.cur.(peer.ID)}.MarshalJSON()
	case "AddrInfoUnmarshalJSON":
		var ai peer.AddrInfo
		err := ai.UnmarshalJSON(c.cur.([]byte))
		return ai.ID, err
	}
	panic("vfC08: unknown conversion " + fn)
}

// the ID is the function the statement names: identity multihash of the marshalled key when that
// is at most 42 bytes, else its sha2-256 multihash
func (c *vfC08C) checkIDFunction(pub crypto.PubKey, id peer.ID, where string) (embedded bool) {
	mk, err := crypto.MarshalPublicKey(pub)
	if err != nil {
		panic(err)
	}
	dec, err := mh.Decode([]byte(id))
	if err != nil {
		c.mismatch("id-not-a-multihash:"+where, fmt.Sprintf("ID %x does not decode as a multihash: %v", []byte(id), err), nil, nil)
		return false
	}
	embedded = dec.Code == mh.IDENTITY
	if want := len(mk) <= 42; embedded != want {
		c.mismatch("id-inline-threshold", fmt.Sprintf("%s: marshalled key of %d bytes: embedded=%v, the function says %v", where, len(mk), embedded, want), want, embedded)
	}
	if embedded {
		if !bytes.Equal(dec.Digest, mk) {
			c.mismatch("id-digest-wrong", where+": identity multihash does not hold the marshalled key", nil, nil)
		}
	} else {
		sum := sha256.Sum256(mk)
		if dec.Code != mh.SHA2_256 || !bytes.Equal(dec.Digest, sum[:]) {
			c.mismatch("id-digest-wrong", where+": ID is not the sha2-256 multihash of the marshalled key", nil, nil)
		}
	}
	return embedded
}

// (r, s) -> (r, n-s) for the group order of the signer's own curve
func vfC08NegateS(pub crypto.PubKey, sig []byte) []byte {
	var n *big.Int
	std, err := crypto.PubKeyToStdKey(pub)
	if err != nil {
		return nil
	}
	switch k := std.(type) {
	case *ecdsa.PublicKey:
		n = k.Curve.Params().N
	case *crypto.Secp256k1PublicKey:
		n = secp256k1.S256().N
	default:
		return nil
	}
	var rs struct{ R, S *big.Int }
	if rest, err := asn1.Unmarshal(sig, &rs); err != nil || len(rest) != 0 {
		return nil
	}
	rs.S = new(big.Int).Sub(n, rs.S)
	out, err := asn1.Marshal(rs)
	if err != nil {
		return nil
	}
	return out
}

func vfC08BitFlips(b []byte, allBits bool, rnd interface{ Intn(int) int }, f func(m []byte, what string)) {
	for i := range b {
		for bit := 0; bit < 8; bit++ {
			if !allBits && bit != rnd.Intn(8) {
				continue
			}
			m := append([]byte(nil), b...)
			m[i] ^= 1 << uint(bit)
			f(m, "bitflip")
		}
	}
	for n := 0; n < len(b); n++ {
		f(append([]byte(nil), b[:n]...), "truncate")
	}
	f(append(append([]byte(nil), b...), 0x00), "extend")
	f(append(append([]byte(nil), b...), b...), "double")
}

func vfC08RunC(res *vfh.Result, cnt *vfC08Counters, w vfh.Walk, variant map[string]string, vi int, seed int64) {
	rnd := vfC08Rnd(seed, int64(w.Walk), int64(vi))
	c := &vfC08C{res: res, cnt: cnt, walk: w.Walk, variant: variant, keys: map[string]vfC08Pair{}, rnd: rnd, allBits: vfh.Thorough()}
	c.msgs = map[string][]byte{}
	for i, m := range []string{"m1", "m2"} {
		b := make([]byte, 8+rnd.Intn(40))
		for j := range b {
			b[j] = byte(rnd.Intn(256))
		}
		b[0] = byte(i) // distinct
		c.msgs[m] = b
	}
	var st vfC08CState
	if err := json.Unmarshal(w.Init, &st); err != nil {
		panic(err)
	}
	c.cur = c.key(st.Kt, st.Who).priv
	for si, step := range w.Steps {
		op := step.Op
		c.step = si
		c.prefix = append(c.prefix, op)
		var nx vfC08CState
		if err := json.Unmarshal(step.State, &nx); err != nil {
			panic(err)
		}
		ckt := c.concrete(st.Kt)
		switch op.Name() {
		case "conv":
			fn := op.S("fn")
			out, err := c.convert(fn, st.Kt)
			cnt.inc("C.conv."+fn, 1)
			if err != nil {
				c.mismatch("roundtrip-error:"+fn+":"+st.Kt, fmt.Sprintf("%s failed on a %s value derived from a fresh %s key: %v", fn, op.S("from"), ckt, err), "no error", err.Error())
				res.Count(1, si+1)
				return
			}
			c.cur = out
			if fn == "IDFromPublicKey" || fn == "IDFromPrivateKey" {
				c.checkIDFunction(c.key(st.Kt, st.Who).pub, out.(peer.ID), fn+":"+st.Kt)
			}
		case "decodex":
			if !c.decodeEdited(op.S("edit"), op.S("from") == "skpb", st) {
				res.Count(1, si+1)
				return
			}
		case "extract":
			id := c.cur.(peer.ID)
			pk, err := id.ExtractPublicKey()
			mk, _ := crypto.MarshalPublicKey(c.key(st.Kt, st.Who).pub)
			embeds := len(mk) <= 42
			cnt.inc("C.extract", 1)
			if op.B("ok") != embeds {
				c.mismatch("L2:model-embed-table", fmt.Sprintf("model says embed=%v for %s, marshalled key is %d bytes", op.B("ok"), ckt, len(mk)), nil, nil)
			}
			if embeds {
				if err != nil {
					c.mismatch("extract-failed:"+st.Kt, fmt.Sprintf("ExtractPublicKey failed on an ID that embeds its %s key: %v", ckt, err), "key", err.Error())
					res.Count(1, si+1)
					return
				}
				c.cur = pk
			} else if err != peer.ErrNoPublicKey || pk != nil {
				c.mismatch("extract-from-hashed-id:"+st.Kt, fmt.Sprintf("ExtractPublicKey on a hashed %s ID returned (%v, %v)", ckt, pk, err), "ErrNoPublicKey", fmt.Sprint(err))
			}
		case "pick":
			c.cur = c.key(op.S("kt"), op.I("who")).priv
		case "sign":
			sig, err := c.cur.(crypto.PrivKey).Sign(c.msgs[op.S("m")])
			cnt.inc("C.sign."+ckt, 1)
			if err != nil {
				c.mismatch("sign-error:"+st.Kt, err.Error(), nil, nil)
				res.Count(1, si+1)
				return
			}
			c.sig, c.sigOrig = sig, sig
		case "mutsig":
			// every byte of the signature: a mutated signature must not verify; one that still does for
			// the same key and message is encoding malleability (L2 note), never a violation
			signer := c.key(nx.Sig.Kt, nx.Sig.Who).pub
			msg := c.msgs[nx.Sig.M]
			var bad [][]byte
			vfC08BitFlips(c.sigOrig, c.allBits || len(c.sigOrig) <= 80, rnd, func(m []byte, what string) {
				ok, _ := signer.Verify(msg, m)
				cnt.inc("C.mutsig.verifies", 1)
				if ok {
					cnt.inc("C.sig-malleable."+c.concrete(nx.Sig.Kt)+"."+what, 1)
					c.mismatch("L2:signature-encoding-malleable:"+nx.Sig.Kt, fmt.Sprintf("a %s signature with a %s still verifies for the same key and message", c.concrete(nx.Sig.Kt), what), false, true)
				} else if what == "bitflip" {
					bad = append(bad, m)
				}
			})
			// the classic (r, s) -> (r, n-s) re-encoding of ECDSA signatures
			if alt := vfC08NegateS(signer, c.sigOrig); alt != nil {
				if ok, _ := signer.Verify(msg, alt); ok {
					cnt.inc("C.sig-malleable."+nx.Sig.Kt+".negate-s", 1)
					c.mismatch("L2:signature-encoding-malleable:"+nx.Sig.Kt, "the signature (r, n-s) verifies for the same key and message", false, true)
				} else {
					cnt.inc("C.sig-negate-s-rejected."+nx.Sig.Kt, 1)
				}
			}
			if len(bad) == 0 {
				c.mismatch("verify-accepts-any-signature:"+nx.Sig.Kt, "every single-bit mutation of the signature still verifies", false, true)
				res.Count(1, si+1)
				return
			}
			c.sig = bad[rnd.Intn(len(bad))]
		case "verify", "verifymut":
			pk := c.cur.(crypto.PubKey)
			signerIsCur := st.Sig.Kt == st.Kt && st.Sig.Who == st.Who
			if op.Name() == "verify" {
				m := op.S("m")
				ok, err := pk.Verify(c.msgs[m], c.sig)
				cnt.inc(fmt.Sprintf("C.verify.%s.via-%s.%v", ckt, st.Via, op.B("ok")), 1)
				res.Case(fmt.Sprintf("C/verify/%s/%d/%s/%s/%d/%s/%v/%s", st.Kt, st.Who, st.Via, st.Sig.Kt, st.Sig.Who, st.Sig.M, st.Sig.Mut, m))
				switch {
				case ok && !op.B("ok") && signerIsCur && m == st.Sig.M:
					c.mismatch("L2:signature-encoding-malleable:"+st.Kt, "mutated signature verifies for the signer and message", false, true)
				case ok && !op.B("ok"):
					c.mismatch("verify-accepts-other-key-or-message:"+st.Sig.Kt, fmt.Sprintf("a %s signature by key %d over %s verifies under %s key %d (obtained via %s) for message %s",
						c.concrete(st.Sig.Kt), st.Sig.Who, st.Sig.M, ckt, st.Who, st.Via, m), false, true)
				case !ok && op.B("ok"):
					c.mismatch("verify-rejects-own-signature:"+st.Kt, fmt.Sprintf("a fresh %s signature does not verify under the signer's public key obtained via %s: %v", ckt, st.Via, err), true, false)
				}
			} else {
				msg := c.msgs[st.Sig.M]
				n := 0
				vfC08BitFlips(msg, true, rnd, func(m []byte, what string) {
					n++
					if ok, _ := pk.Verify(m, c.sig); ok {
						c.mismatch("verify-accepts-mutated-message:"+st.Sig.Kt, fmt.Sprintf("a %s signature verifies for a message with a %s (len %d -> %d)", c.concrete(st.Sig.Kt), what, len(msg), len(m)), false, true)
					}
				})
				if ok, _ := pk.Verify(nil, c.sig); ok {
					c.mismatch("verify-accepts-mutated-message:"+st.Sig.Kt, "signature verifies for the empty message", false, true)
				}
				cnt.inc("C.verifymut.messages", n+1)
			}
		case "verifyenc":
			c.verifyEnc(st, op.S("m"), op.B("may"))
		case "lookalike":
			ref := c.key(st.Kt, st.Who)
			las := vfC08Lookalikes(c.cur.([]byte), op.S("edit"), vfC08Must(peer.IDFromPublicKey(ref.pub)))
			cnt.inc("C.lookalike.ids."+op.S("edit"), len(las))
			if len(las) == 0 {
				cnt.inc("C.lookalike.none."+op.S("edit")+":"+st.Kt, 1) // e.g. the canonical bytes of an inlined key ARE its ID
				res.Count(1, si+1)
				return
			}
			c.cur = las
			c.laWho = st.Who
		case "matchesx":
			ref := c.key(op.S("kt"), op.I("who"))
			for _, la := range c.cur.([]vfC08Lookalike) {
				cnt.inc("C.matchesx", 1)
				if cls, what := vfC08PairClause(la.id, ref, la.how); cls != "" {
					c.mismatch(cls, what+fmt.Sprintf(" [look-alike of %s key %d against %s key %d]", ckt, st.Who, op.S("kt"), op.I("who")), false, true)
				}
			}
		case "consumex":
			c.consumeLookalikes(st)
		case "extractx":
			ref := c.key(st.Kt, st.Who)
			var next crypto.PubKey
			for _, la := range c.cur.([]vfC08Lookalike) {
				cnt.inc("C.extractx", 1)
				k2, err := la.id.ExtractPublicKey()
				if err != nil || !vfC08KeyEq(k2, ref.pub) {
					continue
				}
				cnt.inc("C.extractx.equal", 1)
				// the embedded key is the original key: it has the ORIGINAL's ID, not the look-alike
				if id2, err := peer.IDFromPublicKey(k2); err != nil || id2 == la.id || !id2.MatchesPublicKey(ref.pub) {
					c.mismatch("id-not-function-of-key:"+st.Kt, fmt.Sprintf("the key extracted from a look-alike ID (%s) has ID %s", la.how, id2), nil, nil)
				}
				if next == nil {
					next = k2
				}
			}
			if next == nil {
				cnt.inc("C.extractx.none:"+st.Via+":"+st.Kt, 1)
				res.Count(1, si+1)
				return
			}
			c.cur = next
		case "equals":
			ref := c.key(op.S("kt"), op.I("who"))
			var got bool
			if st.Form == "sk" {
				a := c.cur.(crypto.PrivKey)
				got = a.Equals(ref.priv)
				if got != ref.priv.Equals(a) {
					c.mismatch("equals-not-symmetric:"+st.Kt, "PrivKey.Equals is not symmetric", nil, nil)
				}
			} else {
				a := c.cur.(crypto.PubKey)
				got = a.Equals(ref.pub)
				if got != ref.pub.Equals(a) {
					c.mismatch("equals-not-symmetric:"+st.Kt, "PubKey.Equals is not symmetric", nil, nil)
				}
			}
			cnt.inc("C.equals", 1)
			if got != op.B("ok") {
				c.mismatch("equals-wrong:"+st.Kt, fmt.Sprintf("%s key %d (via %s) Equals %s key %d = %v", ckt, st.Who, st.Via, op.S("kt"), op.I("who"), got), op.B("ok"), got)
			}
		case "matches":
			ref := c.key(op.S("kt"), op.I("who"))
			id := c.cur.(peer.ID)
			got := id.MatchesPublicKey(ref.pub)
			cnt.inc("C.matches", 1)
			if got != op.B("ok") || id.MatchesPrivateKey(ref.priv) != op.B("ok") {
				c.mismatch("id-matches-wrong:"+st.Kt, fmt.Sprintf("ID of %s key %d MatchesPublicKey(%s key %d) = %v", ckt, st.Who, op.S("kt"), op.I("who"), got), op.B("ok"), got)
			}
		case "idlen":
			n := op.I("n")
			raw := make([]byte, n-4)
			for i := range raw {
				raw[i] = byte(rnd.Intn(256))
			}
			fk := &vfC08FakeKey{raw: raw}
			mk, err := crypto.MarshalPublicKey(fk)
			if err != nil || len(mk) != n {
				panic(fmt.Sprintf("vfC08: fake key marshals to %d bytes, want %d (%v)", len(mk), n, err))
			}
			id, err := peer.IDFromPublicKey(fk)
			if err != nil {
				c.mismatch("roundtrip-error:IDFromPublicKey:len", err.Error(), nil, nil)
				break
			}
			if emb := c.checkIDFunction(fk, id, fmt.Sprintf("len%d", n)); emb != op.B("embed") {
				cnt.inc("C.idlen.disagree", 1)
			}
			cnt.inc("C.idlen", 1)
			// the ID's text forms round-trip whatever its kind
			if d, err := peer.Decode(id.String()); err != nil || d != id {
				c.mismatch("roundtrip-not-identity:Decode:len", fmt.Sprintf("Decode(String()) of a %d-byte-key ID: %v", n, err), nil, nil)
			}
			if d, err := peer.Decode(peer.ToCid(id).String()); err != nil || d != id {
				c.mismatch("roundtrip-not-identity:Decode:len", fmt.Sprintf("Decode(ToCid().String()) of a %d-byte-key ID: %v", n, err), nil, nil)
			}
		case "mutform":
			c.mutform(st, rnd)
		default:
			panic("vfC08: unknown part C op " + op.Name())
		}
		// the datum is still the same key / ID, in the form the model says
		if !c.same(nx.Kt, nx.Who, nx.Form, c.cur) {
			cls := "roundtrip-not-identity:" + op.S("fn") + ":" + nx.Kt
			if op.Name() != "conv" {
				cls = "roundtrip-not-identity:" + op.Name() + ":" + nx.Kt
			}
			c.mismatch(cls, fmt.Sprintf("after %s the %s value is not the one of the %s key it was derived from", vfh.Canon(op), nx.Form, c.concrete(nx.Kt)), nx, fmt.Sprintf("%v", c.cur))
			res.Count(1, si+1)
			return
		}
		// ... and it is nobody else's
		other := 3 - nx.Who
		if nx.Form != "aijson" && c.same(nx.Kt, other, nx.Form, c.cur) {
			c.mismatch("forms-collide:"+nx.Form+":"+nx.Kt, fmt.Sprintf("two fresh %s keys have the same %s form", c.concrete(nx.Kt), nx.Form), nil, nil)
		}
		res.Case(fmt.Sprintf("C/%s/%d/%s/%s/%s", st.Kt, st.Who, st.Form, st.Via, vfh.Canon(op)))
		st = nx
	}
	res.Count(1, len(w.Steps))
}

// family of encodings of a signature by the signer over msg (cached per walk)
func (c *vfC08C) family(kt string, who int, tag string, msg []byte) []vfC08Sig {
	k := fmt.Sprintf("%s/%d/%s", kt, who, tag)
	if f, ok := c.fams[k]; ok {
		return f
	}
	f := vfC08SigFamily(c.key(kt, who).priv, msg)
	if c.fams == nil {
		c.fams = map[string][]vfC08Sig{}
	}
	c.fams[k] = f
	return f
}

// verifyEnc: the held signature term Sign(S, ms) in every encoding, verified under the current key K for
// message m.  may = (K = S and m = ms).  Acceptance when ~may is a violation whatever the encoding; and
// the same forged encodings are pushed through the envelope layer and both address books.
func (c *vfC08C) verifyEnc(st vfC08CState, m string, may bool) {
	pk := c.cur.(crypto.PubKey)
	cur := c.key(st.Kt, st.Who)
	ckt := c.concrete(st.Kt)
	fam := append([]vfC08Sig{}, c.family(st.Sig.Kt, st.Sig.Who, st.Sig.M, c.msgs[st.Sig.M])...)
	fam = append(fam, vfC08SigReencodings(c.key(st.Sig.Kt, st.Sig.Who).pub.Type(), c.sigOrig)...)
	for _, s := range fam {
		ok, _ := pk.Verify(c.msgs[m], s.sig)
		c.cnt.inc("C.verifyenc.verifies", 1)
		switch {
		case ok && !may:
			c.mismatch("verify-accepts-foreign-signature-encoding:"+st.Kt, fmt.Sprintf("a %s signature by key %d over %s, presented as %q (%d bytes), verifies under %s key %d (via %s) for message %s",
				c.concrete(st.Sig.Kt), st.Sig.Who, st.Sig.M, s.name, len(s.sig), ckt, st.Who, st.Via, m), false, true)
		case ok && s.name != "lib":
			c.cnt.inc("C.verifyenc.own-alt-encoding-accepted."+ckt+"."+s.name, 1)
		}
	}
	// envelope layer: a peer record naming K's ID in an envelope carrying K's key, "signed" by the foreign
	// signer in every encoding, through every consumer.  K sealed nothing: the ledger is empty.
	foreign := st.Sig.Kt != st.Kt || st.Sig.Who != st.Who
	if !foreign || m != st.Sig.M {
		return
	}
	kID := vfC08Must(peer.IDFromPublicKey(cur.pub))
	rec := &peer.PeerRecord{PeerID: kID, Seq: 9, Addrs: []ma.Multiaddr{ma.StringCast("/ip4/10.6.6.6/tcp/4001")}}
	pay := vfC08Must(rec.MarshalRecord())
	pre := vfC08Unsigned(peer.PeerRecordEnvelopeDomain, peer.PeerRecordEnvelopePayloadType, pay)
	kp := vfC08Must(crypto.PublicKeyToProto(cur.pub))
	var ledger vfC08Ledger
	for _, s := range c.family(st.Sig.Kt, st.Sig.Who, "env:"+string(kID), pre) {
		wire := vfC08Marshal(kp, peer.PeerRecordEnvelopePayloadType, pay, s.sig)
		for _, kind := range []string{"untyped", "typed", "pmem", "pds"} {
			a := vfC08Consume(kind, wire, peer.PeerRecordEnvelopeDomain)
			c.cnt.inc("C.verifyenc.envelope."+kind, 1)
			if cls, what := vfC08Monitor(&ledger, a); cls != "" {
				c.mismatch("forged-signature-encoding-"+cls, what+fmt.Sprintf(" [signature by %s key %d presented as %q under %s key %d]", c.concrete(st.Sig.Kt), st.Sig.Who, s.name, ckt, st.Who), "reject", vfC08Artefact(&ledger, a, wire))
			}
		}
	}
}

// consumeLookalikes: for every look-alike ID x of key K: a peer record naming x sealed with K (a valid
// envelope!) must be refused by both address books, nothing may be retrievable under x, and the pair
// (x, K) must be refused by MatchesPublicKey and both key books.
func (c *vfC08C) consumeLookalikes(st vfC08CState) {
	k := c.key(st.Kt, st.Who)
	ckt := c.concrete(st.Kt)
	for _, la := range c.cur.([]vfC08Lookalike) {
		if cls, what := vfC08PairClause(la.id, k, la.how); cls != "" {
			c.mismatch(cls, what+" ["+ckt+"]", false, true)
		}
		for _, kind := range []string{"pmem", "pds"} {
			if got := vfC08NewKeyBook(kind).PubKey(la.id); got != nil {
				// nothing was added: the book derives the key from the look-alike ID itself and adopts the pair
				c.cnt.inc("C.consumex.keybook-pubkey-adopts-lookalike."+kind, 1)
				c.mismatch("L2:keybook-pubkey-adopts-lookalike-id:"+kind, fmt.Sprintf("%s KeyBook.PubKey(x) returns (and stores) a key for an ID x that is not IDFromPublicKey of that key (%s)", kind, la.how), nil, nil)
			}
		}
		rec := &peer.PeerRecord{PeerID: la.id, Seq: 11, Addrs: []ma.Multiaddr{ma.StringCast("/ip4/10.7.7.7/tcp/4001")}}
		env, err := record.Seal(rec, k.priv)
		if err != nil {
			continue // (an ID the record cannot even carry)
		}
		wire := vfC08Must(env.Marshal())
		e := vfC08Env(wire)
		var ledger vfC08Ledger
		ledger.add(k.pub, peer.PeerRecordEnvelopeDomain, e.PayloadType, e.Payload)
		for _, kind := range []string{"untyped", "pmem", "pds"} {
			a := vfC08Consume(kind, wire, peer.PeerRecordEnvelopeDomain)
			c.cnt.inc("C.consumex."+kind, 1)
			if a.ok {
				c.cnt.inc("C.consumex.accepted."+kind, 1)
			}
			if cls, what := vfC08Monitor(&ledger, a); cls != "" {
				c.mismatch("lookalike-id-"+cls, what+" ["+la.how+", "+ckt+"]", "reject", vfC08Artefact(&ledger, a, wire))
			}
		}
	}
}

// decodeEdited: every concrete variant of one abstract surgery on the serialised key.  A variant the
// decoder accepts AND whose key Equals the original must behave as the original in every respect the
// statement names (peer ID, marshalled form, ID matching, signatures, envelopes, peer stores).  One such
// decoded key becomes the datum the walk continues with.  Returns false when no variant qualifies.
func (c *vfC08C) decodeEdited(edit string, priv bool, st vfC08CState) bool {
	ref := c.key(st.Kt, st.Who)
	refID := vfC08Must(peer.IDFromPublicKey(ref.pub))
	refPB := vfC08Must(crypto.MarshalPublicKey(ref.pub))
	ckt := c.concrete(st.Kt)
	msg := c.msgs["m1"]
	var next any
	variants := vfC08KeySurgeries(c.cur.([]byte), priv)[edit]
	tag := edit + ":" + st.Kt
	pubBattery := func(k2 crypto.PubKey, how string) {
		id2, err := peer.IDFromPublicKey(k2)
		if err != nil || id2 != refID || !refID.MatchesPublicKey(k2) {
			c.mismatch("id-not-function-of-key:"+st.Kt, fmt.Sprintf("a %s key obtained from %s Equals the original but has peer ID %s instead of %s (err %v)", ckt, how, id2, refID, err), refID.String(), id2.String())
		} else {
			for _, txt := range []string{id2.String(), peer.ToCid(id2).String()} {
				if back, err := peer.Decode(txt); err != nil || back != refID {
					c.mismatch("roundtrip-not-identity:Decode:"+st.Kt, "text form of the ID of an equal key does not decode to the original's ID", nil, nil)
				}
			}
		}
		if pb2, err := crypto.MarshalPublicKey(k2); err != nil || !bytes.Equal(pb2, refPB) {
			c.mismatch("marshal-not-function-of-key:"+st.Kt, fmt.Sprintf("a %s key obtained from %s Equals the original but marshals to other bytes (err %v)", ckt, how, err), fmt.Sprintf("%x", refPB), fmt.Sprintf("%x", pb2))
		}
		if r2, err := k2.Raw(); err != nil || !bytes.Equal(r2, vfC08Must(ref.pub.Raw())) || k2.Type() != ref.pub.Type() {
			c.mismatch("marshal-not-function-of-key:"+st.Kt, "Raw()/Type() of an equal key differ from the original's", nil, nil)
		}
	}
	for vi, v := range variants {
		c.cnt.inc("C.decodex.variants", 1)
		how := fmt.Sprintf("%s variant %d of its serialised %s key", edit, vi, map[bool]string{false: "public", true: "private"}[priv])
		if !priv {
			k2, err := crypto.UnmarshalPublicKey(v)
			if err != nil {
				c.cnt.inc("C.decodex.rejected."+tag, 1)
				continue
			}
			if !vfC08KeyEq(k2, ref.pub) {
				c.cnt.inc("C.decodex.other-key."+tag, 1)
				if ok, _ := k2.Verify(msg, c.refSig(st)); ok {
					c.mismatch("verify-accepts-other-key-or-message:"+st.Kt, "the owner's signature verifies under an unequal key decoded from "+how, false, true)
				}
				continue
			}
			c.cnt.inc("C.decodex.accepted-equal."+tag, 1)
			pubBattery(k2, how)
			if ok, err := k2.Verify(msg, c.refSig(st)); !ok {
				c.mismatch("verify-rejects-own-signature:"+st.Kt, fmt.Sprintf("the owner's signature does not verify under the equal key decoded from %s: %v", how, err), true, false)
			}
			// an envelope sealed by the original whose public_key field carries the edited encoding
			c.envelopeBattery(st, ref, refID, v, nil, how)
			if next == nil {
				next = k2
			}
		} else {
			k2, err := crypto.UnmarshalPrivateKey(v)
			if err != nil {
				c.cnt.inc("C.decodex.rejected."+tag, 1)
				continue
			}
			if !(k2.Equals(ref.priv) && ref.priv.Equals(k2)) {
				c.cnt.inc("C.decodex.other-key."+tag, 1)
				continue
			}
			c.cnt.inc("C.decodex.accepted-equal."+tag, 1)
			p2 := k2.GetPublic()
			if !vfC08KeyEq(p2, ref.pub) {
				c.mismatch("roundtrip-not-identity:GetPublic:"+st.Kt, "GetPublic of an equal private key decoded from "+how+" is not the original public key", nil, nil)
				continue
			}
			pubBattery(p2, "GetPublic of the private key decoded from "+how)
			if id2, err := peer.IDFromPrivateKey(k2); err != nil || id2 != refID || !refID.MatchesPrivateKey(k2) {
				c.mismatch("id-not-function-of-key:"+st.Kt, "IDFromPrivateKey of an equal private key decoded from "+how+" differs", refID.String(), id2.String())
			}
			if sig, err := k2.Sign(msg); err != nil {
				c.mismatch("sign-error:"+st.Kt, err.Error(), nil, nil)
			} else if ok, _ := ref.pub.Verify(msg, sig); !ok {
				c.mismatch("verify-rejects-own-signature:"+st.Kt, "a signature by the equal private key decoded from "+how+" does not verify under the original public key", true, false)
			}
			c.envelopeBattery(st, ref, refID, nil, k2, how)
			if next == nil {
				next = k2
			}
		}
	}
	if next == nil {
		c.cnt.inc("C.decodex.no-variant-accepted."+tag, 1)
		return false
	}
	c.cur = next
	return true
}

// a signature by the reference key over m1, made once per (walk, key)
func (c *vfC08C) refSig(st vfC08CState) []byte {
	k := fmt.Sprintf("refsig/%s/%d", st.Kt, st.Who)
	if s, ok := c.sigs[k]; ok {
		return s
	}
	s := vfC08Must(c.key(st.Kt, st.Who).priv.Sign(c.msgs["m1"]))
	if c.sigs == nil {
		c.sigs = map[string][]byte{}
	}
	c.sigs[k] = s
	return s
}

// envelopeBattery: a signed peer record of the reference peer, (a) sealed by the original key with the
// envelope's public_key field replaced by an edited-but-equal encoding, or (b) sealed by the
// edited-but-equal private key, goes through ConsumeEnvelope, ConsumeTypedEnvelope and both address books.
func (c *vfC08C) envelopeBattery(st vfC08CState, ref vfC08Pair, refID peer.ID, editedPub []byte, priv2 crypto.PrivKey, how string) {
	rec := &peer.PeerRecord{PeerID: refID, Seq: 7, Addrs: []ma.Multiaddr{ma.StringCast("/ip4/10.9.8.7/tcp/4001")}}
	signer := ref.priv
	if priv2 != nil {
		signer = priv2
	}
	var wire []byte
	ck := fmt.Sprintf("battery|%p|%s", ref.priv, refID)
	if v, ok := vfC08SealCache.Load(ck); ok && priv2 == nil {
		wire = v.([]byte)
	} else {
		env, err := record.Seal(rec, signer)
		if err != nil {
			c.mismatch("sign-error:"+st.Kt, err.Error(), nil, nil)
			return
		}
		wire = vfC08Must(env.Marshal())
		if priv2 == nil && vfC08IsRSA(ref.priv) {
			vfC08SealCache.Store(ck, wire)
		}
	}
	e := vfC08Env(wire)
	var ledger vfC08Ledger
	ledger.add(ref.pub, peer.PeerRecordEnvelopeDomain, e.PayloadType, e.Payload)
	if editedPub != nil {
		fs := vfC08Fields(wire)
		for i := range fs {
			if fs[i].num == 1 {
				fs[i] = vfC08BytesField(1, editedPub)
			}
		}
		wire = vfC08Join(fs)
	}
	for _, kind := range []string{"untyped", "typed", "pmem", "pds"} {
		a := vfC08Consume(kind, wire, peer.PeerRecordEnvelopeDomain)
		c.cnt.inc("C.decodex.envelope."+kind, 1)
		if cls, what := vfC08Monitor(&ledger, a); cls != "" {
			c.mismatch(cls, what+" ["+how+"]", nil, vfC08Artefact(&ledger, a, wire))
		}
		if !a.ok {
			cls := "envelope-with-equal-key-rejected:" + kind
			if (kind == "pmem" || kind == "pds") && !a.storeSkip {
				cls = "peerstore-rejects-record-of-equal-key:" + kind
			}
			c.mismatch(cls, fmt.Sprintf("%s refused the signed peer record of %s whose key comes from %s: %v", kind, refID, how, a.err), "accept", vfC08Artefact(&ledger, a, wire))
		}
	}
}

// every single-bit mutation / truncation of a serialised form: it decodes to an error, to the same
// key / ID, or to a different one - and a different one never verifies the owner's signature nor
// matches the owner's ID.
func (c *vfC08C) mutform(st vfC08CState, rnd interface{ Intn(int) int }) {
	ref := c.key(st.Kt, st.Who)
	refID := vfC08Must(peer.IDFromPublicKey(ref.pub))
	msg := c.msgs["m1"]
	switch st.Form {
	case "pkpb":
		sig, err := ref.priv.Sign(msg)
		if err != nil {
			panic(err)
		}
		vfC08BitFlips(c.cur.([]byte), c.allBits || len(c.cur.([]byte)) <= 100, rnd, func(m []byte, what string) {
			c.cnt.inc("C.mutform.pkpb", 1)
			k2, err := crypto.UnmarshalPublicKey(m)
			if err != nil {
				return
			}
			c.cnt.inc("C.mutform.pkpb.decodes", 1)
			same := vfC08KeyEq(k2, ref.pub)
			id2, err := peer.IDFromPublicKey(k2)
			if err == nil && (id2 == refID) != same {
				c.mismatch("id-not-injective:"+st.Kt, fmt.Sprintf("a %s of the marshalled %s key decodes to a key with Equals=%v but ID equality %v", what, c.concrete(st.Kt), same, id2 == refID), same, id2 == refID)
			}
			if ok, _ := k2.Verify(msg, sig); ok != same {
				if ok {
					c.mismatch("verify-accepts-other-key-or-message:"+st.Kt, fmt.Sprintf("the owner's signature verifies under a different %s key decoded from a %s of the marshalled key", c.concrete(st.Kt), what), false, true)
				} else {
					c.mismatch("verify-rejects-own-signature:"+st.Kt, "an equal key decoded from a mutated encoding rejects the owner's signature", true, false)
				}
			}
		})
	case "idbin":
		vfC08BitFlips(c.cur.([]byte), true, rnd, func(m []byte, what string) {
			c.cnt.inc("C.mutform.idbin", 1)
			id2, err := peer.IDFromBytes(m)
			if err != nil || id2 == refID {
				return
			}
			if id2.MatchesPublicKey(ref.pub) {
				c.mismatch("id-matches-wrong:"+st.Kt, "a mutated ID matches the owner's key", false, true)
			}
			if k2, err := id2.ExtractPublicKey(); err == nil && vfC08KeyEq(k2, ref.pub) {
				// a different ID that embeds an equal key: the ID is not a function of the key
				c.mismatch("id-not-injective:"+st.Kt, fmt.Sprintf("a %s of the binary ID yields another ID embedding an equal key", what), nil, nil)
			}
		})
	case "idb58", "idcidstr":
		s := c.cur.(string)
		const alphabet = "123456789ABCDEFGHJKLMNPQRSTUVWXYZabcdefghijkmnopqrstuvwxyz0OIl"
		try := func(m string) {
			c.cnt.inc("C.mutform.text", 1)
			id2, err := peer.Decode(m)
			if err != nil || id2 == refID {
				return
			}
			if id2.MatchesPublicKey(ref.pub) {
				c.mismatch("id-matches-wrong:"+st.Kt, "a mutated text ID matches the owner's key", false, true)
			}
			if back, err := peer.Decode(id2.String()); err != nil || back != id2 {
				// only identity and sha2-256 multihashes are IDs of keys; an ID with another hash function
				// (reachable by decoding a CID) is outside the statement
				cls := "L2:foreign-multihash-id-text-form-not-decodable"
				if dec, derr := mh.Decode([]byte(id2)); derr == nil && (dec.Code == mh.IDENTITY || (dec.Code == mh.SHA2_256 && dec.Length == 32)) {
					cls = "roundtrip-not-identity:Decode:mutated"
				}
				c.mismatch(cls, fmt.Sprintf("ID decoded from %q does not round-trip through String()", m), nil, nil)
			}
		}
		for i := 0; i < len(s); i++ {
			for k := 0; k < 3; k++ {
				ch := alphabet[rnd.Intn(len(alphabet))]
				try(s[:i] + string(ch) + s[i+1:])
			}
			try(s[:i])
			try(s[:i] + s[i+1:])
		}
		try(strings.ToUpper(s))
		try(s + "1")
	}
}

// TestVerifC08Keys walks part C.
func TestVerifC08Keys(t *testing.T) {
	res := vfh.NewResult()
	res.Rule = "distinct = (key type, key index, form, via, op) for conversions; (verifier key, via, signature, message) for the verify matrix"
	cnt := &vfC08Counters{}
	_, walks, err := vfh.LoadWalks(filepath.Join(vfh.In(), "C.jsonl"))
	if err != nil {
		t.Fatal(err)
	}
	seed := vfh.Seed()
	// The key dimension is a family per abstract type.  Quick: every walk runs once, the member of each
	// family rotating with the walk index (all members are spread evenly over the walks); thorough: every
	// walk that touches a type with a larger family runs with every member.
	type job struct {
		w       vfh.Walk
		variant map[string]string
		vi      int
	}
	maxFam := 0
	for _, f := range vfC08Families {
		if len(f) > maxFam {
			maxFam = len(f)
		}
	}
	assign := func(i int) map[string]string {
		m := map[string]string{}
		for a, f := range vfC08Families {
			m[a] = f[i%len(f)]
		}
		return m
	}
	var jobs []job
	for _, w := range walks {
		if !vfh.Thorough() {
			jobs = append(jobs, job{w, assign(w.Walk), w.Walk})
			continue
		}
		touches := bytes.Contains(w.Init, []byte(`"RSA"`)) || bytes.Contains(w.Init, []byte(`"ECDSA"`))
		for _, st := range w.Steps {
			if touches {
				break
			}
			touches = bytes.Contains(st.State, []byte(`"RSA"`)) || bytes.Contains(st.State, []byte(`"ECDSA"`))
		}
		for vi := 0; vi < maxFam; vi++ {
			if vi > 0 && !touches {
				break
			}
			jobs = append(jobs, job{w, assign(vi), vi})
		}
	}
	vfC08Gen("RSA", 0)
	if err := vfC08Parallel(len(jobs), func(i int) { vfC08RunC(res, cnt, jobs[i].w, jobs[i].variant, jobs[i].vi, seed) }); err != nil {
		t.Fatalf("C08 machinery: %v", err)
	}
	snap := cnt.snapshot()
	for k, v := range snap {
		res.Set(k, v)
	}
	res.Set("keys_generated", vfC08GenCounts())
	res.Set("walksC", len(walks))
	res.Sample(map[string]any{"counters": snap})
	if err := res.Write(); err != nil {
		t.Fatal(err)
	}
}
