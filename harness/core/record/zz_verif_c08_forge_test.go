//go:build verif

package record_test

// C08: the attacker's "re-encode" capability.  A Dolev-Yao attacker can present ANY encoding of a term
// it knows or can make: signatures in every wire format a verifier might understand (DER, raw r||s,
// compact recoverable with every recovery code, high-S, trailing bytes, other padding / hash / scheme),
// and peer IDs built as identity multihashes over any serialisation of a key ("look-alike" IDs).
// These families are the scale map of the abstract actions verifyenc / reencode / lookalike of
// spec/C08_Envelope.tla.  Nothing here is specific to one implementation defect.

import (
	"bytes"
	"context"
	stdcrypto "crypto"
	"crypto/ecdsa"
	"crypto/ed25519"
	"crypto/elliptic"
	"crypto/rand"
	"crypto/rsa"
	"crypto/sha1"
	"crypto/sha256"
	"crypto/sha512"
	"encoding/asn1"
	"fmt"
	"math/big"

	"github.com/libp2p/go-libp2p/core/crypto"
	cpb "github.com/libp2p/go-libp2p/core/crypto/pb"
	"github.com/libp2p/go-libp2p/core/peer"
	"github.com/libp2p/go-libp2p/p2p/host/peerstore/pstoreds"
	"github.com/libp2p/go-libp2p/p2p/host/peerstore/pstoremem"

	"github.com/decred/dcrd/dcrec/secp256k1/v4"
	secpecdsa "github.com/decred/dcrd/dcrec/secp256k1/v4/ecdsa"
	ds "github.com/ipfs/go-datastore"
	dssync "github.com/ipfs/go-datastore/sync"
	mh "github.com/multiformats/go-multihash"
)

type vfC08Sig struct {
	name string
	sig  []byte
}

func vfC08PadN(b []byte, n int) []byte {
	if len(b) >= n {
		return b[len(b)-n:]
	}
	return append(make([]byte, n-len(b)), b...)
}

func vfC08Pad32(b []byte) []byte { return vfC08PadN(b, 32) }

// group orders an (r, s) pair might belong to: the attacker does not need to know, it tries them all
func vfC08Orders(kt cpb.KeyType) []*big.Int {
	if kt == cpb.KeyType_Secp256k1 {
		return []*big.Int{secp256k1.S256().N}
	}
	return []*big.Int{elliptic.P224().Params().N, elliptic.P256().Params().N, elliptic.P384().Params().N, elliptic.P521().Params().N}
}

// encodings of one ECDSA-style (r, s) pair
func vfC08RSForms(prefix string, r, s *big.Int, orders []*big.Int) []vfC08Sig {
	var out []vfC08Sig
	add := func(name string, b []byte) { out = append(out, vfC08Sig{prefix + name, b}) }
	der, _ := asn1.Marshal(struct{ R, S *big.Int }{r, s})
	size := 32
	for _, n := range orders { // the smallest group the pair fits in
		if r.Cmp(n) < 0 && s.Cmp(n) < 0 {
			size = (n.BitLen() + 7) / 8
			break
		}
	}
	raw := append(append([]byte{}, vfC08PadN(r.Bytes(), size)...), vfC08PadN(s.Bytes(), size)...)
	add("der", der)
	add("der+00", append(append([]byte{}, der...), 0x00))
	add("der+der", append(append([]byte{}, der...), der...))
	if len(der) > 2 && der[1] < 0x80 { // long-form length
		add("der-longlen", append([]byte{0x30, 0x81, der[1]}, der[2:]...))
	}
	add("raw-rs", raw)
	for h := 27; h <= 34; h++ { // compact recoverable: <27+code(+4 if compressed)><r><s>
		add(fmt.Sprintf("compact-hdr%d", h), append([]byte{byte(h)}, raw...))
	}
	for _, v := range []byte{0, 1, 27, 28} { // r || s || v
		add(fmt.Sprintf("rsv-%d", v), append(append([]byte{}, raw...), v))
	}
	for _, n := range orders {
		if s.Cmp(n) >= 0 || r.Cmp(n) >= 0 {
			continue
		}
		sz := (n.BitLen() + 7) / 8
		tag := fmt.Sprintf("negs%d-", n.BitLen())
		hs := new(big.Int).Sub(n, s)
		der2, _ := asn1.Marshal(struct{ R, S *big.Int }{r, hs})
		add(tag+"der", der2)
		raw2 := append(append([]byte{}, vfC08PadN(r.Bytes(), sz)...), vfC08PadN(hs.Bytes(), sz)...)
		add(tag+"raw", raw2)
		for h := 27; h <= 34; h++ {
			add(fmt.Sprintf("%scompact-hdr%d", tag, h), append([]byte{byte(h)}, raw2...))
		}
	}
	return out
}

// vfC08SigReencodings: what an attacker WITHOUT the private key can make of a signature it has seen.
func vfC08SigReencodings(kt cpb.KeyType, sig []byte) []vfC08Sig {
	var out []vfC08Sig
	add := func(name string, b []byte) { out = append(out, vfC08Sig{"re:" + name, b}) }
	add("+00", append(append([]byte{}, sig...), 0x00))
	add("00+", append([]byte{0x00}, sig...))
	add("x2", append(append([]byte{}, sig...), sig...))
	if len(sig) > 1 {
		add("-1", append([]byte{}, sig[:len(sig)-1]...))
	}
	switch kt {
	case cpb.KeyType_Secp256k1, cpb.KeyType_ECDSA:
		var rs struct{ R, S *big.Int }
		if rest, err := asn1.Unmarshal(sig, &rs); err == nil && len(rest) == 0 && rs.R.Sign() > 0 && rs.S.Sign() > 0 {
			out = append(out, vfC08RSForms("re:", rs.R, rs.S, vfC08Orders(kt))...)
		}
	case cpb.KeyType_Ed25519:
		if len(sig) == 64 { // S + L: the classic non-canonical scalar
			l, _ := new(big.Int).SetString("7237005577332262213973186563042994240857116359379907606001950938285454250989", 10)
			sLE := append([]byte{}, sig[32:]...)
			for i, j := 0, len(sLE)-1; i < j; i, j = i+1, j-1 {
				sLE[i], sLE[j] = sLE[j], sLE[i]
			}
			s2 := new(big.Int).Add(new(big.Int).SetBytes(sLE), l)
			if b := s2.Bytes(); len(b) <= 32 {
				b = vfC08Pad32(b)
				for i, j := 0, len(b)-1; i < j; i, j = i+1, j-1 {
					b[i], b[j] = b[j], b[i]
				}
				add("s+L", append(append([]byte{}, sig[:32]...), b...))
			}
		}
	}
	return out
}

// vfC08SigFamily: every encoding / scheme in which the holder of priv can sign msg.  Every member is,
// for the ledger, "a signature made with priv over msg".
func vfC08SigFamily(priv crypto.PrivKey, msg []byte) []vfC08Sig {
	var out []vfC08Sig
	add := func(name string, b []byte, err error) {
		if err == nil && len(b) > 0 {
			out = append(out, vfC08Sig{name, b})
		}
	}
	lib, err := priv.Sign(msg)
	add("lib", lib, err)
	if err == nil {
		out = append(out, vfC08SigReencodings(priv.Type(), lib)...)
	}
	h256 := sha256.Sum256(msg)
	h512 := sha512.Sum512(msg)
	h1 := sha1.Sum(msg)
	std, err := crypto.PrivKeyToStdKey(priv)
	if err != nil {
		return out
	}
	switch k := std.(type) {
	case *crypto.Secp256k1PrivateKey:
		sk := (*secp256k1.PrivateKey)(k)
		for _, compressed := range []bool{true, false} {
			c := secpecdsa.SignCompact(sk, h256[:], compressed)
			add(fmt.Sprintf("compact-%v", compressed), c, nil)
			add(fmt.Sprintf("compact-%v-nohdr", compressed), c[1:], nil)
			for h := 27; h <= 34; h++ {
				add(fmt.Sprintf("compact-%v-hdr%d", compressed, h), append([]byte{byte(h)}, c[1:]...), nil)
			}
			add(fmt.Sprintf("compact-%v-rsv", compressed), append(append([]byte{}, c[1:]...), c[0]-27), nil)
		}
		// over the unhashed / otherwise hashed message
		add("der-sha512/256", secpecdsa.Sign(sk, h512[:32]).Serialize(), nil)
		add("compact-sha512/256", secpecdsa.SignCompact(sk, h512[:32], true), nil)
		if len(msg) == 32 {
			add("der-nohash", secpecdsa.Sign(sk, msg).Serialize(), nil)
		}
	case *ecdsa.PrivateKey:
		for name, d := range map[string][]byte{"sha512": h512[:], "sha1": h1[:], "sha512/256": h512[:32]} {
			if r, s, err := ecdsa.Sign(rand.Reader, k, d); err == nil {
				b, _ := asn1.Marshal(struct{ R, S *big.Int }{r, s})
				add("der-"+name, b, nil)
			}
		}
		if r, s, err := ecdsa.Sign(rand.Reader, k, h256[:]); err == nil {
			out = append(out, vfC08RSForms("fresh:", r, s, []*big.Int{k.Curve.Params().N})...)
		}
	case *ed25519.PrivateKey:
		b, err := k.Sign(rand.Reader, h512[:], &ed25519.Options{Hash: stdcrypto.SHA512})
		add("ed25519ph", b, err)
		b, err = k.Sign(rand.Reader, msg, &ed25519.Options{Context: "libp2p"})
		add("ed25519ctx", b, err)
		add("over-sha256", ed25519.Sign(*k, h256[:]), nil)
	case *rsa.PrivateKey:
		b, err := rsa.SignPSS(rand.Reader, k, stdcrypto.SHA256, h256[:], nil)
		add("pss-sha256", b, err)
		b, err = rsa.SignPSS(rand.Reader, k, stdcrypto.SHA256, h256[:], &rsa.PSSOptions{SaltLength: rsa.PSSSaltLengthEqualsHash})
		add("pss-sha256-salt32", b, err)
		b, err = rsa.SignPKCS1v15(nil, k, stdcrypto.SHA512, h512[:])
		add("pkcs1-sha512", b, err)
		b, err = rsa.SignPKCS1v15(nil, k, stdcrypto.SHA1, h1[:])
		add("pkcs1-sha1", b, err)
		b, err = rsa.SignPKCS1v15(nil, k, stdcrypto.Hash(0), h256[:])
		add("pkcs1-unprefixed", b, err)
	}
	return out
}

// ---------------------------------------------------------------------------------------------
// look-alike IDs
// ---------------------------------------------------------------------------------------------

type vfC08Lookalike struct {
	how string
	id  peer.ID
}

// vfC08Lookalikes: identity multihashes over the variants of one surgery kind on the serialised public
// key (or over the canonical serialisation itself, "x-canonical").  IDs equal to the real ID are dropped.
func vfC08Lookalikes(pkpb []byte, kind string, real peer.ID) []vfC08Lookalike {
	var vars [][]byte
	if kind == "x-canonical" {
		vars = [][]byte{pkpb}
	} else {
		vars = vfC08KeySurgeries(pkpb, false)[kind]
	}
	var out []vfC08Lookalike
	for i, v := range vars {
		m, err := mh.Sum(v, mh.IDENTITY, -1)
		if err != nil {
			continue
		}
		if id := peer.ID(m); id != real {
			out = append(out, vfC08Lookalike{fmt.Sprintf("identity multihash over %s variant %d of the serialised key", kind, i), id})
		}
	}
	return out
}

type vfC08KeyBook interface {
	AddPubKey(peer.ID, crypto.PubKey) error
	AddPrivKey(peer.ID, crypto.PrivKey) error
	PubKey(peer.ID) crypto.PubKey
	PrivKey(peer.ID) crypto.PrivKey
}

func vfC08NewKeyBook(kind string) vfC08KeyBook {
	if kind == "pmem" {
		return pstoremem.NewKeyBook()
	}
	kb, err := pstoreds.NewKeyBook(context.Background(), dssync.MutexWrap(ds.NewMapDatastore()), pstoreds.DefaultOpts())
	if err != nil {
		panic(err)
	}
	return kb
}

// vfC08PairClause: for ANY id x and key K:  x.MatchesPublicKey(K) => x == IDFromPublicKey(K); the key
// books accept the pair (x, K) only then.  Returns (class, what) of the first clause that fails.
func vfC08PairClause(x peer.ID, k vfC08Pair, how string) (string, string) {
	real, err := peer.IDFromPublicKey(k.pub)
	if err != nil {
		return "", ""
	}
	legit := x == real
	if x.MatchesPublicKey(k.pub) != legit || x.MatchesPrivateKey(k.priv) != legit {
		return "id-matches-key-it-is-not-the-id-of", fmt.Sprintf("ID %s (%s) MatchesPublicKey a key whose ID is %s", x, how, real)
	}
	for _, kind := range []string{"pmem", "pds"} {
		kb := vfC08NewKeyBook(kind)
		if err := kb.AddPubKey(x, k.pub); (err == nil) != legit {
			return "keybook-accepts-id-key-pair-that-does-not-match:" + kind, fmt.Sprintf("%s KeyBook.AddPubKey(%s, key with ID %s) = %v (%s)", kind, x, real, err, how)
		}
		// (KeyBook.PubKey(x) derives a key from an identity-multihash x by itself, without any pair being
		// offered; that adoption is noted as L2 by the caller, it is not an acceptance of (x, K))
		kb = vfC08NewKeyBook(kind)
		if err := kb.AddPrivKey(x, k.priv); (err == nil) != legit {
			return "keybook-accepts-id-key-pair-that-does-not-match:" + kind, fmt.Sprintf("%s KeyBook.AddPrivKey(%s, key with ID %s) = %v (%s)", kind, x, real, err, how)
		}
		if got := kb.PrivKey(x); !legit && got != nil {
			return "keybook-stores-key-under-foreign-id:" + kind, fmt.Sprintf("%s KeyBook returns a private key under %s", kind, x)
		}
	}
	return "", ""
}

var _ = bytes.Equal
