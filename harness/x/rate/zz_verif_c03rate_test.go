//go:build verif

package rate

// C03rate (extension engine of C03): behaviours TLC generated from spec/C03rate_Limiter.tla replayed on the real
// Limiter in virtual time (testing/synctest), with the clauses of the module monitored from the harness's own
// integer ledger (internal/vfc03rate), and the model state compared after every step (L2).

import (
	"encoding/json"
	"fmt"
	"math"
	"math/rand"
	"net/netip"
	"path/filepath"
	"sort"
	"sync"
	"testing"
	"testing/synctest"
	"time"

	"github.com/libp2p/go-libp2p/core/network"
	v "github.com/libp2p/go-libp2p/internal/vfc03rate"
	"github.com/libp2p/go-libp2p/internal/vfh"
	ma "github.com/multiformats/go-multiaddr"
)

// ---------------------------------------------------------------------------------------------
// the real limiter built from an abstract configuration and a concretisation

type vfC03rateSUT struct {
	cf    *v.Conf
	va    *v.Variant
	l     *Limiter
	npIdx []int // model index -> index in l.NetworkPrefixLimits after init's sort
	lv4   []int // model level -> index of the heap with that prefix length (identity while init sorts longest-first)
	lv6   []int
}

func vfC03rateLimit(cf *v.Conf, rate, burst int, tick time.Duration, salt int) Limit {
	if rate == 0 {
		// R7: RPS == 0 means unlimited whatever Burst is
		return Limit{RPS: 0, Burst: []int{0, burst, 5}[salt%3]}
	}
	return Limit{RPS: cf.RPS(rate, tick), Burst: burst}
}

func vfC03rateBuild(cf *v.Conf, va *v.Variant, rnd *rand.Rand) (*vfC03rateSUT, error) {
	salt := rnd.Intn(3)
	l := &Limiter{GlobalLimit: vfC03rateLimit(cf, cf.Glob.Rate, cf.Glob.Burst, va.Tick, salt)}
	for _, i := range rnd.Perm(len(cf.NP)) { // any input order: init sorts
		l.NetworkPrefixLimits = append(l.NetworkPrefixLimits, PrefixLimit{Prefix: va.NP[i],
			Limit: vfC03rateLimit(cf, cf.NP[i].Rate, cf.NP[i].Burst, va.Tick, salt+i)})
	}
	for _, i := range rnd.Perm(len(cf.V4)) {
		l.SubnetRateLimiter.IPv4SubnetLimits = append(l.SubnetRateLimiter.IPv4SubnetLimits, SubnetLimit{PrefixLength: va.V4Len[i],
			Limit: Limit{RPS: cf.RPS(cf.V4[i].Rate, va.Tick), Burst: cf.V4[i].Burst}})
	}
	for _, i := range rnd.Perm(len(cf.V6)) {
		l.SubnetRateLimiter.IPv6SubnetLimits = append(l.SubnetRateLimiter.IPv6SubnetLimits, SubnetLimit{PrefixLength: va.V6Len[i],
			Limit: Limit{RPS: cf.RPS(cf.V6[i].Rate, va.Tick), Burst: cf.V6[i].Burst}})
	}
	l.SubnetRateLimiter.GracePeriod = time.Duration(cf.Grace) * va.Tick
	s := &vfC03rateSUT{cf: cf, va: va, l: l}
	return s, nil
}

// after the first call (init has run): locate the model's prefixes in the sorted slice
func (s *vfC03rateSUT) index() error {
	s.l.init()
	s.l.SubnetRateLimiter.init()
	s.npIdx = make([]int, len(s.cf.NP))
	for i := range s.cf.NP {
		s.npIdx[i] = -1
		for j, pl := range s.l.NetworkPrefixLimits {
			if pl.Prefix == s.va.NP[i] {
				s.npIdx[i] = j
			}
		}
		if s.npIdx[i] < 0 || len(s.l.networkPrefixBuckets) != len(s.cf.NP) {
			return fmt.Errorf("prefix %v not found after init", s.va.NP[i])
		}
	}
	find := func(lims []SubnetLimit, n int) (int, error) {
		for j, sl := range lims {
			if sl.PrefixLength == n {
				return j, nil
			}
		}
		return 0, fmt.Errorf("no subnet level /%d after init", n)
	}
	s.lv4, s.lv6 = make([]int, len(s.va.V4Len)), make([]int, len(s.va.V6Len))
	var err error
	for i, n := range s.va.V4Len {
		if s.lv4[i], err = find(s.l.SubnetRateLimiter.IPv4SubnetLimits, n); err != nil {
			return err
		}
	}
	for i, n := range s.va.V6Len {
		if s.lv6[i], err = find(s.l.SubnetRateLimiter.IPv6SubnetLimits, n); err != nil {
			return err
		}
	}
	return nil
}

// the model's compact projection: bk[bid] = [] (not in the heap) or [deficit in units, ticks until Expiry]
type vfC03rateSt struct {
	G  int              `json:"g"`
	NP []int            `json:"np"`
	Bk map[string][]int `json:"bk"`
}

func (s *vfC03rateSt) pres(bid string) bool { return len(s.Bk[bid]) > 0 }

func vfC03rateDef(cf *v.Conf, burst int, tokens float64) int {
	return int(math.Round((float64(burst) - tokens) * float64(cf.U)))
}

// bid -> (family, level index, concrete prefix) for the buckets some unmatched address maps to
type vfC03rateLoc struct {
	fam    string
	lvl    int
	prefix netip.Prefix
}

func (s *vfC03rateSUT) locs() map[string]vfC03rateLoc {
	out := map[string]vfC03rateLoc{}
	for _, a := range s.cf.Addrs() {
		if len(s.cf.InNP(a)) > 0 {
			continue
		}
		f := s.cf.Fam[a]
		lens := s.va.V4Len
		if f == "v6" {
			lens = s.va.V6Len
		}
		for i, lv := range s.cf.Levels(f) {
			p, err := s.va.Addr[a].Prefix(lens[i])
			if err != nil {
				continue
			}
			out[lv.Key[a]] = vfC03rateLoc{f, i, p}
		}
	}
	return out
}

// project reads the real limiter in-package (L2 only) and checks the heaps' structure.
func (s *vfC03rateSUT) project(now time.Time) (*vfC03rateSt, string) {
	st := &vfC03rateSt{NP: make([]int, len(s.cf.NP)), Bk: map[string][]int{}}
	if s.cf.Glob.Rate != 0 {
		st.G = vfC03rateDef(s.cf, s.cf.Glob.Burst, s.l.globalBucket.TokensAt(now))
	}
	for i, p := range s.cf.NP {
		if p.Rate != 0 {
			st.NP[i] = vfC03rateDef(s.cf, p.Burst, s.l.networkPrefixBuckets[s.npIdx[i]].TokensAt(now))
		}
	}
	held := 0
	for _, bid := range s.cf.Bids {
		st.Bk[bid] = []int{}
	}
	for bid, loc := range s.locs() {
		hs, lv, hi := s.l.SubnetRateLimiter.ipv4Heaps, s.cf.V4, s.lv4
		if loc.fam == "v6" {
			hs, lv, hi = s.l.SubnetRateLimiter.ipv6Heaps, s.cf.V6, s.lv6
		}
		h := hs[hi[loc.lvl]]
		idx, ok := h.prefixToIndex[loc.prefix]
		if !ok {
			continue
		}
		if idx < 0 || idx >= len(h.prefixBucket) || h.prefixBucket[idx].Prefix != loc.prefix {
			continue // dangling or crossed index entry: reported with the heap's structure below, the bucket counts as not held
		}
		b := h.prefixBucket[idx]
		ttl := 0
		if d := b.Expiry.Sub(now); d > 0 {
			ttl = int((d + s.va.Tick - 1) / s.va.Tick)
		}
		st.Bk[bid] = []int{vfC03rateDef(s.cf, lv[loc.lvl].Burst, b.TokensAt(now)), ttl}
		held++
	}
	// structure of the heaps: index map consistent, min-heap on Expiry, nothing but the model's buckets
	total := 0
	bad := ""
	for _, hs := range [][]*bucketHeap{s.l.SubnetRateLimiter.ipv4Heaps, s.l.SubnetRateLimiter.ipv6Heaps} {
		for li, h := range hs {
			total += len(h.prefixBucket)
			if len(h.prefixBucket) != len(h.prefixToIndex) {
				bad = fmt.Sprintf("level %d: %d buckets, %d index entries", li, len(h.prefixBucket), len(h.prefixToIndex))
			}
			for i, b := range h.prefixBucket {
				if j, ok := h.prefixToIndex[b.Prefix]; !ok || j != i {
					bad = fmt.Sprintf("level %d: prefixToIndex[%v]=%d,%v but the bucket sits at %d", li, b.Prefix, j, ok, i)
				}
				if i > 0 && h.prefixBucket[(i-1)/2].Expiry.After(b.Expiry) {
					bad = fmt.Sprintf("level %d: heap order broken at %d", li, i)
				}
			}
		}
	}
	if bad == "" && total != held {
		bad = fmt.Sprintf("%d buckets in the heaps, %d of them are buckets of the model", total, held)
	}
	return st, bad
}

// ---------------------------------------------------------------------------------------------
// Limit(handler) path: a stub stream whose connection reports the remote multiaddr

type vfC03rateConn struct {
	network.Conn
	remote, local ma.Multiaddr
}

func (c *vfC03rateConn) RemoteMultiaddr() ma.Multiaddr { return c.remote }
func (c *vfC03rateConn) LocalMultiaddr() ma.Multiaddr  { return c.local }

type vfC03rateStream struct {
	network.Stream
	conn   *vfC03rateConn
	resets []network.StreamErrorCode
	plain  int
}

func (s *vfC03rateStream) Conn() network.Conn { return s.conn }
func (s *vfC03rateStream) Reset() error       { s.plain++; return nil }
func (s *vfC03rateStream) ResetWithError(c network.StreamErrorCode) error {
	s.resets = append(s.resets, c)
	return nil
}

// the multiaddr a transport would report for the address (what manet.ToIP sees), nil if not expressible
func vfC03rateMaddr(a netip.Addr, salt int) ma.Multiaddr {
	var s string
	switch {
	case !a.IsValid():
		s = []string{"/dns4/example.com/tcp/443", "/dns6/example.com/udp/443/quic-v1", "/dnsaddr/example.com"}[salt%3]
	case a.Is4():
		s = fmt.Sprintf([]string{"/ip4/%s/tcp/4001", "/ip4/%s/udp/4001/quic-v1", "/ip4/%s/tcp/443/tls/ws"}[salt%3], a)
	case a.Zone() != "":
		return nil // the zone is dropped by manet.ToIP: a different netip.Addr, replayed directly instead
	default:
		s = fmt.Sprintf([]string{"/ip6/%s/tcp/4001", "/ip6/%s/udp/4001/quic-v1", "/ip6/%s/udp/443/quic-v1/webtransport"}[salt%3], a)
	}
	m, err := ma.NewMultiaddr(s)
	if err != nil {
		return nil
	}
	return m
}

// ---------------------------------------------------------------------------------------------

// a panic of the limiter under a valid call is an observable failure, not a harness problem
func vfC03rateGuard(f func()) (p any) {
	defer func() { p = recover() }()
	f()
	return nil
}

func vfC03rateOpStr(op vfh.Op) string {
	if op.Name() == "Tick" {
		return "Tick"
	}
	return fmt.Sprintf("%s(%s)", op.Name(), op.S("a"))
}

type vfC03rateRun struct {
	res    *vfh.Result
	file   string
	walk   int
	prefix []string
	cfg    map[string]any
}

func (r *vfC03rateRun) mism(class, what string, step int, exp, got any) {
	r.res.AddMismatch(vfh.Mismatch{Class: class, What: what, Walk: r.walk, Step: step, Expected: exp, Got: got,
		Prefix: append([]string(nil), r.prefix...), Cfg: r.cfg})
}

func vfC03rateWalk(cf *v.Conf, va *v.Variant, res *vfh.Result, file string, wi int, w vfh.Walk, seed int64) error {
	rnd := rand.New(rand.NewSource(seed*7919 + int64(wi)))
	sut, err := vfC03rateBuild(cf, va, rnd)
	if err != nil {
		return err
	}
	viaLimit := rnd.Intn(3) == 0
	run := &vfC03rateRun{res: res, file: file, walk: wi, cfg: map[string]any{"inst": cf.Inst, "variant": va.Name, "file": file,
		"tick": va.Tick.String(), "via_limit_wrapper": viaLimit}}
	orc := v.NewOracle(cf, va.Tick)
	handled := 0
	wrapped := sut.l.Limit(func(network.Stream) { handled++ })
	if err := sut.index(); err != nil {
		return err
	}
	local, _ := ma.NewMultiaddr("/ip4/127.0.0.1/tcp/1")
	modelSync := true
	var hist []string // the first walk of every file is written out as a sample
	defer func() {
		if wi == 0 {
			res.Sample(map[string]any{"instance": cf.Inst, "variant": va.Name, "via_limit_wrapper": viaLimit, "history": hist})
		}
	}()
	for si, step := range w.Steps {
		op := step.Op
		run.prefix = append(run.prefix, vfC03rateOpStr(op))
		switch op.Name() {
		case "Tick":
			time.Sleep(va.Tick)
			orc.Advance(va.Tick)
			if wi == 0 && len(hist) < 30 {
				hist = append(hist, "Sleep("+va.Tick.String()+")")
			}
		case "Allow":
			a := op.S("a")
			ca := va.Addr[a]
			var got bool
			if m := vfC03rateMaddr(ca, wi+si); viaLimit && m != nil {
				st := &vfC03rateStream{conn: &vfC03rateConn{remote: m, local: local}}
				before := handled
				if p := vfC03rateGuard(func() { wrapped(st) }); p != nil {
					run.mism("rate-limiter-panic", fmt.Sprintf("[%s %s] Limit(handler) on a stream from %s panics: %v", cf.Inst, va.Name, m, p), si, nil, fmt.Sprint(p))
					res.Count(1, 1)
					return nil
				}
				got = handled == before+1
				okReset := len(st.resets) == 1 && st.resets[0] == network.StreamRateLimited && st.plain == 0
				if (got && (len(st.resets) != 0 || st.plain != 0)) || (!got && !okReset) || handled > before+1 {
					run.mism("rate-limit-wrapper-contract", fmt.Sprintf("Limit(handler) on a stream from %s: handler runs %d, resets %v, plain resets %d", m, handled-before, st.resets, st.plain),
						si, "handler XOR exactly one ResetWithError(StreamRateLimited)", nil)
				}
				res.Inc("via_limit_wrapper", 1)
			} else if p := vfC03rateGuard(func() { got = sut.l.Allow(ca) }); p != nil {
				run.mism("rate-limiter-panic", fmt.Sprintf("[%s %s] Allow(%s=%v) panics: %v", cf.Inst, va.Name, a, ca, p), si, nil, fmt.Sprint(p))
				res.Count(1, 1)
				return nil
			}
			if wi == 0 && len(hist) < 30 {
				hist = append(hist, fmt.Sprintf("Allow(%s=%v)=%v", a, ca, got))
			}
			fs := orc.Observe(a, got)
			l1 := false
			for _, f := range fs {
				run.mism(f.Class, fmt.Sprintf("[%s %s] %s", cf.Inst, va.Name, f.What), si, op.B("ok"), got)
				if len(f.Class) < 3 || f.Class[:3] != "L2:" {
					l1 = true
				}
			}
			if got != op.B("ok") && modelSync {
				if !l1 && len(fs) == 0 {
					run.mism("L2:result-differs-from-model", fmt.Sprintf("[%s %s] Allow(%s=%v)", cf.Inst, va.Name, a, ca), si, op.B("ok"), got)
				}
				modelSync = false
			}
			res.Case(fmt.Sprintf("%s|%s|%v|%s|%d", cf.Inst, a, got, op.S("by"), op.I("at")))
			// R6: what the heaps hold right after a call that ran cleanUp
			if orc.ReachesSubnet(a) && !orc.Desync {
				st, _ := sut.project(time.Now())
				for bid := range sut.locs() {
					if orc.MustBeGone(bid) && st.pres(bid) {
						run.mism("rate-idle-bucket-retained", fmt.Sprintf("[%s %s] subnet bucket %s is still held although it was full and its grace period over %v ago (R6)",
							cf.Inst, va.Name, bid, time.Duration(orc.Now-orc.Sub[bid].ExpAt)), si, false, true)
					}
					if orc.MustBeHeld(bid) && !st.pres(bid) {
						run.mism("rate-bucket-forgotten-before-full", fmt.Sprintf("[%s %s] subnet bucket %s was dropped %v before it is full again (R6): the next requests of that subnet get a fresh burst",
							cf.Inst, va.Name, bid, time.Duration(orc.Sub[bid].Def)), si, true, false)
						orc.Desync = true
					}
					if orc.InGrace(bid) && !st.pres(bid) {
						run.mism("rate-bucket-dropped-within-grace", fmt.Sprintf("[%s %s] subnet bucket %s is full again but its grace period (%v) has %v to go, and it is already dropped (R6)",
							cf.Inst, va.Name, bid, time.Duration(cf.Grace)*va.Tick, time.Duration(orc.Sub[bid].ExpAt-orc.Now)), si, true, false)
					}
				}
			}
		default:
			return fmt.Errorf("unknown op %v", op)
		}
		// L2: model state
		st, bad := sut.project(time.Now())
		if bad != "" {
			run.mism("L2:heap-structure", fmt.Sprintf("[%s %s] %s", cf.Inst, va.Name, bad), si, nil, nil)
		}
		if modelSync {
			var raw struct {
				G  int             `json:"g"`
				NP []int           `json:"np"`
				Bk json.RawMessage `json:"bk"`
			}
			if err := json.Unmarshal(step.State, &raw); err != nil {
				return fmt.Errorf("state of step %d: %w", si, err)
			}
			bk, err := v.FlexMap[[]int](raw.Bk)
			if err != nil {
				return fmt.Errorf("state of step %d: %w", si, err)
			}
			want := vfC03rateSt{G: raw.G, NP: raw.NP, Bk: bk}
			if want.NP == nil {
				want.NP = []int{}
			}
			if vfh.Canon(want) != vfh.Canon(st) {
				run.mism("L2:state-differs-from-model", fmt.Sprintf("[%s %s] after %s", cf.Inst, va.Name, vfC03rateOpStr(op)), si, want, st)
				modelSync = false
			}
		}
		res.Count(0, 1)
	}
	// R8: after a long rest every address is served as by a new limiter, and only the probed subnets are remembered
	if !orc.Desync {
		rest := 64 * va.Tick
		time.Sleep(rest)
		orc.Advance(rest)
		for _, a := range cf.Addrs() {
			var got bool
			if p := vfC03rateGuard(func() { got = sut.l.Allow(va.Addr[a]) }); p != nil {
				run.mism("rate-limiter-panic", fmt.Sprintf("[%s %s] Allow(%s=%v) after a rest panics: %v", cf.Inst, va.Name, a, va.Addr[a], p), len(w.Steps), nil, fmt.Sprint(p))
				break
			}
			run.prefix = append(run.prefix, fmt.Sprintf("Rest+Allow(%s)", a))
			for _, f := range orc.Observe(a, got) {
				run.mism(f.Class, fmt.Sprintf("[%s %s] after a rest of %v: %s", cf.Inst, va.Name, rest, f.What), len(w.Steps), nil, got)
			}
			if orc.ReachesSubnet(a) && !orc.Desync {
				st, _ := sut.project(time.Now())
				for bid := range sut.locs() {
					if orc.MustBeGone(bid) && st.pres(bid) {
						run.mism("rate-idle-bucket-retained", fmt.Sprintf("[%s %s] subnet bucket %s is still held %v after it was full and its grace period over (R6)",
							cf.Inst, va.Name, bid, time.Duration(orc.Now-orc.Sub[bid].ExpAt)), len(w.Steps), false, true)
					}
				}
			}
		}
		res.Inc("rest_probes", len(cf.Addrs()))
	}
	res.Count(1, 0)
	return nil
}

func TestVerifC03rateReplay(t *testing.T) {
	res := vfh.NewResult()
	res.Rule = "distinct = (instance, address, result, refusing stage, level)"
	files, _ := filepath.Glob(filepath.Join(vfh.In(), "lim_*.jsonl"))
	sort.Strings(files)
	if len(files) == 0 {
		t.Fatalf("no behaviour files in %q", vfh.In())
	}
	for _, f := range files {
		hdr, walks, err := vfh.LoadWalks(f)
		if err != nil {
			t.Fatal(err)
		}
		cf, err := v.ParseConf(hdr)
		if err != nil {
			t.Fatal(err)
		}
		vars := v.Variants(cf.Inst)
		if len(vars) == 0 {
			t.Fatalf("no concretisation for instance %s", cf.Inst)
		}
		for i := range vars {
			if err := v.Check(cf, &vars[i]); err != nil {
				t.Fatal(err)
			}
		}
		for wi, w := range walks {
			va := &vars[(wi+int(vfh.Seed()))%len(vars)]
			var werr error
			synctest.Test(t, func(t *testing.T) {
				werr = vfC03rateWalk(cf, va, res, filepath.Base(f), wi, w, vfh.Seed())
			})
			if werr != nil {
				t.Fatalf("%s walk %d: %v", f, wi, werr)
			}
		}
	}
	if err := res.Write(); err != nil {
		t.Fatal(err)
	}
}

// ---------------------------------------------------------------------------------------------
// K1: real goroutines released at one virtual instant; some sequential order of the ledger must explain the results

func vfC03ratePerms(n int) [][]int {
	if n == 1 {
		return [][]int{{0}}
	}
	var out [][]int
	for _, p := range vfC03ratePerms(n - 1) {
		for i := 0; i <= len(p); i++ {
			q := append(append(append([]int{}, p[:i]...), n-1), p[i:]...)
			out = append(out, q)
		}
	}
	return out
}

func vfC03rateSig(o *v.Oracle) string {
	s := fmt.Sprint(o.Glob.Def)
	for _, b := range o.NP {
		s += fmt.Sprint(",", b.Def)
	}
	keys := make([]string, 0, len(o.Sub))
	for k := range o.Sub {
		keys = append(keys, k)
	}
	sort.Strings(keys)
	for _, k := range keys {
		s += fmt.Sprint(",", k, "=", o.Sub[k].Def)
	}
	return s
}

func vfC03rateConcOne(cf *v.Conf, va *v.Variant, res *vfh.Result, rnd *rand.Rand, rounds int, tag string) error {
	sut, err := vfC03rateBuild(cf, va, rnd)
	if err != nil {
		return err
	}
	if err := sut.index(); err != nil {
		return err
	}
	names := cf.Addrs()
	cands := []*v.Oracle{v.NewOracle(cf, va.Tick)}
	var hist []string
	for r := 0; r < rounds; r++ {
		k := 2 + rnd.Intn(3)
		batch := make([]string, k)
		for i := range batch {
			batch[i] = names[rnd.Intn(len(names))]
		}
		got := make([]bool, k)
		var pan [8]any
		start := make(chan struct{})
		var wg sync.WaitGroup
		for i := range batch {
			wg.Add(1)
			go func() {
				defer wg.Done()
				<-start
				pan[i] = vfC03rateGuard(func() { got[i] = sut.l.Allow(va.Addr[batch[i]]) })
			}()
		}
		synctest.Wait()
		close(start)
		wg.Wait()
		for i := range batch {
			if pan[i] != nil {
				res.AddMismatch(vfh.Mismatch{Class: "rate-limiter-panic", What: fmt.Sprintf("[%s %s] concurrent Allow(%s) panics: %v", cf.Inst, va.Name, batch[i], pan[i]),
					Walk: -1, Step: r, Prefix: append([]string(nil), hist...)})
				return nil
			}
		}
		hist = append(hist, fmt.Sprintf("%v=%v", batch, got))
		if len(hist) > 12 {
			hist = hist[1:]
		}
		next := map[string]*v.Oracle{}
		var l1 []v.Finding
		for _, c := range cands {
			for _, p := range vfC03ratePerms(k) {
				o := c.Clone()
				good := true
				for _, i := range p {
					if want, _ := o.Decide(batch[i]); want != got[i] {
						good = false
						break
					}
					if fs := o.Observe(batch[i], got[i]); len(fs) > 0 {
						good = false
						l1 = append(l1, fs...)
						break
					}
				}
				if good {
					next[vfC03rateSig(o)] = o
				}
			}
		}
		res.Count(0, k)
		res.Case(fmt.Sprintf("conc|%s|%d|%v", cf.Inst, k, got))
		mixed := false
		for i := range batch {
			for j := range batch {
				if batch[i] == batch[j] && got[i] != got[j] {
					mixed = true
				}
			}
		}
		if mixed {
			res.Inc("conc_batches_split_over_one_address", 1)
		}
		if len(next) == 0 {
			// no order explains the results: R1 first (all allowed requests charged in any order), else K1
			o := cands[0].Clone()
			cls, what := "rate-concurrent-results-not-serialisable", fmt.Sprintf("[%s %s] no sequential order of the batch explains the results", cf.Inst, va.Name)
			for i := range batch {
				if got[i] {
					for _, f := range o.Observe(batch[i], true) {
						if f.Class == "rate-bound-exceeded" {
							cls, what = f.Class, fmt.Sprintf("[%s %s] concurrent batch: %s", cf.Inst, va.Name, f.What)
						}
					}
				}
			}
			res.AddMismatch(vfh.Mismatch{Class: cls, What: what, Walk: -1, Step: r, Prefix: append([]string(nil), hist...),
				Cfg: map[string]any{"inst": cf.Inst, "variant": va.Name, "part": tag}})
			return nil // a fresh limiter for the next sequence
		}
		cands = cands[:0]
		keys := make([]string, 0, len(next))
		for kx := range next {
			keys = append(keys, kx)
		}
		sort.Strings(keys)
		for _, kx := range keys {
			cands = append(cands, next[kx])
		}
		// L2: the real buckets equal one of the surviving ledgers
		st, bad := sut.project(time.Now())
		if bad != "" {
			res.AddMismatch(vfh.Mismatch{Class: "L2:heap-structure", What: bad, Walk: -1, Step: r, Prefix: append([]string(nil), hist...)})
		}
		match := false
		for _, o := range cands {
			same := true
			if cf.Glob.Rate != 0 && int64(st.G)*o.Glob.Tok != o.Glob.Def*int64(cf.U) {
				same = false
			}
			for bid, loc := range sut.locs() {
				_ = loc
				b := o.Sub[bid]
				def := 0
				if st.pres(bid) {
					def = st.Bk[bid][0]
				}
				if int64(def)*b.Tok != b.Def*int64(cf.U) {
					same = false
				}
			}
			if same {
				match = true
			}
		}
		if !match {
			res.AddMismatch(vfh.Mismatch{Class: "L2:concurrent-state-differs-from-ledger", What: fmt.Sprintf("[%s %s] after %v", cf.Inst, va.Name, hist[len(hist)-1]),
				Walk: -1, Step: r, Got: st, Prefix: append([]string(nil), hist...)})
			return nil
		}
		if d := time.Duration(rnd.Intn(4)) * va.Tick; d > 0 {
			time.Sleep(d)
			for _, o := range cands {
				o.Advance(d)
			}
		}
	}
	return nil
}

func TestVerifC03rateConc(t *testing.T) {
	res := vfh.NewResult()
	res.Rule = "distinct = (instance, batch size, result vector)"
	files, _ := filepath.Glob(filepath.Join(vfh.In(), "lim_*.jsonl"))
	sort.Strings(files)
	seqs := vfh.EnvInt("VERIF_C03RATE_CONC_SEQS", 40)
	rounds := vfh.EnvInt("VERIF_C03RATE_CONC_ROUNDS", 40)
	for fi, f := range files {
		hdr, _, err := vfh.LoadWalks(f)
		if err != nil {
			t.Fatal(err)
		}
		cf, err := v.ParseConf(hdr)
		if err != nil {
			t.Fatal(err)
		}
		vars := v.Variants(cf.Inst)
		for s := 0; s < seqs; s++ {
			va := &vars[(s+int(vfh.Seed()))%len(vars)]
			if err := v.Check(cf, va); err != nil {
				t.Fatal(err)
			}
			rnd := rand.New(rand.NewSource(vfh.Seed()*104729 + int64(fi*1000+s)))
			var werr error
			synctest.Test(t, func(t *testing.T) {
				werr = vfC03rateConcOne(cf, va, res, rnd, rounds, filepath.Base(f))
			})
			if werr != nil {
				t.Fatal(werr)
			}
			res.Count(1, 0)
		}
	}
	if err := res.Write(); err != nil {
		t.Fatal(err)
	}
}

// ---------------------------------------------------------------------------------------------
// R7 for subnet limits (outside the model: the code has no RPS == 0 case there) and the family rules as coded

func TestVerifC03rateZero(t *testing.T) {
	res := vfh.NewResult()
	synctest.Test(t, func(t *testing.T) {
		type cs struct {
			name string
			lim  Limit
		}
		for _, c := range []cs{{"zero-value", Limit{}}, {"rps0-burst2", Limit{RPS: 0, Burst: 2}}} {
			for _, fam := range []string{"v4", "v6"} {
				l := &Limiter{SubnetRateLimiter: SubnetLimiter{GracePeriod: time.Minute}}
				ip := netip.MustParseAddr("1.2.3.4")
				if fam == "v4" {
					l.SubnetRateLimiter.IPv4SubnetLimits = []SubnetLimit{{PrefixLength: 24, Limit: c.lim}}
				} else {
					ip = netip.MustParseAddr("2001:db8::1")
					l.SubnetRateLimiter.IPv6SubnetLimits = []SubnetLimit{{PrefixLength: 56, Limit: c.lim}}
				}
				var outs []bool
				for i := 0; i < 6; i++ {
					outs = append(outs, l.Allow(ip))
					if i%2 == 1 {
						time.Sleep(time.Hour)
					}
				}
				refused := 0
				for _, o := range outs {
					if !o {
						refused++
					}
				}
				res.Count(1, len(outs))
				res.Set("zero_"+c.name+"_"+fam, fmt.Sprint(outs))
				if refused > 0 {
					res.AddMismatch(vfh.Mismatch{Class: "L2:rate-subnet-zero-rps-not-unlimited", Walk: -1, // as coded; an observation about x/rate's own doc comment, not a clause of a listed property
						What: fmt.Sprintf("SubnetLimit{PrefixLength, Limit%+v} (%s): %d of %d requests an hour apart refused; Limiter's doc: \"Use 0 for no rate limiting\" (GlobalLimit and NetworkPrefixLimits honour it)",
							c.lim, fam, refused, len(outs)), Expected: "all allowed", Got: outs})
				}
			}
		}
		// no limits at all: everything is allowed, nothing is remembered
		l := &Limiter{}
		for i := 0; i < 1000; i++ {
			for _, s := range []string{"1.2.3.4", "::1", "::ffff:1.2.3.4", ""} {
				var ip netip.Addr
				if s != "" {
					ip = netip.MustParseAddr(s)
				}
				if !l.Allow(ip) {
					res.AddMismatch(vfh.Mismatch{Class: "rate-spurious-refusal", Walk: -1, What: "zero-value Limiter refused " + s})
				}
			}
		}
		res.Count(1, 4000)
	})
	if err := res.Write(); err != nil {
		t.Fatal(err)
	}
}
