"""Locate the Go toolchain /repo needs, build the overlay, run harness tests.

Harness sources live under /verif/harness/<repo-relative package path>/ and are injected into
/repo packages with `go test -overlay`; nothing under /repo is written.
"""
import glob
import json
import os
import subprocess
import time

from .common import HARNESS, REPO, HarnessCrash, MachineryError, log, run_group

_GO = None


def go_bin():
    global _GO
    if _GO:
        return _GO
    cands = sorted(glob.glob("/root/go/pkg/mod/golang.org/toolchain@v0.0.1-go1.25.*linux-amd64/bin/go"))
    if cands:
        _GO = cands[-1]
        return _GO
    # fall back to auto-switching through the default go
    env = dict(os.environ, GOFLAGS="-mod=mod", GOPROXY="off", GOTOOLCHAIN="auto")
    env.pop("GOSUMDB", None)
    p = subprocess.run(["go", "env", "GOROOT"], cwd=REPO, env=env, stdout=subprocess.PIPE, text=True)
    root = p.stdout.strip()
    if p.returncode == 0 and os.path.exists(os.path.join(root, "bin", "go")):
        _GO = os.path.join(root, "bin", "go")
        return _GO
    raise MachineryError("cannot locate a Go toolchain for /repo")


def go_env(extra=None):
    env = dict(os.environ)
    env.update({"GOFLAGS": "-mod=mod", "GOPROXY": "off", "GOTOOLCHAIN": "local"})
    env.pop("GOSUMDB", None)   # GOSUMDB=off breaks module loading here; the default works offline
    if extra:
        env.update({k: str(v) for k, v in extra.items()})
    return env


def make_overlay(ctx):
    """Map every file under /verif/harness/<rel> to /repo/<rel>."""
    repl = {}
    for root, _dirs, files in os.walk(HARNESS):
        for f in files:
            if not f.endswith(".go"):
                continue
            src = os.path.join(root, f)
            rel = os.path.relpath(src, HARNESS)
            repl[os.path.join(REPO, rel)] = src
    p = os.path.join(ctx.tmp, "overlay.json")
    with open(p, "w") as f:
        json.dump({"Replace": repl}, f, indent=1)
    return p


def go_test(ctx, pkg, run, env=None, timeout=900, tags="verif", race=False, parallel=None, count=1,
            extra=None):
    """Run harness tests of one /repo package. Returns (returncode, output)."""
    overlay = make_overlay(ctx)
    cmd = [go_bin(), "test", "-vet=off", "-tags", tags, "-overlay", overlay, "-count", str(count),
           "-run", run, "-timeout", "%ds" % timeout]
    if race:
        cmd.append("-race")
    if parallel:
        cmd += ["-parallel", str(parallel)]
    if extra:
        cmd += list(extra)
    cmd.append(pkg)
    e = go_env(env)
    e.setdefault("VERIF_SEED", str(ctx.seed))
    e.setdefault("VERIF_TIER", ctx.tier)
    t0 = time.time()
    try:
        p = run_group(cmd, timeout + 120, cwd=REPO, env=e)
    except subprocess.TimeoutExpired:
        raise MachineryError("go test timeout: %s %s" % (pkg, run))
    log("go test %s -run %s: rc=%d %.1fs" % (pkg, run, p.returncode, time.time() - t0))
    return p.returncode, p.stdout


def run_harness(ctx, pkg, run, inputs=None, env=None, timeout=900, **kw):
    """Run a harness test that reads VERIF_IN and writes VERIF_OUT/result.json.

    The Go test itself fails only for machinery problems; verdicts travel through result.json:
      {"replayed": int, "steps": int, "mismatches": [ {...} ], "samples": [...], ...}
    """
    out = ctx.sub("out-" + run.strip("^$").replace("/", "_"))
    e = {"VERIF_OUT": out}
    if inputs:
        e["VERIF_IN"] = inputs
    if env:
        e.update(env)
    rc, txt = go_test(ctx, pkg, run, env=e, timeout=timeout, **kw)
    rp = os.path.join(out, "result.json")
    if "[build failed]" in txt or "[setup failed]" in txt:
        raise MachineryError("harness does not build against the current tree (%s):\n%s" % (pkg, txt[-3000:]))
    if "no tests to run" in txt:
        raise MachineryError("harness test %s not found in %s" % (run, pkg))
    if not os.path.exists(rp):
        raise HarnessCrash("harness %s %s wrote no result.json (rc=%d):\n%s" % (pkg, run, rc, txt[-4000:]), txt)
    with open(rp) as f:
        res = json.load(f)
    res["_rc"] = rc
    res["_out"] = out
    res["_log"] = txt[-6000:]
    if rc != 0 and not res.get("mismatches"):
        raise HarnessCrash("harness %s %s failed without reporting a mismatch (rc=%d):\n%s"
                           % (pkg, run, rc, txt[-4000:]), txt)
    return res
