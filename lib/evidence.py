"""Write /verif/evidence/<id>.json (schema: /root/.vp/EVIDENCE.schema.json).

Every number comes from the run that writes the file (TLC's final line, the harness's
result.json, counters in the driver); nothing is a constant.
"""
import os
import re

from .common import EVIDENCE, write_json


def write(ctx, level, coverage, assumptions=None, violations=0, extra=None):
    ev = {
        "property_id": ctx.pid,
        "tier": "thorough" if ctx.tier == "thorough" else "quick",
        "seed": int(ctx.seed),
        "level": level,
        "coverage": coverage,
        "assumptions": assumptions or [],
        "wall_s": ctx.wall(),
        "violations": int(violations),
    }
    if extra:
        ev.update(extra)
    ev["coverage"] = {k: v for k, v in ev["coverage"].items() if v is not None}
    dest = EVIDENCE
    if os.environ.get("VERIF_REPO") and os.path.realpath(os.environ["VERIF_REPO"]) != "/repo":
        # a development run against a scratch copy (mutation self-test): never overwrite real evidence
        dest = os.path.join(ctx.tmp + "-evidence")
    if not re.fullmatch(r"C\d\d", ctx.pid):
        # an extension engine run on its own (it serves a listed property and is reported in that property's
        # evidence under coverage.extension_engines): not a property, so not next to the property files
        dest = os.path.join(dest, "engines")
        os.makedirs(dest, exist_ok=True)
    write_json(os.path.join(dest, ctx.pid + ".json"), ev)
    return ev


def mc_coverage(states, transitions, traces, samples, exhaustive, checker_cmd=None, **kw):
    cov = {
        "states": int(states),
        "transitions": int(transitions),
        "traces_validated_against_impl": int(traces),
        "samples": samples[:6] if samples else ["(none)"],
        "exhaustive": bool(exhaustive),
    }
    if checker_cmd:
        cov["checker_cmd"] = checker_cmd
    cov.update(kw)
    return cov
