"""State graph built from the VFEDGE/VFINIT lines TLC printed; covering and random walks.

An edge is {"s": state, "op": record with action name, arguments and expected observable
results, "t": state}.  States are the VIEW projection (no `op`), so every abstract
transition (s, op, t) appears exactly once however many paths lead to s.
"""
import collections
import json
import random


def key(st):
    return json.dumps(st, sort_keys=True, separators=(",", ":"))


class Graph:
    def __init__(self, inits, edges):
        self.states = {}          # key -> state obj
        self.out = collections.defaultdict(list)   # key -> [(edge_index)]
        self.edges = []           # (skey, op, tkey)
        seen = set()
        for e in edges:
            sk, tk = key(e["s"]), key(e["t"])
            ek = (sk, key(e["op"]), tk)
            if ek in seen:
                continue
            seen.add(ek)
            self.states.setdefault(sk, e["s"])
            self.states.setdefault(tk, e["t"])
            self.out[sk].append(len(self.edges))
            self.edges.append((sk, e["op"], tk))
        self.inits = []
        for s in inits:
            k = key(s)
            self.states.setdefault(k, s)
            if k not in self.inits:
                self.inits.append(k)
        if not self.inits and self.edges:
            self.inits = [self.edges[0][0]]

    def n_states(self):
        return len(self.states)

    def n_edges(self):
        return len(self.edges)

    def _bfs_to_uncovered(self, start, uncovered_out):
        """Shortest edge path from start to a node that still has an uncovered out-edge."""
        if uncovered_out.get(start):
            return []
        prev = {start: None}
        dq = collections.deque([start])
        while dq:
            u = dq.popleft()
            for ei in self.out.get(u, ()):
                v = self.edges[ei][2]
                if v in prev:
                    continue
                prev[v] = (u, ei)
                if uncovered_out.get(v):
                    path = []
                    w = v
                    while prev[w] is not None:
                        pu, pe = prev[w]
                        path.append(pe)
                        w = pu
                    path.reverse()
                    return path
                dq.append(v)
        return None

    def covering_walks(self, seed=0, max_len=60, limit_edges=None, budget=1000):
        """Walks from an initial state that together traverse every edge at least once, in
        O(E * depth): BFS-tree prefix to a state with uncovered out-edges (deepest first), then greedy
        through uncovered edges with a bounded look-ahead to the nearest state that still has some.
        limit_edges: stop once that many edges are covered (sampling for big graphs)."""
        rnd = random.Random(seed)
        parent = {}
        dq = collections.deque()
        for i in self.inits:
            parent[i] = None
            dq.append(i)
        order = []
        while dq:
            u = dq.popleft()
            order.append(u)
            for ei in self.out.get(u, ()):
                v = self.edges[ei][2]
                if v not in parent:
                    parent[v] = (u, ei)
                    dq.append(v)
        unc = {k: list(v) for k, v in self.out.items()}
        for k in sorted(unc):
            rnd.shuffle(unc[k])
        covered = set()
        walks = []

        def live(u):
            lst = unc.get(u)
            while lst and lst[-1] in covered:
                lst.pop()
            return bool(lst)

        def path_to(u):
            p = []
            while parent[u] is not None:
                pu, pe = parent[u]
                p.append(pe)
                u = pu
            p.reverse()
            return u, p

        def near(u, room):
            prev = {u: None}
            q = collections.deque([(u, 0)])
            n = 0
            while q and n < budget:
                x, d = q.popleft()
                n += 1
                if d >= room:
                    continue
                for ei in self.out.get(x, ()):
                    v = self.edges[ei][2]
                    if v in prev:
                        continue
                    prev[v] = (x, ei)
                    if live(v):
                        p = []
                        while prev[v] is not None:
                            px, pe = prev[v]
                            p.append(pe)
                            v = px
                        p.reverse()
                        return p
                    q.append((v, d + 1))
            return None

        starts = list(reversed(order))
        if limit_edges is not None:
            rnd.shuffle(starts)
        for u in starts:
            if u not in parent:
                continue
            while live(u):
                start, walk = path_to(u)
                covered.update(walk)
                cur = u
                first = True      # always take at least one uncovered edge, however deep u is
                while first or len(walk) < max_len:
                    first = False
                    if live(cur):
                        ei = unc[cur].pop()
                        covered.add(ei)
                        walk.append(ei)
                        cur = self.edges[ei][2]
                        continue
                    p = near(cur, min(6, max_len - len(walk) - 1))
                    if not p:
                        break
                    covered.update(p)
                    walk.extend(p)
                    cur = self.edges[p[-1]][2]
                walks.append(self._mk(start, walk))
                if limit_edges is not None and len(covered) >= limit_edges:
                    return walks
        self.covered = len(covered)
        return walks

    def random_walks(self, n, depth, seed=0):
        rnd = random.Random(seed)
        walks = []
        for _ in range(n):
            start = rnd.choice(self.inits)
            cur = start
            walk = []
            for _ in range(depth):
                outs = self.out.get(cur)
                if not outs:
                    break
                ei = rnd.choice(outs)
                walk.append(ei)
                cur = self.edges[ei][2]
            walks.append(self._mk(start, walk))
        return walks

    def _mk(self, start, walk):
        steps = []
        for ei in walk:
            s, op, t = self.edges[ei]
            steps.append({"op": op, "state": self.states[t]})
        return {"init": self.states[start], "steps": steps}


def write_behaviours(path, walks, header=None):
    """One JSON document per line: header, then one line per walk."""
    with open(path, "w") as f:
        f.write(json.dumps({"header": header or {}}, sort_keys=True) + "\n")
        for i, w in enumerate(walks):
            w = dict(w)
            w["walk"] = i
            f.write(json.dumps(w, sort_keys=True) + "\n")
    return path
