"""State graph built from the VFEDGE/VFINIT lines TLC printed; covering and random walks.

An edge is {"s": state, "op": record with action name, arguments and expected observable
results, "t": state}.  States are the VIEW projection (no `op`), so every abstract
transition (s, op, t) appears exactly once however many paths lead to s.
"""
import collections
import json
import random


def key(st):
    return json.dumps(st, sort_keys=True, separators=(",", ":"))


class Graph:
    def __init__(self, inits, edges):
        self.states = {}          # key -> state obj
        self.out = collections.defaultdict(list)   # key -> [(edge_index)]
        self.edges = []           # (skey, op, tkey)
        seen = set()
        for e in edges:
            sk, tk = key(e["s"]), key(e["t"])
            ek = (sk, key(e["op"]), tk)
            if ek in seen:
                continue
            seen.add(ek)
            self.states.setdefault(sk, e["s"])
            self.states.setdefault(tk, e["t"])
            self.out[sk].append(len(self.edges))
            self.edges.append((sk, e["op"], tk))
        self.inits = []
        for s in inits:
            k = key(s)
            self.states.setdefault(k, s)
            if k not in self.inits:
                self.inits.append(k)
        if not self.inits and self.edges:
            self.inits = [self.edges[0][0]]

    def n_states(self):
        return len(self.states)

    def n_edges(self):
        return len(self.edges)

    def _bfs_to_uncovered(self, start, uncovered_out):
        """Shortest edge path from start to a node that still has an uncovered out-edge."""
        if uncovered_out.get(start):
            return []
        prev = {start: None}
        dq = collections.deque([start])
        while dq:
            u = dq.popleft()
            for ei in self.out.get(u, ()):
                v = self.edges[ei][2]
                if v in prev:
                    continue
                prev[v] = (u, ei)
                if uncovered_out.get(v):
                    path = []
                    w = v
                    while prev[w] is not None:
                        pu, pe = prev[w]
                        path.append(pe)
                        w = pu
                    path.reverse()
                    return path
                dq.append(v)
        return None

    def covering_walks(self, seed=0, max_len=60, limit_edges=None):
        """Walks from an initial state that together traverse every edge at least once.

        Greedy: follow an uncovered out-edge while there is one; otherwise take the shortest
        path to the nearest node with one; a walk ends when it exceeds max_len (a short
        failing walk is easier to read) or nothing uncovered is reachable from it."""
        rnd = random.Random(seed)
        order = {k: list(v) for k, v in self.out.items()}
        for v in order.values():
            rnd.shuffle(v)
        uncovered_out = {k: set(v) for k, v in order.items()}
        remaining = sum(len(v) for v in uncovered_out.values())
        if limit_edges is not None:
            remaining_target = max(0, remaining - limit_edges)
        else:
            remaining_target = 0
        walks = []
        init_i = 0
        while remaining > remaining_target:
            start = self.inits[init_i % len(self.inits)]
            init_i += 1
            cur = start
            walk = []
            progressed = False
            while True:
                unc = uncovered_out.get(cur)
                if unc:
                    # deterministic given the seed: first uncovered in shuffled order
                    ei = next(e for e in order[cur] if e in unc)
                    unc.discard(ei)
                    remaining -= 1
                    progressed = True
                    walk.append(ei)
                    cur = self.edges[ei][2]
                    if len(walk) >= max_len:
                        break
                    continue
                path = self._bfs_to_uncovered(cur, uncovered_out)
                if path is None:
                    break
                if walk and len(walk) + len(path) >= max_len:
                    break
                for ei in path:
                    walk.append(ei)
                    # a traversed edge counts as covered too
                    s = uncovered_out.get(self.edges[ei][0])
                    if s and ei in s:
                        s.discard(ei)
                        remaining -= 1
                    cur = self.edges[ei][2]
            if not progressed:
                # nothing uncovered reachable from any init: stop (unreachable leftovers cannot exist
                # because every edge was generated from a reachable state)
                if init_i > len(self.inits):
                    break
                continue
            walks.append(self._mk(start, walk))
        return walks

    def random_walks(self, n, depth, seed=0):
        rnd = random.Random(seed)
        walks = []
        for _ in range(n):
            start = rnd.choice(self.inits)
            cur = start
            walk = []
            for _ in range(depth):
                outs = self.out.get(cur)
                if not outs:
                    break
                ei = rnd.choice(outs)
                walk.append(ei)
                cur = self.edges[ei][2]
            walks.append(self._mk(start, walk))
        return walks

    def _mk(self, start, walk):
        steps = []
        for ei in walk:
            s, op, t = self.edges[ei]
            steps.append({"op": op, "state": self.states[t]})
        return {"init": self.states[start], "steps": steps}


def write_behaviours(path, walks, header=None):
    """One JSON document per line: header, then one line per walk."""
    with open(path, "w") as f:
        f.write(json.dumps({"header": header or {}}, sort_keys=True) + "\n")
        for i, w in enumerate(walks):
            w = dict(w)
            w["walk"] = i
            f.write(json.dumps(w, sort_keys=True) + "\n")
    return path
