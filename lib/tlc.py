"""Run TLC / SANY under a timeout in a scratch copy of /verif/spec and parse the result."""
import json
import os
import re
import shutil
import subprocess
import time

from .common import SPEC, MachineryError, log, run_group

JAR = "/opt/veriftools/tla/tla2tools.jar"
DEPS = "/opt/veriftools/tla/CommunityModules-deps.jar"


def stage(ctx):
    return _stage(ctx, "w")


def _stage(ctx, name):
    """Copy the spec directory into scratch (TLC litters states/, *.out etc.)."""
    d = os.path.join(ctx.tmp, "spec-" + name)
    if not os.path.isdir(d):
        shutil.copytree(SPEC, d)
    return d


class TLCResult:
    def __init__(self):
        self.ok = False
        self.generated = 0
        self.distinct = 0
        self.depth = 0
        self.violated = None      # name of violated invariant / property
        self.error = None         # other TLC error text
        self.edges = []           # parsed VFEDGE lines (dicts)
        self.inits = []           # parsed VFINIT lines
        self.prints = []          # other VF* prints: (tag, obj)
        self.out = ""
        self.wall = 0.0
        self.coverage = {}        # action -> count (when coverage requested)
        self.cmd = ""


_FINAL = re.compile(r"(\d+) states generated, (\d+) distinct states found, (\d+) states left on queue")
_DEPTH = re.compile(r"The depth of the complete state graph search is (\d+)")
_VIOL = re.compile(r"Error: (?:Invariant|Action property|Temporal propert(?:y|ies)) ?(\S*) (?:is|was|were) violated")
_VF = re.compile(r'^<<"(VF[A-Z]+)", "(.*)">>$')
_COV = re.compile(r"^<(\w+) line (\d+), col (\d+) to line \d+, col \d+ of module (\w+)>: (\d+):(\d+)")


def _unescape(s):
    # TLC prints a string value with \" and \\ escapes (JSON-compatible)
    if "\\" not in s:
        return s
    try:
        return json.loads('"' + s + '"')
    except ValueError:
        return s.replace('\\"', '"').replace("\\\\", "\\")


def run(ctx, module, cfg, workers=8, timeout=600, simulate=None, depth=None, seed=None,
        coverage=False, dfs=False, heap=None, extra=None, keep_prints=True, name=None,
        deadlock=None, cfg_text=None, files=None):
    """Run TLC on spec/<module>.tla with spec/<cfg>. Returns TLCResult.

    Raises MachineryError on timeout / parse errors / TLC internal errors. An invariant
    violation is *not* an exception: res.violated is set and res.ok is False.
    """
    name = name or (module + "-" + os.path.splitext(os.path.basename(cfg))[0])
    d = _stage(ctx, "w")     # one scratch copy per check invocation; metadir is per run
    if cfg_text is not None:
        with open(os.path.join(d, cfg), "w") as f:
            f.write(cfg_text)
    for fn, txt in (files or {}).items():
        with open(os.path.join(d, fn), "w") as f:
            f.write(txt)
    meta = os.path.join(ctx.tmp, "meta-" + name + "-%d" % int(time.time() * 1000))
    jtmp = os.path.join(ctx.tmp, "jtmp")      # TLC unpacks its standard modules into java.io.tmpdir and leaves them
    os.makedirs(jtmp, exist_ok=True)
    java = ["java", "-XX:+UseParallelGC", "-XX:ParallelGCThreads=%d" % max(2, min(4, int(workers))), "-Xss64m",
            "-Djava.io.tmpdir=" + jtmp]
    if heap:
        java.append("-Xmx" + heap)
    if dfs:
        java.append("-Dtlc2.tool.queue.IStateQueue=StateDeque")
    cmd = java + ["-cp", JAR + ":" + DEPS, "tlc2.TLC", "-workers", str(workers), "-metadir", meta,
                  "-config", cfg, "-noGenerateSpecTE"]
    if simulate:
        cmd += ["-simulate", simulate]
    if depth:
        cmd += ["-depth", str(depth)]
    if seed is not None:
        cmd += ["-seed", str(seed)]
    if coverage:
        cmd += ["-coverage", "1"]
    if deadlock is False:
        cmd += ["-deadlock"]   # -deadlock switches deadlock checking OFF
    if extra:
        cmd += list(extra)
    cmd.append(module + ".tla")
    res = TLCResult()
    res.cmd = " ".join(cmd)
    t0 = time.time()
    try:
        p = run_group(cmd, timeout, cwd=d)
    except subprocess.TimeoutExpired:
        # a JVM that never got going has been seen once in several hundred runs (a probe that takes seconds sat
        # for its whole timeout): one more attempt with a fresh metadir before giving up
        log("TLC timeout after %ss: %s %s - retrying once" % (timeout, module, cfg))
        try:
            if "-metadir" in cmd:
                i = cmd.index("-metadir")
                cmd[i + 1] = cmd[i + 1] + "-retry"
            p = run_group(cmd, timeout, cwd=d)
        except subprocess.TimeoutExpired:
            raise MachineryError("TLC timeout after %ss (twice): %s %s" % (timeout, module, cfg))
    res.wall = round(time.time() - t0, 2)
    lines = p.stdout.splitlines()
    other = []
    for ln in lines:
        m = _VF.match(ln)
        if m:
            tag, body = m.group(1), _unescape(m.group(2))
            try:
                obj = json.loads(body)
            except ValueError:
                raise MachineryError("unparsable %s line from TLC: %r" % (tag, ln[:200]))
            if tag == "VFEDGE":
                res.edges.append(obj)
            elif tag == "VFINIT":
                res.inits.append(obj)
            elif keep_prints:
                res.prints.append((tag, obj))
            continue
        other.append(ln)
        m = _FINAL.search(ln)
        if m:
            res.generated, res.distinct = int(m.group(1)), int(m.group(2))
        m = _DEPTH.search(ln)
        if m:
            res.depth = int(m.group(1))
        m = _VIOL.search(ln)
        if m and res.violated is None:
            res.violated = m.group(1) or "property"
        m = re.search(r"Error: Postcondition (\S+)", ln)
        if m and res.violated is None:
            res.violated = m.group(1)
        if "Error: Deadlock reached" in ln and res.violated is None:
            res.violated = "Deadlock"
        m = _COV.match(ln)
        if m:
            res.coverage[m.group(1)] = res.coverage.get(m.group(1), 0) + int(m.group(5))
    res.out = "\n".join(other)
    shutil.rmtree(meta, ignore_errors=True)
    if res.violated:
        res.ok = False
        return res
    if p.returncode != 0 or ("Error:" in res.out and "Model checking completed. No error" not in res.out):
        if simulate and p.returncode == 0:
            pass
        else:
            tail = "\n".join(other[-40:])
            raise MachineryError("TLC failed (rc=%s) on %s/%s:\n%s" % (p.returncode, module, cfg, tail))
    res.ok = True
    return res


def postcondition_failed(res):
    return "Evaluating the POSTCONDITION" in res.out or "postcondition" in res.out.lower() and "false" in res.out.lower()


def sany(ctx, module):
    d = _stage(ctx, "sany")
    jtmp = os.path.join(ctx.tmp, "jtmp")
    os.makedirs(jtmp, exist_ok=True)
    cmd = ["java", "-Djava.io.tmpdir=" + jtmp, "-cp", JAR + ":" + DEPS, "tla2sany.SANY", module + ".tla"]
    p = subprocess.run(cmd, cwd=d, stdout=subprocess.PIPE, stderr=subprocess.STDOUT, timeout=120, text=True)
    if p.returncode != 0 or "*** Errors" in p.stdout or "Fatal errors" in p.stdout or "Parse Error" in p.stdout:
        raise MachineryError("SANY rejected %s:\n%s" % (module, p.stdout[-2000:]))
    return True


def subst_cfg(template_path, consts=None, replace=None):
    """Instantiate a cfg template: consts {name: value} rewrites `name = ...` lines; replace is a
    list of (old, new) textual substitutions (e.g. swapping NEXT or the FilterSets override)."""
    with open(os.path.join(SPEC, template_path)) as f:
        txt = f.read()
    for k, v in (consts or {}).items():
        pat = re.compile(r"^(\s*)%s\s*=\s*.*$" % re.escape(k), re.M)
        if not pat.search(txt):
            raise MachineryError("constant %s not in %s" % (k, template_path))
        txt = pat.sub(lambda m: "%s%s = %s" % (m.group(1), k, v), txt)
    for old, new in (replace or []):
        if old not in txt:
            raise MachineryError("cannot substitute %r in %s" % (old, template_path))
        txt = txt.replace(old, new)
    return txt
