"""Code -> spec: validate recorded ndjson traces against a TLA+ trace specification with TLC.

Convention for a trace module `Cxx_Trace.tla` (see spec/C15_Trace.tla):

    TraceLog == ndJsonDeserialize("trace.ndjson")          \\* file in TLC's working directory
    VARIABLE l                                             \\* index of the next line to consume
    IsEvent(e) == l <= Len(TraceLog) /\\ TraceLog[l].ev = e /\\ l' = l + 1
    TraceReset  == IsEvent("reset") /\\ <all spec variables take their Init values>
    HW          == TLCSet(1, IF l > TLCGet(1) THEN l ELSE TLCGet(1))     (evaluated in a CONSTRAINT)
    TraceAccepted == PrintT(<<"VFHW", ToJson([hw |-> TLCGet(1)])>>) /\\ TLCGet(1) = Len(TraceLog) + 1

Many traces are concatenated into one file, separated by {"ev":"reset",...} lines, so the JVM start
(~3 s) is paid once per batch.  The batch is accepted iff the high-water mark reaches the end.  When
it does not, the trace containing the first unmatched line is the rejected one; it is reported and
the remainder of the batch is validated again without it.
"""
import json
import os
import shutil

from . import tlc
from .common import SPEC, MachineryError, log


class TraceVerdict:
    def __init__(self, name):
        self.name = name
        self.accepted = False
        self.invariant = None      # name of an invariant violated while consuming this trace
        self.matched = 0           # events of this trace matched before rejection
        self.next_event = None     # first unmatched event
        self.length = 0
        self.events = None         # the events of a rejected trace (so that the replay artefact is self-contained)

    def as_dict(self):
        d = {"trace": self.name, "accepted": self.accepted, "invariant": self.invariant,
             "matched": self.matched, "length": self.length, "next_event": self.next_event}
        if self.events is not None:
            d["events"] = self.events
        return d


def load_ndjson(path):
    """Split a recorded file into traces at reset markers -> [(name, reset_line, [events])]."""
    traces = []
    with open(path) as f:
        for ln in f:
            ln = ln.strip()
            if not ln:
                continue
            ev = json.loads(ln)
            if ev.get("ev") == "reset":
                traces.append((ev.get("trace", "t%d" % len(traces)), ev, []))
            else:
                if not traces:
                    traces.append(("t0", {"ev": "reset", "trace": "t0"}, []))
                traces[-1][2].append(ev)
    return traces


def _run_batch(ctx, module, cfg, traces, tag, timeout, dfs, cfg_text=None):
    """One TLC run over the concatenation. Returns (hw, violated_invariant, states, TLCResult)."""
    d = os.path.join(ctx.tmp, "trace-" + tag)
    if os.path.isdir(d):
        shutil.rmtree(d)
    shutil.copytree(SPEC, d)
    n = 0
    with open(os.path.join(d, "trace.ndjson"), "w") as f:
        for _name, reset, evs in traces:
            f.write(json.dumps(reset, sort_keys=True) + "\n")
            n += 1
            for e in evs:
                f.write(json.dumps(e, sort_keys=True) + "\n")
                n += 1
    # run TLC inside that directory (tlc.run stages by name; emulate with a private ctx-like shim)
    class _C:
        tmp = ctx.tmp
    shim = _C()
    # reuse tlc.run but force its stage dir to d
    old = tlc._stage
    tlc._stage = lambda _ctx, _name: d
    try:
        res = tlc.run(shim, module, cfg, workers=1, timeout=timeout, dfs=dfs, deadlock=False,
                      cfg_text=cfg_text, name="trace-" + tag)
    finally:
        tlc._stage = old
    hw = None
    for tagp, obj in res.prints:
        if tagp == "VFHW":
            hw = int(obj["hw"])
    shutil.rmtree(d, ignore_errors=True)
    return hw, res.violated, n, res


def validate(ctx, module, cfg, traces, tag="b", timeout=600, dfs=True, batch=200, cfg_text=None,
             max_rejections=12):
    """Validate traces [(name, reset_line, [events])]. Returns (verdicts, total_distinct_states).

    After max_rejections rejected traces the rest is left unvalidated (a systematic divergence
    needs reading, not more JVM starts); unvalidated traces get no verdict."""
    verdicts = []
    total_states = 0
    nrej = 0
    queue = list(traces)
    bi = 0
    while queue:
        chunk, queue = queue[:batch], queue[batch:]
        while chunk:
            bi += 1
            hw, violated, nlines, res = _run_batch(ctx, module, cfg, chunk, "%s%d" % (tag, bi), timeout, dfs, cfg_text)
            total_states += res.distinct
            if violated and violated not in ("TraceAccepted", "property"):
                # an invariant failed at some consumed prefix: hw (from the constraint) tells where
                pass
            if hw is None:
                if violated is None and res.ok:
                    raise MachineryError("trace spec %s printed no VFHW line" % module)
                # invariant violation stops TLC before the postcondition: recover hw from the error trace
                hw = _hw_from_error(res)
            if violated is None and hw == nlines + 1:
                for name, _r, evs in chunk:
                    v = TraceVerdict(name)
                    v.accepted, v.matched, v.length = True, len(evs), len(evs)
                    verdicts.append(v)
                break
            # locate the trace containing line hw (1-based index of the first unmatched line)
            pos = 0
            culprit = None
            for i, (name, _r, evs) in enumerate(chunk):
                start = pos + 1               # line of the reset marker
                end = pos + 1 + len(evs)      # last line of this trace
                if hw is not None and start <= hw <= end + (1 if i == len(chunk) - 1 else 0):
                    culprit = i
                    break
                pos = end
            if culprit is None:
                culprit = len(chunk) - 1 if hw and hw > nlines else 0
                pos = sum(1 + len(t[2]) for t in chunk[:culprit])
            for name, _r, evs in chunk[:culprit]:
                v = TraceVerdict(name)
                v.accepted, v.matched, v.length = True, len(evs), len(evs)
                verdicts.append(v)
            name, _r, evs = chunk[culprit]
            v = TraceVerdict(name)
            v.length = len(evs)
            v.events = evs
            v.matched = max(0, (hw or 0) - (pos + 1) - 1)
            v.invariant = violated if violated not in (None, "TraceAccepted", "property") else None
            if v.matched < len(evs):
                v.next_event = evs[v.matched]
            verdicts.append(v)
            chunk = chunk[culprit + 1:]
            nrej += 1
            if nrej >= max_rejections:
                return verdicts, total_states
    return verdicts, total_states


def _hw_from_error(res):
    """When an invariant is violated TLC prints the error trace; the last state's `l` is the
    number of lines consumed + 1."""
    import re
    ls = re.findall(r"^/\\ l = (\d+)$", res.out, re.M)
    if not ls:
        ls = re.findall(r"\bl = (\d+)", res.out)
    return int(ls[-1]) if ls else None
