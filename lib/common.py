"""Shared plumbing for the /verif checks (python3 stdlib only).

Exit-code contract (see DESIGN.md section 5):
  0  property held on everything explored (KNOWN-FINDING lines may be printed)
  1  a reproduced violation not listed in known_findings.json: prints
     "VIOLATION property=<id> replay=<path>"
  2  machinery failure (TLC error, build failure, timeout, vacuous run) - never a verdict
"""
import json
import os
import shutil
import sys
import tempfile
import time

VERIF = os.path.dirname(os.path.dirname(os.path.abspath(__file__)))
REPO = os.environ.get("VERIF_REPO", "/repo")
SPEC = os.path.join(VERIF, "spec")
HARNESS = os.path.join(VERIF, "harness")
EVIDENCE = os.path.join(VERIF, "evidence")
REPLAY = os.path.join(VERIF, "replay")


class MachineryError(Exception):
    """Raised for anything that is not a verdict about the code (exit 2)."""


class HarnessCrash(MachineryError):
    """The harness test process died without writing result.json; .log holds its output."""

    def __init__(self, msg, log=""):
        super().__init__(msg)
        self.log = log


def log(*a):
    print(*a, file=sys.stderr, flush=True)


class Ctx:
    """Per-invocation context: property id, tier, seed, scratch dir, timers."""

    def __init__(self, pid, tier, seed, replay=None):
        self.pid = pid
        self.tier = tier
        self.seed = seed
        self.replay = replay
        self.t0 = time.time()
        base = os.environ.get("VERIF_TMP") or tempfile.gettempdir()
        self.tmp = tempfile.mkdtemp(prefix="verif-%s-" % pid, dir=base)
        self.violations = []      # list of dicts {what, replay, cls}
        self.known = []           # list of strings (KNOWN-FINDING lines)
        self.notes = []

    def sub(self, name):
        d = os.path.join(self.tmp, name)
        os.makedirs(d, exist_ok=True)
        return d

    def cleanup(self):
        if os.environ.get("VERIF_KEEP"):
            log("keeping scratch", self.tmp)
            return
        shutil.rmtree(self.tmp, ignore_errors=True)

    def wall(self):
        return round(time.time() - self.t0, 2)

    @property
    def quick(self):
        return self.tier != "thorough"


def write_json(path, obj):
    os.makedirs(os.path.dirname(path), exist_ok=True)
    tmp = path + ".tmp"
    with open(tmp, "w") as f:
        json.dump(obj, f, indent=1, sort_keys=True, default=str)
        f.write("\n")
    os.replace(tmp, path)


def save_replay(ctx, name, obj):
    """Persist a counterexample artefact under /verif/replay/<id>/ and return its path."""
    d = os.path.join(REPLAY, ctx.pid)
    os.makedirs(d, exist_ok=True)
    p = os.path.join(d, name)
    if isinstance(obj, (dict, list)):
        write_json(p, obj)
    else:
        with open(p, "w") as f:
            f.write(obj)
    return p


def classify_mismatches(ctx, res, what):
    """Turn harness mismatches into violations (L1) or divergences (class prefixed "L2:").

    L1 = a clause of the property observed to fail on the real code (section 5 of DESIGN.md);
    L2 = the code no longer follows the model internally while every observation is one the
    property allows: recorded in the evidence, never a violation."""
    div = 0
    for m in res.get("mismatches", []):
        if m["class"].startswith("L2:"):
            div += 1
            ctx.notes.append("DIVERGENCE %s: %s" % (m["class"], m["what"]))
            continue
        n = sum(1 for v in ctx.violations if v.get("cls") == m["class"])
        path = save_replay(ctx, "%s-seed%d-%s%s.json" % (what, ctx.seed, m["class"].replace("/", "_")[:60],
                                                          "" if n == 0 else "-%d" % n), m)
        exp, got = json.dumps(m.get("expected"))[:300], json.dumps(m.get("got"))[:300]
        ctx.violations.append({"cls": m["class"], "what": "%s: %s (expected %s, got %s)" % (
            m["class"], m["what"], exp, got), "replay": path})
    return div


def run_group(cmd, timeout, **kw):
    """subprocess.run replacement: the command runs in its own process group and the WHOLE group is killed on
    timeout (go test -> test binary, tlc wrapper -> java: grandchildren would otherwise live on)."""
    import signal
    import subprocess
    p = subprocess.Popen(cmd, stdout=subprocess.PIPE, stderr=subprocess.STDOUT, text=True, errors="replace",
                         start_new_session=True, **kw)
    try:
        out, _ = p.communicate(timeout=timeout)
    except subprocess.TimeoutExpired:
        try:
            os.killpg(p.pid, signal.SIGKILL)
        except OSError:
            pass
        try:
            p.communicate(timeout=30)
        except Exception:
            pass
        raise
    finally:
        # whatever the command left behind in its group (a test binary that outlived `go test`)
        try:
            os.killpg(p.pid, signal.SIGKILL)
        except OSError:
            pass

    class R:
        pass
    r = R()
    r.returncode, r.stdout = p.returncode, out
    return r
