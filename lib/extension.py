"""Extension engines (checks/<eid>.py with PARENT = "Cxx") run as parts of their parent property's check.

The parent's driver starts them at the beginning of its run (own process: own scratch directory, own TLC
stage, own Go harness runs) and joins them at the end: their violations become violations of the parent
(matched against known_findings.d by (parent, class)), their coverage is reported under
coverage.extension_engines of the parent's evidence."""
import json
import os
import subprocess
import sys

from .common import VERIF, MachineryError, log


def start(ctx, eid):
    out = os.path.join(ctx.tmp, "ext-%s.json" % eid)
    env = dict(os.environ, VERIF_SEED=str(ctx.seed), VERIF_PART_OF=ctx.pid, VERIF_PART_JSON=out)
    p = subprocess.Popen([sys.executable, os.path.join(VERIF, "check"), eid, "--tier", ctx.tier],
                         stdout=subprocess.PIPE, stderr=subprocess.STDOUT, env=env, text=True)
    return {"eid": eid, "proc": p, "out": out}


def finish(ctx, h, timeout=3000):
    """Join; returns the engine's coverage summary (dict). Raises MachineryError if the engine could not decide."""
    try:
        text, _ = h["proc"].communicate(timeout=timeout)
    except subprocess.TimeoutExpired:
        h["proc"].kill()
        raise MachineryError("extension engine %s timed out" % h["eid"])
    rc = h["proc"].returncode
    if rc not in (0, 1) or not os.path.exists(h["out"]):
        raise MachineryError("extension engine %s failed (rc=%s): %s" % (h["eid"], rc, (text or "")[-1500:]))
    with open(h["out"]) as f:
        data = json.load(f)
    for v in data.get("violations", []):
        ctx.violations.append(v)
    for line in data.get("known", []):
        line = line.replace("property=%s " % h["eid"], "property=%s " % ctx.pid)
        if line not in ctx.known:
            ctx.known.append(line)
    cov = data.get("coverage") or {}
    keep = {k: cov[k] for k in ("states", "transitions", "traces_validated_against_impl", "exhaustive", "checker_cmd",
                                "divergences_L2") if k in cov}
    keep.update(engine=h["eid"], wall_s=data.get("wall_s"), violations=len(data.get("violations", [])))
    log("extension engine %s: %s" % (h["eid"], (text or "").strip().splitlines()[-1] if text else ""))
    return keep


def start_all(ctx, eids):
    return [start(ctx, e) for e in eids]


def finish_all(ctx, handles, cov):
    cov["extension_engines"] = [finish(ctx, h) for h in handles]
    return cov
