"""known_findings.json: genuine defects recorded rather than repaired.

File format: {"findings": [ {"property": "C05", "class": "<stable class key>", "what": "...",
                             "status": "open" | "fixed", "commit": "..."} ]}
A violation is matched by (property, class). Only status=open entries suppress; `fixed`
entries suppress nothing.  The file is never written at run time.
"""
import json
import os

from .common import VERIF

_PATH = os.path.join(VERIF, "known_findings.json")


def load():
    out = []
    paths = [_PATH]
    d = os.path.join(VERIF, "known_findings.d")
    if os.path.isdir(d):
        paths += [os.path.join(d, f) for f in sorted(os.listdir(d)) if f.endswith(".json")]
    for p in paths:
        if os.path.exists(p):
            with open(p) as f:
                out += json.load(f).get("findings", [])
    return out


def match(pid, cls):
    for f in load():
        if f.get("property") == pid and f.get("status", "open") == "open" and f.get("class") == cls:
            return f
    return None
