#!/usr/bin/env python3
"""Print the detection matrix (markdown) from /verif/seeded/*/meta.json."""
import glob, json, os, re
missed = set(re.findall(r"C\d\d-\w+", open("/verif/seeded/INITIALLY_MISSED.txt").read()))
rows = []
for d in sorted(glob.glob("/verif/seeded/*")):
    mp = os.path.join(d, "meta.json")
    if not os.path.exists(mp):
        continue
    m = json.load(open(mp))
    v = m.get("verification", {})
    cls = ""
    for l in v.get("check_lines", []):
        if l.startswith("violation:"):
            cls = l[len("violation:"):].strip().split(":")[0][:60]
            break
    rows.append((os.path.basename(d), (m.get("summary") or "")[:150].replace("|", "/").replace("\n", " "),
                 (m.get("needs_to_manifest") or "")[:140].replace("|", "/").replace("\n", " "),
                 "missed" if os.path.basename(d) in missed else "detected", "yes" if v.get("detected") else "NO", cls))
print("| id | change | needs | first run | now | first class reported |")
print("|---|---|---|---|---|---|")
for r in rows:
    print("| %s | %s | %s | %s | %s | %s |" % r)
print()
print("%d seeded changes, %d detected" % (len(rows), sum(1 for r in rows if r[4] == "yes")))
print("first run: %d detected, %d missed" % (sum(1 for r in rows if r[3] == "detected"), sum(1 for r in rows if r[3] == "missed")))
